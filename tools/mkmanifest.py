#!/usr/bin/env python3
"""Regenerates MANIFEST.json from the table below (python3 tools/mkmanifest.py). Validates against the schema when
jsonschema is importable (python3-vt)."""
import json
import os

VERIF = os.path.dirname(os.path.dirname(os.path.abspath(__file__)))

TB = ("rustc nightly MIR construction and trait resolution; the vfacts driver and the python rule code; documented "
      "contracts of third-party crates (tempfile, fs4, toml, postcard) treated as opaque leaves; cfg(wasm)/cfg(windows) "
      "arms are not compiled and not analysed")

CHECKS = {
    "C01": dict(
        category="other",
        text="Decides only the configuration clause of C01: that every clock-edge and reset polarity/synchronicity setting gets the same "
             "meaning in the emitter, the simulator front end, `veryl test` and the symbol-table prefix/suffix selection. Every function of "
             "those crates that switches on ResetType, ClockType, the reset/clock variants of TypeKind or CastingType is found; at every "
             "program point where such a value is constrained to a set of variants (must-facts of the discriminant switches) nothing that "
             "happens there may contradict the vocabulary of the constraint: bool constants stored into polarity-named destinations "
             "(reset_active_low, abstract_reset_sync, src_is_high, fn reset_is_async, tuple positions named by the closures that destructure "
             "them), \"posedge\"/\"negedge\" keywords, enum-to-enum maps, polarity-named build fields; named destinations must cover their "
             "whole class; same/opposite-polarity fallbacks are negated exactly when the names differ; if_reset emits \"!\" exactly under "
             "reset_active_low; abstract reset/clock types follow the [build] option. The oracle is the code's own vocabulary. It does not "
             "decide behavioural equivalence of emitted SystemVerilog and the simulator for any design.",
        design_ref="DESIGN.md section 3 C01, section 8.4j",
        technique="enum-variant constraint propagation (must-facts) + vocabulary agreement of sibling classification sites; negation parity of polarity bridges",
    ),
    "C04": dict(
        category="other",
        text="Decides necessary conditions of 'incremental == clean' that are visible in code shape: every Metadata field "
             "read by the work a cache hit skips (analyzer, emitter) is folded into the store's global key (or is in a "
             "reasoned exemption table), structs folded whole serialise every field, the manifest is saved only after "
             "all outputs are written, and only clean pass-1 results are captured (exhaustive over all 21k functions of "
             "the consumer crates); plus the miss-set construction: one closure step over saved dependents with no later seed, a "
             "transitively closed dependents map, removed/renamed files seeding the miss set, every kind of reported diagnostic stored "
             "for replay, no fragment kept for a file whose pass2 was skipped, gc keeping every referenced blob kind. Three of these "
             "rules were written after an independent sub-agent found real defects by running sequences (fixed: F12, F13, F14). "
             "It does not decide output equality over edit histories.",
        design_ref="DESIGN.md section 3 C04, section 8",
        technique="field-read coverage (MIR places) vs. provenance of the cache key; CFG reachability and path enumeration with branch facts; operand provenance; enum-arm coverage",
    ),
    "C05": dict(
        category="proof",
        text="Decides the structural recovery discipline: who may mutate files inside the store (frozen table), "
             "atomic_write's write-then-rename shape, must-facts (magic, schema version, content address) dominating "
             "every payload read_blob returns, and failure-is-a-miss in Incremental::try_restore. Every obligation is "
             "a must-fact over all CFG paths of the named function. It does not decide that every crash point leads "
             "to a correct next build.",
        design_ref="DESIGN.md section 3 C05, section 8",
        technique="who-may-call table; forward must-analysis over MIR CFG; provenance",
    ),
    "C07": dict(
        category="other",
        text="Decides (a) drop coverage: every thread-local table that code reachable from Parser::parse and the four analyzer passes "
             "writes (27 today; the call graph includes callbacks from parol into the generated semantic actions and Into/TryInto "
             "conversions) is cleared per file by code statically reachable from Analyzer::drop_file, or is in a reasoned exemption "
             "table (interning, monotonic counters, tables keyed by the fresh TokenIds of a parse, lists drained by post_pass1, codec "
             "sessions); two tables (type_dag, generic-instance index) are reported UNDECIDED on every run; (b) the re-analysis protocol "
             "of the language server: on_change, background_analyze and LsIncremental::try_restore drop the file's previous state "
             "before they parse or restore it on every path on which the file may have been seen, a failed restore drops again, "
             "on_remove drops, published diagnostics are filtered by the changed file. On its first use the coverage rule confirmed "
             "F10 (doc comments never dropped: a deleted doc comment kept producing a diagnostic), shown through the analyzer API and "
             "fixed. It does not decide equality with a freshly started server for every notification history.",
        design_ref="DESIGN.md section 3 C07, section 8.4o",
        technique="thread-local effect sets over a may call graph (writes) vs. a static under-approximate call graph (drops); path enumeration with branch facts for the protocol",
    ),
    "C10": dict(
        category="other",
        text="Decides only the guard the statement names, for every generated parser in the workspace (the current grammar's and the "
             "migrator's previous-grammar one): each function that drives a parol LLKParser sets max_parsing_depth to a literal in "
             "1..=4096 on every path before parse_into; each generated parse entry is called only from its crate's Parser::parse; "
             "Parser::parse hands the generated parser the owned newline-terminated copy of the input, not the caller's text. "
             "A weak but genuine necessary condition: on its first run it found two real defects in the migrator's parser (no depth "
             "cap: stack overflow on deep nesting; original input parsed: a final line comment could not be migrated), both "
             "reproduced with the binary and fixed (F17, F18). It does not decide termination or panic-freedom of the generated "
             "LL(k) parser and scanner on all inputs, nor that diagnostic spans lie inside the input.",
        design_ref="DESIGN.md section 3 C10, section 8.4m",
        technique="who-must-call with literal argument check (must-facts before the parse call); who-may-call; argument provenance",
    ),
    "C12": dict(
        category="other",
        text="Decides the units and base discipline of position arithmetic at every hand-written construction of a Token in the parser "
             "and the migrator (17 sites) and in Token::end_line/end_column: `column` never has a byte count (str::len, Match::start/end, "
             "find/rfind) arithmetically combined into it - counting goes through chars().count(); `pos`/`length` never come from a "
             "character count; a token derived from another token takes pos/line/column from values that depend on the parent's; the "
             "parol token conversion maps start_line/start_column/start/len() to line/column/pos/length. On its first run the rule "
             "confirmed finding F6 in both copies of split_comment_token (byte length added to the column, pos relative to the parent), "
             "shown with the binary and fixed. It does not decide that positions are right for every input nor the source order of tokens.",
        design_ref="DESIGN.md section 3 C12, section 8.4n",
        technique="provenance with a units table (byte-valued vs character-valued sources) restricted to arithmetic combination; parent-dependence of derived positions; field-to-field mapping",
    ),
    "C06": dict(
        category="other",
        text="Decides the codec and table coverage of the pass-1 fragment cache, the structural part the property singles out: starting at "
             "FragmentPayload the rule follows what the derived Serialize impls really write (805 workspace types; #[serde(skip)] fields "
             "fall out because they are not handed to the serializer) and demands that every single-integer *Id newtype so reached (TokenId, "
             "TextId, StrId, PathId, SymbolId, DefinitionId) has hand-written Serialize and Deserialize impls in a fragment_codec module "
             "that reach the window / rebase functions and read the window of their own kind; windows and rebases are built from one "
             "kind's counters; each payload field is exported from one table module and restored into the same one, and every field is "
             "consumed; every thread-local that parse + analyze_pass1 write (23) is read by capture and written by restore or is in a "
             "four-entry exemption table (two are reported undecided); both codec sessions bracket exactly the postcard call, parser "
             "outermost, and are closed on every path; an id outside its window and a serialisation error refuse the fragment. It does "
             "not decide that the restored state equals a fresh analysis for every input.",
        design_ref="DESIGN.md section 3 C06, section 8.4r",
        technique="type-closure over ADT facts driven by the serializer calls of derived impls; who-must-reach on the call graph; field-to-table provenance agreement between capture and restore; thread-local effect coverage; must-pass-through session brackets",
    ),
    "C09": dict(
        category="other",
        text="Decides the token and comment conservation of the formatter's tree walk, a structural necessary condition of 'formatting only "
             "changes layout': each of the 316 provided methods of the current-grammar VerylWalker visits every child of its node (derived "
             "from the generated ADTs) with the child's own method, on every path of the child's presence context and in source order, and "
             "TokenCollector - the verbatim copier of #[fmt(skip)] items and embed bodies - overrides only veryl_token and keeps every "
             "token and comment; each of the 136 overrides of `impl VerylWalker for Formatter` does the same for its node, a visit being a "
             "walker method, a token helper on a terminal's token, emit_trailing_comments on a trailing comma (the comma may go, its comments "
             "may not), a helper checked as a walker of its parameter's type, a closure run once by aligned_case_arm, or deeper calls that "
             "cover an inlined child; alignment-pass-only paths are excluded; the token sink pushes the token's own text and every comment's "
             "own text on every emission path. On its first run it found F25 (the provided mixin_declaration skipped the semicolon: `veryl "
             "fmt` broke #[fmt(skip)] interfaces; shown, fixed) and F26 (empty `#()` / `()` of an instance are dropped with their comments: "
             "deliberate, recorded as known). Two overrides (inst_parameter_item, inst_port_item) delegate through an Option::map closure "
             "the engine does not follow and are reported undecided. It does not decide that the spacing written between two tokens "
             "re-lexes to the same tokens, the renderer (C28), nor the equality of the emitted SystemVerilog.",
        design_ref="DESIGN.md section 3 C09, section 8.4q",
        technique="walker must-visit analysis: leaves derived from ADT facts vs visits in MIR (access paths through Option/Vec/variant contexts, helper and closure inlining), absence-edge path search per presence context, order by reachability",
    ),
    "C11": dict(
        category="other",
        text="Decides only the clause 'within the configured elaboration limits': every *_limit of the analyzer's Config is compared in a "
             "branch somewhere (directly or through the struct field it was copied into) and is set from the [build] option of the same "
             "name; InstanceHistory::push refuses a push beyond the depth / total limits before it records the instance, and every match on "
             "the refusal reports exceed_limit of the matching kind on every path of the arm; eval_factor_path does not reach the recursive "
             "evaluation on the exceeding edge of the function-depth comparison and remembers the overflow, which create_ir turns into a "
             "diagnostic (as it does for comptime_for_overflow); check_size reports exceed_limit(EvaluateSize) exactly on the exceeding edge. "
             "It does not decide panic-freedom of the analyzer, emitter and formatter on every parseable input - the main body of the "
             "property - which depends on run-time invariants behind thousands of unwraps.",
        design_ref="DESIGN.md section 3 C11, section 8.4t",
        technique="value-flow (taint with carrier fields) from each limit to the comparisons it decides; edge-sensitive reachability from the exceeding edge of each comparison (no recording / no recursion, refusal constructed); must-pass-through of the diagnostic in every refusal arm",
    ),
    "C20": dict(
        category="other",
        text="Decides only the report-coverage clause ('the area it reports is the sum of the library areas of its cells, flip-flops and RAM "
             "macros'), structurally: compute_area builds AreaReport.total as exactly combinational + sequential + memory (the same three "
             "values that are stored in those fields, each once); combinational is an accumulator updated on every iteration of a loop over "
             "module.cells (no skipping adapter, no path around the update) by library.info(<that cell>.kind).area; sequential is "
             "module.ffs.len() x ff_area(); memory is the bit count of every RAM block x sram_model().bit_area; the power totals depend on the "
             "cell, flip-flop and RAM figures; compute_area / compute_power / compute_timing each read every component list of GateModule "
             "(a new list is reported undecided). It does not decide the well-formedness of netlists (single driver, in-range references, "
             "arity, acyclicity) nor that the reported depth is the longest combinational path: those quantify over run-time netlists.",
        design_ref="DESIGN.md section 3 C20, section 8.4s",
        technique="expression-tree shape of the report aggregate (summands resolved to named locals), must-pass-through of the accumulator update in the loop over cells, provenance coverage of the power totals, field-read coverage of the component lists",
    ),
    "C23": dict(
        category="other",
        text="Decides the structural necessary conditions of `veryl migrate` keeping every token and comment except the for-loop index "
             "type: each of the 312 provided methods of the previous-grammar VerylWalker visits every child of its node (derived from "
             "the generated ADTs, through auxiliary Opt/List/Group ADTs, token fields through veryl_token) with the child's own method, "
             "on every path of the child's presence context and in source order - the only children never visited are ForStatement.colon "
             "and .scalar_type; the Migrator overrides only veryl_token and for_statement and the override passes the same check; the "
             "token sink writes the token's own interned text after its spacing, then every comment, and never lets a byte length into "
             "its character column (finding F24: it did - tokens after multi-byte text were glued together; shown with the binary, "
             "fixed); cmd_migrate writes a file only after the current parser accepted the migrated text, only where `migrate` is true, "
             "and `migrate` is true only where the current parser rejected the input or Migrator::migratable selects it. It does not "
             "decide that the previous grammar accepts exactly the previous language, nor the formatter's own token preservation (C09).",
        design_ref="DESIGN.md section 3 C23, section 8.4p",
        technique="walker must-visit analysis: leaves derived from ADT facts vs visits in MIR (access paths through Option/Vec/variant contexts), must-pass-through per presence context, order by reachability; units provenance; must-pass-through and edge reachability in cmd_migrate",
    ),
    "C13": dict(
        category="other",
        text="Decides the provenance chain of a source-map entry across three crates: Emitter::push_token anchors a token's text with "
             "that token's own line and column; process_comment gives every comment of a token a CommentDoc with its own line, column "
             "and text; doc::anchored stores its parameters under their names; the renderer records (current_line, col+1) for exactly "
             "that item after flushing the indent and before writing the text (C28's anchor rule, re-decided here); Emitter::emit passes "
             "every RenderedAnchor of the one render that produced the emitted string to SourceMap::add field-to-parameter by name and "
             "then builds the map; SourceMap::add subtracts exactly 1 from each coordinate and calls the sourcemap builder in "
             "(dst_line, dst_col, src_line, src_col) order. It does not decide that every entry is right for every layout, entry order "
             "inside the sourcemap crate, or per-line coverage.",
        design_ref="DESIGN.md section 3 C13, section 8.4g",
        technique="access-path identity of arguments (field-to-parameter agreement); must-pass-through on MIR CFG; small arithmetic shape match",
    ),
    "C16": dict(
        category="other",
        text="Decides the structure every clock-domain verdict goes through: check_clock_domain reports mismatch_clock_domain exactly "
             "when compatible(lhs.clock_domain, rhs.clock_domain) is false and no unsafe(cdc) covers the site's token (both directions, "
             "over all CFG paths); every hand-written classification of ClockDomain (compatible, merge, domain_id, Display) sends Explicit "
             "and Inferred to the same arm and == on domains is used only against payload-free variants; the operator typing functions "
             "check every operand pair (binary x-y; ternary x-y, x-z, y-z; concatenation element vs accumulated result) and merge every "
             "operand's domain into the result; check_assign_clock_domain checks destination vs source, clock and every condition domain; "
             "each of 12 lowering functions (frozen table, one reason each) still reaches the check. It does not decide that domain "
             "inference assigns the right domain to every signal, nor that the table of lowering functions is complete for future constructs.",
        design_ref="DESIGN.md section 3 C16, section 8.4h",
        technique="must-facts both directions on the kernel's CFG; enum-arm equivalence; argument-pair coverage; provenance of the propagated domain; who-must-call table",
    ),
    "C24": dict(
        category="other",
        text="Decides the run-to-run determinism sources on the build path: every iteration over a RandomState-hashed "
             "std HashMap/HashSet in 11 crates is found from MIR receiver types and classified by the data flow of the "
             "iterator (order-insensitive consumer, sorted before use, or order-sensitive). Inside the functions that "
             "define the processing order, the filelist and the lockfile text an order-sensitive iteration is a "
             "violation; the directory walk must be sorted. Elsewhere order-sensitive sites must be in a triage table "
             "confirmed by reading, else they are reported UNDECIDED. Independence from the *input* file order is not decided.",
        design_ref="DESIGN.md section 3 C24, section 8",
        technique="typed call-site enumeration; iterator data-flow classification; CFG separation (sort before sink)",
    ),
    "C25": dict(
        category="other",
        text="Decides (a) the at-most-once and order structure of CmdBuild::sort_filelist: every PathSet pushed into the result is taken "
             "out of a map keyed by source path by remove/into_values, maps are refilled only with extracted values, the first segment follows "
             "type_dag::toposort() front to back, the remainder is sorted by src before it is appended; (b) injectivity by construction of "
             "Metadata::paths: every definition of PathSet.dst/.map is examined per Target/SourceMapTarget arm for lossy steps (file_name) or a "
             "strip_prefix whose base changes inside the loop over source directories without a collision check. Four arms fail (b) today; "
             "each was shown against the built binary (findings/F3_output_path_collisions.sh) and is listed as a known finding (F3a-d), any "
             "other arm or a different lossy step is still reported. It does not decide completeness of the filelist nor the dependency order "
             "for all projects.",
        design_ref="DESIGN.md section 3 C25, section 8.4k",
        technique="provenance of pushed values (linear extraction); CFG ordering; per-arm provenance scan for lossy / loop-variant path steps",
    ),
    "C26": dict(
        category="other",
        text="Decides the option-flow clause: every read of strip_comments, newline_style, indent_width, max_width and vertical_align in the "
             "whole workspace is found from MIR field projections; the value is followed by a forward may-flow analysis through locals, "
             "pure arithmetic, the carrier fields (Emitter/Formatter/Migrator.newline, RenderOpts.*) and wrap_isolation_threshold's result "
             "into their readers in turn; every consumer must be a presentation effect from a small table (process_comment only under "
             "strip_comments, computed as the classical control-dependence region of the branch, so an early return that skips other "
             "effects is seen; the alignment pass under vertical_align; RenderOpts fields of the same name, align_reset decisions and "
             "renderer-internal layout for the widths; line-end writes and line-feed replacement for newline_style), and no crate that "
             "decides behaviour reads them. It does not decide that two layouts emit behaviourally equal SystemVerilog; "
             "expand_inside_operation is excluded as a rewrite, except for one shape clause (R4): an emit_expanded_X twin taken under the option uses every component of a shared decision helper's tuple result that its plain twin uses.",
        design_ref="DESIGN.md section 3 C26, section 8.4i",
        technique="workspace-wide field-read enumeration; forward value-flow (taint) with carrier-field closure; control dependence from post-dominators; consumer allow-table; sibling (twin) agreement on consumed result components",
    ),
    "C27": dict(
        category="other",
        text="Decides sibling agreement of check mode and write mode in `veryl build` and `veryl fmt`: the mode of every "
             "site is the must-fact on opt.check; every write-mode output write (emitted .sv, source map, bundle, filelist) "
             "must have a check-mode read of the same path (same MIR local, or the same Metadata-derived identity across "
             "gen_filelist/check_bundle); check-mode writes go to the temp dir only; all_pass is cleared only in check mode; "
             "fmt's write and fmt --check's failure sit under the same `input != formatted` must-fact on the text read from "
             "the path written; path-sensitively, every feasible check-mode path of the per-file body stages or compares the emitted file "
             "(regions bundle x $std), opt.check reaches nothing but branch conditions, and fmt clears all_pass / writes on every path "
             "where the text differs. Three known findings (F7a source map, F7b filelist, F7c $std outputs written in check mode) are "
             "listed in known_findings.json. It does "
             "not decide that the compared bytes equal the bytes write mode would produce for every project state.",
        design_ref="DESIGN.md section 3 C27, section 8",
        technique="forward must-analysis (mode flag, comparison outcome) over MIR CFG; acyclic path enumeration with branch facts and feasibility; value-flow of the mode flag; path identity by local / provenance",
    ),
    "C28": dict(
        category="proof",
        text="Decides the per-variant emission structure of veryl_pretty::render and the anchor-recording order: render_frame "
             "and fits_flat have an explicit arm for every Doc variant; on every CFG path through its arm Text pushes its own "
             "payload, Anchored/Comments hand their payload to emit_anchored/render_comments, Concat pushes a frame per item in "
             "reverse onto the LIFO stack, Indent/Group/ForceFlat push their inner document; emit_anchored and every iteration "
             "of render_comments push the item's text; IfBreak text is pushed exactly under mode == Break and the break/flat "
             "paddings only under their mode; anchors are built from (state.current_line, state.col + 1) and the item's own "
             "source coordinates after the pending indent is flushed, with nothing moving the cursor before the text is pushed; "
             "the trailing-whitespace strip runs only under its option on the final string; no byte length flows into a column. "
             "Finite, exact obligations over 7 functions. It does not decide that layout choices (fits_flat budgets, "
             "swallow/pending-indent interplay) are right.",
        design_ref="DESIGN.md section 3 C28, section 8.4d",
        technique="enum-arm exhaustiveness; must-pass-through on MIR CFG with feasibility pruning; access-path identity; provenance (units)",
    ),
    "C29": dict(
        category="proof",
        text="Decides the guard and GC structure of veryl_cache::Store: gc's referenced set covers every blob-bearing "
             "field, deletion only of unreferenced fragments and only in gc, on-disk entries survive open only under "
             "parsed && schema == SCHEMA_VERSION && key == global_key, save's skip/write/gc ordering, saved vs "
             "in-progress separation, blocking literals of open/try_open. It does not decide the map semantics over "
             "operation sequences.",
        design_ref="DESIGN.md section 3 C29, section 8",
        technique="forward must-analysis over MIR CFG; field read/write sets; provenance",
    ),
    "C30": dict(
        category="other",
        text="Decides the lock discipline around veryl_path::lock_dir in the five functions that take a directory lock "
             "(std/<hash>, resolve/, dependencies/, the project's .build): exists()-decisions that control content "
             "mutations are made with the lock held, content mutations happen with the lock held and before unlock, "
             "the lock File is never leaked; and that nothing reachable from the language-server binary reaches the "
             "blocking Store::open or locks the project's .build. One known finding (F4, veryl_std::expand) is listed "
             "in known_findings.json. It does not decide absence of bad interleavings in general, nor match a lock "
             "to the region a path argument lies in.",
        design_ref="DESIGN.md section 3 C30, section 8",
        technique="forward must-analysis (lock held) over MIR CFG; control-dependence of mutations on exists(); call-graph reachability",
    ),
    "C31": dict(
        category="other",
        text="Decides the determinism sources and the decision structure of dependency resolution in "
             "veryl_metadata::lockfile: no time/random/pid/Uuid::new_v4 source in any of its functions (ids are new_v5), "
             "every RandomState hash iteration there is order-insensitive, sorted before use or triaged (C24's classifier "
             "and table); resolve_version consults the lockfile first (latest only when unlocked or force_update); a locked "
             "release is reused only under project equality and version_req.matches; resolve_version_from_latest sorts "
             "pubfile.releases descending by version before the first-match loop and returns only a matching release. "
             "It does not decide 'best version' over all release histories nor save/reload equality.",
        design_ref="DESIGN.md section 3 C31, section 8",
        technique="who-may-call scan; iterator data-flow classification; forward must-analysis; comparator closure shape",
    ),
    "C32": dict(
        category="other",
        text="Decides the structural reasons a test's verdict and output could depend on scheduling: (1) seed purity - derive_seed and "
             "instance_seed, with everything they can call, reach no time/thread/pid/randomness/atomic source and no thread-local but "
             "the string interner; their inputs are Ir.seed, the test name and the handle/instance name; (2) per-test reset - every "
             "thread-local of the simulator that code reachable from testbench::exec touches (found from the call graph and the "
             "LocalKey accesses) is reset by run_testbench before exec on every path, or is in a reasoned exemption table; the write log "
             "is installed/cleared inside every step; (3) the worker loop enables capture before a test's build, takes the captured "
             "output after the run and before the print lock; (4) prior timings flow only into the queue's sort comparator. "
             "It does not decide equality of verdicts over schedules, nor that range draws stay within bounds for every width.",
        design_ref="DESIGN.md section 3 C32, section 8.4l",
        technique="call-graph reachability with a nondeterminism-source table; thread-local access enumeration (HIR/MIR LocalKey resolution); must-facts ordering; value-flow of the timing table",
    ),
    "C35": dict(
        category="other",
        text="Decides the edge protocol of user components and the payload/mask pairing of the host-side copies: in both "
             "Simulator functions that commit the FF write log, inputs are staged on every path to the commit on which components "
             "exist, nothing is staged after it, components are fired after it on every path (unless there are none), no commit can "
             "follow a fire, and exactly the staged events are fired; stage/fire use the same event mapping and listener test, fire "
             "precedes apply_outputs, written outputs mark combinational logic dirty; every raw copy in stage_inputs/apply_outputs "
             "moves payload storage to payload storage and mask storage (base+native_bytes, *_mask) to mask storage, mask copies only "
             "under use_4state. It does not decide bit-exact marshalling at every width, nor the wasm transport (not compiled here).",
        design_ref="DESIGN.md section 3 C35, section 8.4f",
        technique="must-pass-through / must-facts on MIR CFG with feasibility pruning; argument-shape agreement of sibling calls; pointer access-path pairing",
    ),
    "C36": dict(
        category="proof",
        text="Decides the encoding tables at the external boundaries: the four svLogicVecVal conversions (encode/decode x U64/BigUint) "
             "are evaluated as per-bit boolean functions over their MIR dataflow and must equal IEEE 1800 Annex H through veryl's "
             "(payload, mask_xz) encoding (aval = payload ^ mask_xz, bval = mask_xz and the inverse), with the word order fixed "
             "(low word first out, reverse + shift-left in); Value::to_vcd_value's decision tree maps (mask,payload) to Z/X/1/0; "
             "to_fst_bits maps V0/V1/X/Z to '0'/'1'/'x'/'z' MSB first; VcdValueIter yields bit width-pos-1; cosim_get/cosim_set use "
             "the converters and copy aval->aval, bval->bval; dump_all_vars reads and reports each variable through its own "
             "ptr/bytes/width/handle; dump_variables settles dirty combinational logic first. Finite exact obligations. It does "
             "not decide round-trip equality for every width as arithmetic, nor that dumps are taken at the right times.",
        design_ref="DESIGN.md section 3 C36, section 8.4e",
        technique="per-bit truth-table abstract interpretation of bitwise MIR dataflow; must-facts decision tree; access-path identity",
    ),
}

NA_SEMANTIC = {
    "C02": "Equality of traces across interpreter, Cranelift, C backend and 4-state engine is a semantic equivalence of code generators over all designs and stimuli; no clause is visible in code shape; deciding it needs execution or symbolic equivalence (a different technique family).",
    "C03": "Soundness of each optimisation pass is a semantics-preservation claim about rewrites of a run-time IR; no who-calls/ordering/coverage rule is a necessary condition of it.",
    "C08": "Idempotence of formatting is a fixed-point property of alignment and line-breaking arithmetic over run-time widths; a round-trip over values.",
    "C14": "Exactness of the combinational-loop detector is a property of a bit-level dependency graph built at run time from the design; both directions are semantic.",
    "C15": "Exactness of multiple-driver / latch / unassigned diagnostics depends on per-bit masks and branch tables computed from the input design.",
    "C17": "IEEE 1800 operator results at every width and signedness are numerical results; the U64 and BigUint code paths agree or not as arithmetic, not as structure.",
    "C18": "Same as C17 for the run-time engines: numerical agreement at every width is not visible in code shape.",
    "C19": "Netlist == RTL over all designs, libraries and RAM thresholds is an equivalence of a synthesis pipeline; every rewrite's soundness is semantic.",
    "C21": "NPN canonicalisation minimality and rewrite function-preservation are exhaustive-evaluation or equivalence-checking tasks (running or solving); the aig feature is off in the default build.",
    "C22": "Translation preserves behaviour: equivalence of two programs in two languages under an external simulator.",
    "C33": "Invisibility of the JIT-to-C swap point quantifies over schedules of a background compile against the simulation loop; static ordering rules have no anchor that is necessary for trace equality.",
    "C34": "Invisibility of converted-module reuse across test sequences is a history property of caches keyed by run-time pointers and relocation deltas.",
}

NOT_BUILT = ("A structural clause was designed (DESIGN.md section 3) but its rule engine is not built, so nothing is claimed: "
             "no weaker proxy is registered under a static label. ")
NA_NOT_BUILT = {
    "C01": NOT_BUILT + "Needs the clock/reset configuration flow through Emitter and the simulator front end (P5 option-flow engine).",
    "C06": NOT_BUILT + "Needs the codec field-coverage engine (P6) over Fragment capture/restore and the thread-local table triage.",
    "C07": NOT_BUILT + "Needs the thread-local table effect triage (drop_file coverage over ~40 tables); finding F10 is recorded in DESIGN.md only.",
    "C09": NOT_BUILT + "Needs the walker must-visit engine (P9) over 320 VerylWalker methods.",
    "C10": NOT_BUILT + "The depth-cap guard clause alone is too thin a necessary condition to claim termination/no-crash of the parser.",
    "C11": NOT_BUILT + "Needs the panic-site reachability engine (P11) with an infeasibility table; not built.",
    "C12": NOT_BUILT + "Needs the units-of-measure engine (P10) for byte/char/column arithmetic.",
    "C13": NOT_BUILT + "Needs the token -> anchor -> map-entry provenance chain across emitter and sourcemap crates.",
    "C16": NOT_BUILT + "Needs reachability of the CDC decision kernel from every assignment form; not built.",
    "C20": NOT_BUILT + "Report-coverage rule over the synthesizer not built.",
    "C23": NOT_BUILT + "Needs the walker must-visit engine (P9) over the migrator's 315 walker methods.",
    "C25": NOT_BUILT + "Injectivity of output paths is a property of run-time path values; the at-most-once clause alone is not claimed. Finding F3 is recorded in DESIGN.md only.",
    "C26": NOT_BUILT + "Needs the option-flow engine (P5) separating presentation options from behaviour.",
    "C27": NOT_BUILT + "Needs the sibling-branch agreement engine for check vs write modes; finding F7 is recorded in DESIGN.md only.",
    "C28": NOT_BUILT + "Per-variant emission/anchor-order rules over veryl_pretty not built.",
    "C30": NOT_BUILT + "Lock-discipline rules (lock_dir/unlock_dir pairing over veryl_metadata and veryl_std) not built.",
    "C31": NOT_BUILT + "Decision-structure rules over gen_locks/resolve not built (determinism sources are covered for the build path by C24 when registered).",
    "C32": NOT_BUILT + "Seed-purity and per-test state reset rules over the simulator not built.",
    "C35": NOT_BUILT + "Edge-protocol rules over the component transports not built.",
    "C36": NOT_BUILT + "Encoding-table agreement rules not built.",
    "C24": NOT_BUILT + "Needs the hash-iteration-order taint rule over the build path.",
}


def main():
    checks = []
    for pid in sorted(CHECKS):
        c = CHECKS[pid]
        checks.append({
            "property_id": pid,
            "quick_cmd": "./check %s --tier quick" % pid,
            "thorough_cmd": "./check %s --tier thorough" % pid,
            "evidence_file": "/verif/evidence/%s.json" % pid,
            "replay_cmd_template": "./check %s --replay {path}" % pid,
            "engine": "vfacts+rules",
            "level_claimed": {"category": c["category"], "text": c["text"], "design_ref": c["design_ref"]},
            "level_note": TB,
            "technique": c["technique"],
        })
    na = []
    for pid in sorted(set(NA_SEMANTIC) | set(NA_NOT_BUILT)):
        if pid in CHECKS:
            continue
        na.append({"property_id": pid, "reason": NA_SEMANTIC.get(pid) or NA_NOT_BUILT[pid]})
    ids = [json.loads(l)["id"] for l in open(os.path.join(VERIF, "properties.jsonl"))]
    have = {c["property_id"] for c in checks} | {n["property_id"] for n in na}
    assert set(ids) == have, (set(ids) ^ have)
    m = {
        "version": 1,
        "setup_cmd": "./setup.sh",
        "hooks": {
            "guard": "veryl_lang_veryl_verif",
            "enable": "none: static analysis only, /repo carries no hooks or instrumentation; checks type-check /repo's working tree "
                      "with `cargo +nightly check` under the vfacts RUSTC_WORKSPACE_WRAPPER and execute nothing from it",
            "baseline_off_cmd": "cd /repo && cargo nextest run --workspace --no-fail-fast --test-threads 8 --offline",
            "source_commits": [],
            "add_only": True,
        },
        "engines": [{
            "name": "vfacts+rules",
            "path": "vfacts/ rules/",
            "serves_properties": sorted(CHECKS),
            "kind_free_text": "rustc_private MIR/ADT/impl fact extractor (RUSTC_WORKSPACE_WRAPPER under cargo +nightly check) "
                              "+ python3 stdlib rule engine: CFG must-facts, provenance, field read/write sets, call graph",
        }],
        "checks": checks,
        "notes": "Static analysis only. Thorough tier = quick rules + mutation self-test of the rules on a scratch copy of /repo "
                 "(selftest/patches/<id>/*.diff must each make the rule fire). Known findings and fixed defects: known_findings.json. "
                 "See DESIGN.md section 8 for the as-built state.",
        "not_applicable": na,
    }
    with open(os.path.join(VERIF, "MANIFEST.json"), "w") as f:
        json.dump(m, f, indent=1)
        f.write("\n")
    try:
        import jsonschema
        jsonschema.validate(m, json.load(open("/root/.vp/MANIFEST.schema.json")))
        print("MANIFEST.json valid;", len(checks), "checks,", len(na), "not applicable")
    except ImportError:
        print("MANIFEST.json written (jsonschema not importable here);", len(checks), "checks,", len(na), "not applicable")


if __name__ == "__main__":
    main()
