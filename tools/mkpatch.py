#!/usr/bin/env python3
"""mkpatch.py <out.diff> <file> <<< 'OLD\n====\nNEW'  : make a patch by exact string replacement in /repo, then restore."""
import sys, subprocess
out, path = sys.argv[1], sys.argv[2]
spec = sys.stdin.read()
old, new = spec.split("\n====\n")
old = old.strip("\n"); new = new.rstrip("\n").lstrip("\n")
full = "/repo/" + path
s = open(full).read()
assert s.count(old) == 1, "old text occurs %d times" % s.count(old)
open(full, "w").write(s.replace(old, new))
d = subprocess.check_output(["git", "-C", "/repo", "diff"], text=True)
open(out, "w").write(d)
subprocess.check_call(["git", "-C", "/repo", "checkout", "--", path])
print("wrote", out, len(d.splitlines()), "lines")
