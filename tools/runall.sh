#!/bin/bash
# runs every registered quick check on /repo's working tree (must be clean) and prints one line each
cd /verif
[ -z "$(git -C /repo status --short)" ] || { echo "/repo working tree is not clean"; git -C /repo status --short; exit 2; }
for id in $(python3 -c "import json;print(' '.join(c['property_id'] for c in json.load(open('MANIFEST.json'))['checks']))"); do
  out=$(./check $id --tier ${1:-quick} 2>&1); rc=$?
  echo "$id rc=$rc $(echo "$out" | grep -E "^$id: obligations" | tail -1) $(echo "$out" | grep -c '^KNOWN-FINDING') known-lines $(echo "$out" | grep -c '^VIOLATION') violation-lines"
done
