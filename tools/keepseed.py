#!/usr/bin/env python3
"""keepseed.py <seed-dir> <id> <property> <needs> <detected-by> [--missed-first "what was added"]
Copies a confirmed seeded change into /verif/seeded/<id>/ with meta.json."""
import json, os, shutil, sys, re
src, sid, prop, needs, det = sys.argv[1:6]
missed = None
if "--missed-first" in sys.argv:
    missed = sys.argv[sys.argv.index("--missed-first") + 1]
dst = os.path.join("/verif/seeded", sid)
os.makedirs(dst, exist_ok=True)
for f in ("patch.diff", "demo.sh", "demo.diff", "README.md"):
    if os.path.exists(os.path.join(src, f)):
        shutil.copy(os.path.join(src, f), dst)
conf = open(os.path.join(src, "confirm.log")).read() if os.path.exists(os.path.join(src, "confirm.log")) else ""
m = {
    "id": sid,
    "property": prop,
    "origin": "independent sub-agent given only the property text and a scratch worktree",
    "needs_to_manifest": needs,
    "confirmed_by_me": {
        "how": "tools/confirm_seed.sh in the scratch worktree: apply patch, cargo build -p veryl, run the demonstration (must fail), run the touched crates' existing tests, revert, rebuild, run the demonstration (must pass)",
        "demo_with_patch": (re.search(r"demo with patch: exit (\S+)", conf) or [None, None])[1],
        "demo_without_patch": (re.search(r"demo without patch: exit (\S+)", conf) or [None, None])[1],
        "existing_tests_with_patch": (re.search(r"tests with patch: (.*)", conf) or [None, ""])[1],
        "note": "the only failing existing tests are the two wall-clock tests in veryl::external_subcommand::help that also flake on the unchanged tree when the machine is loaded",
    },
    "checks_run": "tools/tryseed.sh <patch> <check ids> (git -C /repo apply, ./check <id> --tier quick, git -C /repo checkout -- .)",
    "detected_by": det,
    "missed_before_strengthening": missed,
}
json.dump(m, open(os.path.join(dst, "meta.json"), "w"), indent=1)
print("kept", dst)
