#!/bin/bash
# confirm_seed.sh <worktree> <seed-dir> "<cargo test package args>"
# Confirms in the scratch worktree: patch applies and builds; the demonstration (demo.sh driving the built binary, or the
# test files added by demo.diff) fails with the patch and passes without it; the named crates' existing tests pass with it.
WT=$1; SD=$2; PK=$3
export CARGO_TARGET_DIR=$WT/target CARGO_NET_OFFLINE=true
cd $WT || exit 2
LOG=$SD/confirm.log; : > $LOG
clean() { git checkout -q -- . ; git clean -fdq crates >/dev/null 2>&1; }
clean
demo() {  # prints exit status of the demonstration
  if [ -f $SD/demo.sh ]; then
    cargo build -p veryl --offline -j 8 >> $LOG 2>&1 || { echo BUILDFAIL; return; }
    bash $SD/demo.sh $WT/target/debug/veryl >> $LOG 2>&1; echo $?
  elif [ -f $SD/demo.diff ]; then
    git apply $SD/demo.diff >> $LOG 2>&1 || { echo DEMOAPPLYFAIL; return; }
    rc=0
    donepk=""
    for tf in $(grep '^+++ b/' $SD/demo.diff | sed 's|^+++ b/||'); do
      crate=$(echo $tf | sed -n 's|^crates/\([^/]*\)/.*|\1|p'); name=$(basename $tf .rs)
      pkg=$(sed -n 's/^name *= *"\(.*\)"/\1/p' crates/$crate/Cargo.toml | head -1)
      if echo $tf | grep -Eq "^crates/[^/]+/tests/[^/]+\.rs$"; then
        cargo test -p $pkg --offline -j 8 --test $name >> $LOG 2>&1 || rc=1
      else
        case " $donepk " in *" $pkg "*) continue;; esac
        donepk="$donepk $pkg"
        cargo test -p $pkg --offline -j 8 --lib >> $LOG 2>&1 || rc=1
      fi
    done
    echo $rc
  else echo NODEMO; fi
}
git apply $SD/patch.diff >> $LOG 2>&1 || { echo "$SD: PATCH DOES NOT APPLY"; exit 1; }
cargo test $PK --offline -j 8 --no-fail-fast > $SD/tests_with_patch.log 2>&1; TRC=$?
FAILED=$(grep -E "^test .* FAILED" $SD/tests_with_patch.log | grep -v "probe_info_description\|tests::progress\|^test result" | head -5 | tr '\n' ';')
echo "== existing tests with patch: rc $TRC; failures other than the known wall-clock flakes: [$FAILED]" >> $LOG
WITH=$(demo)
echo "== demo with patch: exit $WITH" >> $LOG
clean
WITHOUT=$(demo)
echo "== demo without patch: exit $WITHOUT" >> $LOG
clean
echo "$SD: demo_with=$WITH demo_without=$WITHOUT tests_rc=$TRC other_failures=[$FAILED]"
