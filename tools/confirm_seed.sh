#!/bin/bash
# confirm_seed.sh <worktree> <seed-dir> "<cargo test package args>"   e.g. /tmp/wt-C05 /tmp/wt-C05/out/C05-1 "-p veryl-cache"
# Confirms in the scratch worktree: patch applies and builds, the demo fails with it and passes without it,
# the named crates' existing tests pass with it. Writes <seed-dir>/confirm.log and prints a one-line verdict.
WT=$1; SD=$2; PK=$3
export CARGO_TARGET_DIR=$WT/target CARGO_NET_OFFLINE=true
cd $WT || exit 2
LOG=$SD/confirm.log; : > $LOG
git checkout -q -- . ; git status --short | grep -v '^??' >> $LOG
git apply $SD/patch.diff >> $LOG 2>&1 || { echo "$SD: PATCH DOES NOT APPLY"; exit 1; }
[ -f $SD/demo.diff ] && { git apply $SD/demo.diff >> $LOG 2>&1 || { echo "$SD: demo.diff does not apply"; } }
cargo build -p veryl --offline -j 8 >> $LOG 2>&1 || { echo "$SD: DOES NOT BUILD"; git checkout -q -- .; exit 1; }
if [ -f $SD/demo.sh ]; then bash $SD/demo.sh $WT/target/debug/veryl >> $LOG 2>&1; WITH=$?; else WITH=NA; fi
echo "== demo with patch: exit $WITH" >> $LOG
cargo test $PK --offline -j 8 --no-fail-fast > $SD/tests_with_patch.log 2>&1; TRC=$?
FAILED=$(grep -E "^test .* FAILED|^    [a-z_:]+ *$" $SD/tests_with_patch.log | grep -v "probe_info_description\|tests::progress" | grep FAILED | head -5)
echo "== tests with patch: rc $TRC; unexpected failures: [$FAILED]" >> $LOG
git checkout -q -- .
# demo.diff adds only tests: re-apply it alone for the without-patch run
[ -f $SD/demo.diff ] && git apply $SD/demo.diff >> $LOG 2>&1
cargo build -p veryl --offline -j 8 >> $LOG 2>&1
if [ -f $SD/demo.sh ]; then bash $SD/demo.sh $WT/target/debug/veryl >> $LOG 2>&1; WITHOUT=$?; else WITHOUT=NA; fi
echo "== demo without patch: exit $WITHOUT" >> $LOG
git checkout -q -- .
echo "$SD: demo_with=$WITH demo_without=$WITHOUT tests_rc=$TRC unexpected_failures=[$FAILED]"
