#!/bin/bash
# tryseed.sh <patch.diff> <check ids...> : apply a seeded change to /repo, run the named checks (quick), always undo.
P=$1; shift
[ -z "$(git -C /repo status --porcelain --untracked-files=no)" ] || { echo "/repo has uncommitted changes: refusing (the undo would discard them)"; exit 2; }
cd /repo && git apply "$P" || { echo "patch does not apply"; exit 2; }
trap 'git -C /repo checkout -- .' EXIT
for c in "$@"; do
  out=$(cd /verif && VERIF_EVIDENCE_DIR=/tmp/ev-seed ./check $c --tier quick 2>&1)
  rc=$?
  echo "== $c exit=$rc"; echo "$out" | grep -E "violated:|VIOLATION|RULE ERROR|FACTS ERROR|obligations=" | head -12
done
