#!/usr/bin/env python3
"""mkpatch2.py <out.diff> <file> : several exact replacements, read from stdin as OLD\n====\nNEW\n####\nOLD\n====\nNEW ..."""
import sys, subprocess
out, path = sys.argv[1], sys.argv[2]
full = "/repo/" + path
s = open(full).read()
for spec in sys.stdin.read().split("\n####\n"):
    old, new = spec.split("\n====\n")
    old = old.strip("\n"); new = new.strip("\n")
    assert s.count(old) == 1, "old text occurs %d times: %s" % (s.count(old), old[:60])
    s = s.replace(old, new)
open(full, "w").write(s)
d = subprocess.check_output(["git", "-C", "/repo", "diff"], text=True)
open(out, "w").write(d)
subprocess.check_call(["git", "-C", "/repo", "checkout", "--", path])
print("wrote", out, len(d.splitlines()), "lines")
