#!/usr/bin/env python3
"""Runs MANIFEST.setup_cmd (unless --no-setup) and every check's quick (or --tier thorough) command the way the harness
does, from the directory this file lives in; validates MANIFEST and evidence against the schemas when jsonschema is
importable (python3-vt tools/validate.py). Exit 0 iff everything is quiet and valid."""
import json, os, subprocess, sys, time
V = os.path.dirname(os.path.dirname(os.path.abspath(__file__)))
os.chdir(V)
env = dict(os.environ, CARGO_NET_OFFLINE="true", GOPROXY="off", PIP_NO_INDEX="1")
m = json.load(open("MANIFEST.json"))
try:
    import jsonschema
except ImportError:
    jsonschema = None
bad = 0
if jsonschema:
    jsonschema.validate(m, json.load(open("/root/.vp/MANIFEST.schema.json")))
if "--no-setup" not in sys.argv:
    t0 = time.time()
    r = subprocess.run(m["setup_cmd"], shell=True, env=env, stdout=subprocess.PIPE, stderr=subprocess.STDOUT, text=True)
    print("setup exit=%d %.0fs" % (r.returncode, time.time() - t0))
    if r.returncode:
        print(r.stdout[-3000:]); sys.exit(1)
tier = "thorough_cmd" if "--thorough" in sys.argv else "quick_cmd"
for c in m["checks"]:
    ev = os.path.join(V, "evidence", os.path.basename(c["evidence_file"]))
    before = os.path.getmtime(ev) if os.path.exists(ev) else 0
    t0 = time.time()
    r = subprocess.run(c.get(tier) or c["quick_cmd"], shell=True, env=dict(env, VERIF_SEED="7"), stdout=subprocess.PIPE, stderr=subprocess.STDOUT, text=True)
    viol = [l for l in r.stdout.splitlines() if l.startswith("VIOLATION")]
    known = [l for l in r.stdout.splitlines() if l.startswith("KNOWN-FINDING")]
    ok = r.returncode == 0 and not viol
    msg = ""
    if not os.path.exists(ev) or os.path.getmtime(ev) <= before:
        ok = False; msg += " evidence-not-rewritten"
    else:
        e = json.load(open(ev))
        if jsonschema:
            try:
                jsonschema.validate(e, json.load(open("/root/.vp/EVIDENCE.schema.json")))
            except Exception as x:
                ok = False; msg += " evidence-invalid:" + str(x)[:200]
        if e["level"] != c["level_claimed"]["category"]:
            msg += " (evidence level %s vs claimed %s)" % (e["level"], c["level_claimed"]["category"])
        msg += " obligations=%s discharged=%s" % (e["coverage"].get("obligations"), e["coverage"].get("discharged"))
    print("%s exit=%d violations=%d known=%d %.0fs %s%s" % (c["property_id"], r.returncode, len(viol), len(known), time.time() - t0, "OK" if ok else "BROKEN", msg))
    if not ok:
        bad += 1
        print(r.stdout[-2500:])
sys.exit(1 if bad else 0)
