#!/bin/bash
# tryrefactor.sh <patch.diff> <check ids...> : apply a behaviour-preserving refactoring to /repo, run the named quick checks, undo.
# Any VIOLATION line is a false alarm of the check (the property holds on the refactored tree as it does on HEAD).
P=$1; shift
[ -z "$(git -C /repo status --porcelain --untracked-files=no)" ] || { echo "/repo has uncommitted changes: refusing"; exit 2; }
cd /repo && git apply "$P" || { echo "patch does not apply"; exit 2; }
trap 'git -C /repo checkout -- .' EXIT
for c in "$@"; do
  out=$(cd /verif && VERIF_EVIDENCE_DIR=/tmp/ev-seed ./check $c --tier quick 2>&1); rc=$?
  echo "$c rc=$rc $(echo "$out" | grep -E "^$c: obligations" | tail -1 | cut -c1-90)"
  echo "$out" | grep -E "violated:|RULE ERROR|FACTS ERROR" | head -6
done
