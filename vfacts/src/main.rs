// vfacts: rustc_private fact extractor for the /verif static rules.
// Invoked as RUSTC_WORKSPACE_WRAPPER: argv = [vfacts, <path to rustc>, rustc args...].
// For every workspace crate compiled, writes $VFACTS_OUT/<crate>[.bin|.lib].jsonl
// (ADTs, impls, functions with full MIR) and a sibling .idx (path \t offset \t len).
#![feature(rustc_private)]

extern crate rustc_abi;
extern crate rustc_data_structures;
extern crate rustc_driver;
extern crate rustc_hir;
extern crate rustc_interface;
extern crate rustc_middle;
extern crate rustc_session;
extern crate rustc_span;

use rustc_driver::Compilation;
use rustc_hir::def::DefKind;
use rustc_hir::def_id::{DefId, LOCAL_CRATE};
use rustc_interface::interface::Compiler;
use rustc_middle::mir::*;
use rustc_middle::ty::print::{with_no_trimmed_paths, with_no_visible_paths, with_resolve_crate_name, PrintTraitRefExt};
use rustc_middle::ty::{self, Instance, Ty, TyCtxt, TypingEnv};
use std::fmt::Write as _;

struct Cb;

fn esc(s: &str, out: &mut String) {
    out.push('"');
    for c in s.chars() {
        match c {
            '"' => out.push_str("\\\""),
            '\\' => out.push_str("\\\\"),
            '\n' => out.push_str("\\n"),
            '\r' => out.push_str("\\r"),
            '\t' => out.push_str("\\t"),
            c if (c as u32) < 0x20 => {
                let _ = write!(out, "\\u{:04x}", c as u32);
            }
            c => out.push(c),
        }
    }
    out.push('"');
}

fn js(s: &str) -> String {
    let mut o = String::new();
    esc(s, &mut o);
    o
}

macro_rules! canon {
    ($e:expr) => {
        with_no_visible_paths!(with_resolve_crate_name!(with_no_trimmed_paths!($e)))
    };
}

fn dpath(tcx: TyCtxt<'_>, did: DefId) -> String {
    canon!(tcx.def_path_str(did))
}

fn tystr(ty: Ty<'_>) -> String {
    canon!(format!("{}", ty))
}

fn peel<'tcx>(mut ty: Ty<'tcx>) -> Ty<'tcx> {
    loop {
        match ty.kind() {
            ty::Ref(_, t, _) => ty = *t,
            ty::RawPtr(t, _) => ty = *t,
            _ => return ty,
        }
    }
}

fn collect_adts<'tcx>(tcx: TyCtxt<'tcx>, ty: Ty<'tcx>, out: &mut Vec<String>) {
    for arg in ty.walk() {
        if let Some(t) = arg.as_type() {
            match t.kind() {
                ty::Adt(def, _) => {
                    let p = dpath(tcx, def.did());
                    if !out.contains(&p) {
                        out.push(p);
                    }
                }
                ty::Closure(did, _) => {
                    let p = format!("closure:{}", dpath(tcx, *did));
                    if !out.contains(&p) {
                        out.push(p);
                    }
                }
                _ => {}
            }
        }
    }
}

struct Ctx<'tcx> {
    tcx: TyCtxt<'tcx>,
}

impl<'tcx> Ctx<'tcx> {
    fn line(&self, sp: rustc_span::Span) -> usize {
        let sm = self.tcx.sess.source_map();
        // use the outermost call site when the span comes from a macro expansion
        let sp = sp.source_callsite();
        sm.lookup_char_pos(sp.lo()).line
    }

    fn place(&self, body: &Body<'tcx>, p: &Place<'tcx>, out: &mut String) {
        let tcx = self.tcx;
        let _ = write!(out, "[{},[", p.local.as_usize());
        let mut pty = rustc_middle::mir::PlaceTy::from_ty(body.local_decls[p.local].ty);
        let mut first = true;
        for elem in p.projection.iter() {
            if !first {
                out.push(',');
            }
            first = false;
            match elem {
                ProjectionElem::Deref => out.push_str("\"*\""),
                ProjectionElem::Field(f, _) => {
                    let (name, adt) = match pty.ty.kind() {
                        ty::Adt(def, _) => {
                            let vi = pty.variant_index.unwrap_or(rustc_abi::FIRST_VARIANT);
                            let v = def.variant(vi);
                            let n = v.fields[f].name.to_string();
                            (n, Some(dpath(tcx, def.did())))
                        }
                        ty::Closure(did, _) => {
                            let names = tcx.closure_saved_names_of_captured_variables(*did);
                            let n = names
                                .get(f)
                                .map(|s| s.to_string())
                                .unwrap_or_else(|| format!("{}", f.as_usize()));
                            (n, Some(format!("closure:{}", dpath(tcx, *did))))
                        }
                        _ => (format!("{}", f.as_usize()), None),
                    };
                    let _ = write!(out, "[\"f\",{},{},", f.as_usize(), js(&name));
                    match adt {
                        Some(a) => esc(&a, out),
                        None => out.push_str("null"),
                    }
                    out.push(']');
                }
                ProjectionElem::Downcast(name, vi) => {
                    let n = match name {
                        Some(n) => n.to_string(),
                        None => match pty.ty.kind() {
                            ty::Adt(def, _) => def.variant(vi).name.to_string(),
                            _ => format!("{}", vi.as_usize()),
                        },
                    };
                    let _ = write!(out, "[\"v\",{}]", js(&n));
                }
                ProjectionElem::Index(l) => {
                    let _ = write!(out, "[\"i\",{}]", l.as_usize());
                }
                ProjectionElem::ConstantIndex { offset, from_end, .. } => {
                    let _ = write!(out, "[\"ci\",{},{}]", offset, from_end);
                }
                ProjectionElem::Subslice { .. } => out.push_str("\"[..]\""),
                ProjectionElem::OpaqueCast(_) => out.push_str("\"oc\""),
                ProjectionElem::UnwrapUnsafeBinder(_) => out.push_str("\"ub\""),
            }
            pty = pty.projection_ty(tcx, elem);
        }
        out.push_str("]]");
    }

    fn konst(&self, owner: DefId, c: &ConstOperand<'tcx>, out: &mut String) {
        let tcx = self.tcx;
        let ty = c.const_.ty();
        match ty.kind() {
            ty::FnDef(did, args) => {
                let _ = write!(out, "{{\"fn\":{},\"ga\":[", js(&dpath(tcx, *did)));
                let mut first = true;
                for a in args.iter() {
                    if let Some(t) = a.as_type() {
                        if !first {
                            out.push(',');
                        }
                        first = false;
                        esc(&tystr(t), out);
                    }
                }
                out.push_str("]}");
                return;
            }
            _ => {}
        }
        // named / promoted constants
        if let Const::Unevaluated(uv, _) = c.const_ {
            let _ = write!(out, "{{\"const\":{},\"ty\":{}", js(&dpath(tcx, uv.def)), js(&tystr(ty)));
            if let Some(p) = uv.promoted {
                let _ = write!(out, ",\"promoted\":{}", p.as_usize());
            }
            // byte tables (`const CODE: [u8; 4] = *b"01zx"`): show the bytes
            if let Some(bytes) = self.u8_array_bytes(owner, c) {
                let _ = write!(out, ",\"bytes\":{}", js(&String::from_utf8_lossy(&bytes)));
            }
            // still try to show a scalar value
            let env = TypingEnv::post_analysis(tcx, owner);
            if ty.is_integral() || ty.is_bool() || ty.is_char() {
                if let Some(si) = c.const_.try_eval_scalar_int(tcx, env) {
                    let _ = write!(out, ",\"int\":{}", js(&format!("{}", si.to_bits_unchecked())));
                }
            }
            out.push('}');
            return;
        }
        let env = TypingEnv::post_analysis(tcx, owner);
        if ty.is_integral() || ty.is_bool() || ty.is_char() {
            if let Some(si) = c.const_.try_eval_scalar_int(tcx, env) {
                let bits = si.to_bits_unchecked();
                let v: String = if ty.is_signed() {
                    let size = si.size();
                    format!("{}", size.sign_extend(bits) as i128)
                } else {
                    format!("{}", bits)
                };
                let _ = write!(out, "{{\"int\":{},\"ty\":{}}}", js(&v), js(&tystr(ty)));
                return;
            }
        }
        if let ty::Ref(_, inner, _) = ty.kind() {
            if inner.is_str() {
                if let Const::Val(cv, _) = c.const_ {
                    if let Some(bytes) = cv.try_get_slice_bytes_for_diagnostics(tcx) {
                        let s = String::from_utf8_lossy(bytes);
                        let _ = write!(out, "{{\"str\":{}}}", js(&s));
                        return;
                    }
                }
            }
        }
        let v = canon!(format!("{}", c.const_));
        let mut v2 = v;
        if v2.len() > 200 {
            v2.truncate(200);
        }
        let _ = write!(out, "{{\"v\":{},\"ty\":{}}}", js(&v2), js(&tystr(ty)));
    }

    /// contents of a constant of type `[u8; N]` (N <= 64), if it can be evaluated
    fn u8_array_bytes(&self, owner: DefId, c: &ConstOperand<'tcx>) -> Option<Vec<u8>> {
        let tcx = self.tcx;
        let ty = c.const_.ty();
        let n = match ty.kind() {
            ty::Array(elem, len) if *elem == tcx.types.u8 => len.try_to_target_usize(tcx)?,
            _ => return None,
        };
        if n == 0 || n > 64 {
            return None;
        }
        let env = TypingEnv::post_analysis(tcx, owner);
        let val = c.const_.eval(tcx, env, c.span).ok()?;
        match val {
            ConstValue::Indirect { alloc_id, offset } => {
                let alloc = tcx.global_alloc(alloc_id).unwrap_memory();
                let start = offset.bytes() as usize;
                let end = start + n as usize;
                let inner = alloc.inner();
                if end > inner.len() {
                    return None;
                }
                Some(inner.inspect_with_uninit_and_ptr_outside_interpreter(start..end).to_vec())
            }
            _ => None,
        }
    }

    fn operand(&self, owner: DefId, body: &Body<'tcx>, o: &Operand<'tcx>, out: &mut String) {
        match o {
            Operand::Copy(p) => {
                out.push_str("[\"c\",");
                self.place(body, p, out);
                out.push(']');
            }
            Operand::Move(p) => {
                out.push_str("[\"m\",");
                self.place(body, p, out);
                out.push(']');
            }
            Operand::Constant(c) => {
                out.push_str("[\"k\",");
                self.konst(owner, c, out);
                out.push(']');
            }
            #[allow(unreachable_patterns)]
            _ => out.push_str("[\"?\"]"),
        }
    }

    fn rvalue(&self, owner: DefId, body: &Body<'tcx>, rv: &Rvalue<'tcx>, out: &mut String) {
        let tcx = self.tcx;
        match rv {
            Rvalue::Use(o, ..) => {
                out.push_str("[\"use\",");
                self.operand(owner, body, o, out);
                out.push(']');
            }
            Rvalue::Repeat(o, _) => {
                out.push_str("[\"rep\",");
                self.operand(owner, body, o, out);
                out.push(']');
            }
            Rvalue::Ref(_, bk, p) => {
                let k = match bk {
                    BorrowKind::Shared => "s",
                    BorrowKind::Fake(_) => "f",
                    BorrowKind::Mut { .. } => "m",
                };
                let _ = write!(out, "[\"ref\",\"{}\",", k);
                self.place(body, p, out);
                out.push(']');
            }
            Rvalue::ThreadLocalRef(did) => {
                let _ = write!(out, "[\"tlref\",{}]", js(&dpath(tcx, *did)));
            }
            Rvalue::RawPtr(k, p) => {
                let k = match k {
                    RawPtrKind::Mut => "m",
                    RawPtrKind::Const => "s",
                    RawPtrKind::FakeForPtrMetadata => "f",
                };
                let _ = write!(out, "[\"ptr\",\"{}\",", k);
                self.place(body, p, out);
                out.push(']');
            }
            Rvalue::Cast(kind, o, ty) => {
                let _ = write!(out, "[\"cast\",{},", js(&format!("{:?}", kind)));
                self.operand(owner, body, o, out);
                let _ = write!(out, ",{}]", js(&tystr(*ty)));
            }
            Rvalue::BinaryOp(op, ab) => {
                let _ = write!(out, "[\"bin\",\"{:?}\",", op);
                self.operand(owner, body, &ab.0, out);
                out.push(',');
                self.operand(owner, body, &ab.1, out);
                out.push(']');
            }
            Rvalue::UnaryOp(op, a) => {
                let _ = write!(out, "[\"un\",\"{:?}\",", op);
                self.operand(owner, body, a, out);
                out.push(']');
            }
            Rvalue::Discriminant(p) => {
                out.push_str("[\"discr\",");
                self.place(body, p, out);
                let pt = p.ty(&body.local_decls, tcx).ty;
                if let ty::Adt(def, _) = pt.kind() {
                    let _ = write!(out, ",{}", js(&dpath(tcx, def.did())));
                }
                out.push(']');
            }
            Rvalue::Aggregate(kind, ops) => {
                out.push_str("[\"agg\",");
                match &**kind {
                    AggregateKind::Array(_) => out.push_str("\"array\""),
                    AggregateKind::Tuple => out.push_str("\"tuple\""),
                    AggregateKind::Adt(did, vi, _, _, active) => {
                        let def = tcx.adt_def(*did);
                        let v = def.variant(*vi);
                        let _ = write!(
                            out,
                            "{{\"adt\":{},\"variant\":{},\"fields\":[",
                            js(&dpath(tcx, *did)),
                            js(v.name.as_str())
                        );
                        if let Some(a) = active {
                            esc(v.fields[*a].name.as_str(), out);
                        } else {
                            let mut first = true;
                            for f in v.fields.iter() {
                                if !first {
                                    out.push(',');
                                }
                                first = false;
                                esc(f.name.as_str(), out);
                            }
                        }
                        out.push_str("]}");
                    }
                    AggregateKind::Closure(did, _)
                    | AggregateKind::Coroutine(did, _)
                    | AggregateKind::CoroutineClosure(did, _) => {
                        let _ = write!(out, "{{\"closure\":{}}}", js(&dpath(tcx, *did)));
                    }
                    AggregateKind::RawPtr(..) => out.push_str("\"rawptr\""),
                }
                out.push_str(",[");
                let mut first = true;
                for o in ops.iter() {
                    if !first {
                        out.push(',');
                    }
                    first = false;
                    self.operand(owner, body, o, out);
                }
                out.push_str("]]");
            }
            Rvalue::CopyForDeref(p) => {
                out.push_str("[\"use\",[\"c\",");
                self.place(body, p, out);
                out.push_str("]]");
            }
            Rvalue::WrapUnsafeBinder(o, _) => {
                out.push_str("[\"use\",");
                self.operand(owner, body, o, out);
                out.push(']');
            }
        }
    }

    fn uw(&self, u: &UnwindAction) -> String {
        match u {
            UnwindAction::Cleanup(bb) => format!("{}", bb.as_usize()),
            _ => "null".to_string(),
        }
    }

    fn call(
        &self,
        owner: DefId,
        body: &Body<'tcx>,
        func: &Operand<'tcx>,
        args: &[rustc_span::Spanned<Operand<'tcx>>],
        out: &mut String,
    ) {
        let tcx = self.tcx;
        // resolved callee
        let fty = func.ty(&body.local_decls, tcx);
        let mut callee: Option<String> = None;
        let mut res = "ptr";
        let mut trait_m: Option<String> = None;
        let mut self_ty: Option<String> = None;
        let mut closures: Vec<String> = Vec::new();
        if let ty::FnDef(did, gargs) = fty.kind() {
            let env = TypingEnv::post_analysis(tcx, owner);
            for a in gargs.iter() {
                if let Some(t) = a.as_type() {
                    for w in t.walk() {
                        if let Some(t2) = w.as_type() {
                            if let ty::Closure(cd, _) = t2.kind() {
                                let p = dpath(tcx, *cd);
                                if !closures.contains(&p) {
                                    closures.push(p);
                                }
                            }
                        }
                    }
                }
            }
            let is_trait_item = tcx.trait_of_assoc(*did).is_some();
            if is_trait_item {
                trait_m = Some(dpath(tcx, *did));
                if let Some(first) = gargs.iter().next().and_then(|a| a.as_type()) {
                    self_ty = Some(tystr(first));
                }
            }
            let r = std::panic::catch_unwind(std::panic::AssertUnwindSafe(|| {
                Instance::try_resolve(tcx, env, *did, gargs)
            }));
            match r {
                Ok(Ok(Some(inst))) => {
                    let rd = inst.def_id();
                    callee = Some(dpath(tcx, rd));
                    res = match inst.def {
                        ty::InstanceKind::Item(_) => {
                            if is_trait_item && rd == *did {
                                // default method body or unresolved
                                if tcx.is_mir_available(rd) || !rd.is_local() { "static" } else { "trait" }
                            } else {
                                "static"
                            }
                        }
                        ty::InstanceKind::Virtual(..) => "dyn",
                        ty::InstanceKind::ClosureOnceShim { .. } => "closure",
                        ty::InstanceKind::FnPtrShim(..) => "fnptr",
                        _ => "shim",
                    };
                }
                _ => {
                    callee = Some(dpath(tcx, *did));
                    res = if is_trait_item { "trait" } else { "static" };
                }
            }
        } else {
            // closure call through a local of closure type or fn pointer
            let pt = peel(fty);
            if let ty::Closure(cd, _) = pt.kind() {
                callee = Some(dpath(tcx, *cd));
                res = "closure";
            }
        }
        out.push_str("\"f\":");
        self.operand(owner, body, func, out);
        out.push_str(",\"callee\":");
        match &callee {
            Some(c) => esc(c, out),
            None => out.push_str("null"),
        }
        let _ = write!(out, ",\"res\":\"{}\"", res);
        if let Some(t) = &trait_m {
            let _ = write!(out, ",\"tm\":{}", js(t));
        }
        if let Some(t) = &self_ty {
            let _ = write!(out, ",\"self\":{}", js(t));
        }
        if !closures.is_empty() {
            out.push_str(",\"cl\":[");
            for (i, c) in closures.iter().enumerate() {
                if i > 0 {
                    out.push(',');
                }
                esc(c, out);
            }
            out.push(']');
        }
        out.push_str(",\"args\":[");
        for (i, a) in args.iter().enumerate() {
            if i > 0 {
                out.push(',');
            }
            self.operand(owner, body, &a.node, out);
        }
        out.push(']');
    }

    fn body(&self, owner: DefId, body: &Body<'tcx>, out: &mut String) {
        let tcx = self.tcx;
        out.push_str("\"nargs\":");
        let _ = write!(out, "{}", body.arg_count);
        out.push_str(",\"locals\":[");
        // debug names
        let mut names: Vec<Option<String>> = vec![None; body.local_decls.len()];
        let mut upvar_dbg: Vec<(String, String)> = Vec::new();
        for vdi in body.var_debug_info.iter() {
            if let VarDebugInfoContents::Place(p) = &vdi.value {
                if p.projection.is_empty() {
                    if names[p.local.as_usize()].is_none() {
                        names[p.local.as_usize()] = Some(vdi.name.to_string());
                    }
                } else {
                    let mut s = String::new();
                    self.place(body, p, &mut s);
                    upvar_dbg.push((vdi.name.to_string(), s));
                }
            }
        }
        for (i, ld) in body.local_decls.iter().enumerate() {
            if i > 0 {
                out.push(',');
            }
            out.push('[');
            esc(&tystr(ld.ty), out);
            out.push(',');
            match &names[i] {
                Some(n) => esc(n, out),
                None => out.push_str("null"),
            }
            out.push(']');
        }
        out.push_str("],\"dbg\":[");
        for (i, (n, p)) in upvar_dbg.iter().enumerate() {
            if i > 0 {
                out.push(',');
            }
            let _ = write!(out, "[{},{}]", js(n), p);
        }
        out.push_str("],\"blocks\":[");
        for (bi, bb) in body.basic_blocks.iter().enumerate() {
            if bi > 0 {
                out.push(',');
            }
            out.push_str("{\"s\":[");
            let mut first = true;
            for st in bb.statements.iter() {
                match &st.kind {
                    StatementKind::Assign(b) => {
                        if !first {
                            out.push(',');
                        }
                        first = false;
                        out.push_str("[\"=\",");
                        self.place(body, &b.0, out);
                        out.push(',');
                        self.rvalue(owner, body, &b.1, out);
                        let _ = write!(out, ",{}]", self.line(st.source_info.span));
                    }
                    StatementKind::SetDiscriminant { place, variant_index } => {
                        if !first {
                            out.push(',');
                        }
                        first = false;
                        out.push_str("[\"setd\",");
                        self.place(body, place, out);
                        let pt = place.ty(&body.local_decls, tcx).ty;
                        let vn = match pt.kind() {
                            ty::Adt(def, _) => def.variant(*variant_index).name.to_string(),
                            _ => format!("{}", variant_index.as_usize()),
                        };
                        let _ = write!(out, ",{}]", js(&vn));
                    }
                    _ => {}
                }
            }
            out.push_str("],");
            if bb.is_cleanup {
                out.push_str("\"cu\":1,");
            }
            let term = bb.terminator();
            let line = self.line(term.source_info.span);
            let exp = term.source_info.span.from_expansion();
            out.push_str("\"t\":{");
            match &term.kind {
                TerminatorKind::Goto { target } => {
                    let _ = write!(out, "\"t\":\"goto\",\"to\":{}", target.as_usize());
                }
                TerminatorKind::SwitchInt { discr, targets } => {
                    out.push_str("\"t\":\"sw\",\"on\":");
                    self.operand(owner, body, discr, out);
                    // find enum if discr local defined by Discriminant in this block
                    let mut en: Option<(ty::AdtDef<'tcx>, String)> = None;
                    if let Some(dp) = discr.place() {
                        for st in bb.statements.iter().rev() {
                            if let StatementKind::Assign(b) = &st.kind {
                                if b.0 == dp {
                                    if let Rvalue::Discriminant(p) = &b.1 {
                                        let pt = p.ty(&body.local_decls, tcx).ty;
                                        if let ty::Adt(def, _) = pt.kind() {
                                            let mut ps = String::new();
                                            self.place(body, p, &mut ps);
                                            en = Some((*def, ps));
                                        }
                                    }
                                    break;
                                }
                            }
                        }
                    }
                    let dty = discr.ty(&body.local_decls, tcx);
                    let _ = write!(out, ",\"ty\":{}", js(&tystr(dty)));
                    if let Some((def, ps)) = &en {
                        let _ = write!(out, ",\"enum\":{},\"of\":{}", js(&dpath(tcx, def.did())), ps);
                    }
                    out.push_str(",\"vals\":[");
                    let mut f = true;
                    for (v, t) in targets.iter() {
                        if !f {
                            out.push(',');
                        }
                        f = false;
                        let mut vn = String::from("null");
                        if let Some((def, _)) = &en {
                            for (vi, d) in def.discriminants(tcx) {
                                if d.val == v {
                                    vn = js(def.variant(vi).name.as_str());
                                }
                            }
                        }
                        let _ = write!(out, "[{},{},{}]", js(&format!("{}", v)), t.as_usize(), vn);
                    }
                    let _ = write!(out, "],\"else\":{}", targets.otherwise().as_usize());
                    if let Some((def, _)) = &en {
                        // list all variants so 'otherwise' can be expanded
                        out.push_str(",\"variants\":[");
                        let mut f = true;
                        for v in def.variants().iter() {
                            if !f {
                                out.push(',');
                            }
                            f = false;
                            esc(v.name.as_str(), out);
                        }
                        out.push(']');
                    }
                }
                TerminatorKind::Return => out.push_str("\"t\":\"ret\""),
                TerminatorKind::Unreachable => out.push_str("\"t\":\"unreachable\""),
                TerminatorKind::UnwindResume => out.push_str("\"t\":\"resume\""),
                TerminatorKind::UnwindTerminate(_) => out.push_str("\"t\":\"abort\""),
                TerminatorKind::Drop { place, target, unwind, .. } => {
                    out.push_str("\"t\":\"drop\",\"p\":");
                    self.place(body, place, out);
                    let _ = write!(out, ",\"to\":{},\"uw\":{}", target.as_usize(), self.uw(unwind));
                }
                TerminatorKind::Call { func, args, destination, target, unwind, .. } => {
                    out.push_str("\"t\":\"call\",");
                    self.call(owner, body, func, args, out);
                    out.push_str(",\"dst\":");
                    self.place(body, destination, out);
                    match target {
                        Some(t) => {
                            let _ = write!(out, ",\"to\":{}", t.as_usize());
                        }
                        None => out.push_str(",\"to\":null"),
                    }
                    let _ = write!(out, ",\"uw\":{}", self.uw(unwind));
                }
                TerminatorKind::TailCall { func, args, .. } => {
                    out.push_str("\"t\":\"call\",");
                    self.call(owner, body, func, args, out);
                    out.push_str(",\"dst\":[0,[]],\"to\":null,\"uw\":null,\"tail\":1");
                }
                TerminatorKind::Assert { cond, expected, msg, target, unwind } => {
                    out.push_str("\"t\":\"assert\",\"cond\":");
                    self.operand(owner, body, cond, out);
                    let kind = match &**msg {
                        AssertKind::BoundsCheck { .. } => "bounds",
                        AssertKind::Overflow(..) => "overflow",
                        AssertKind::OverflowNeg(_) => "overflow_neg",
                        AssertKind::DivisionByZero(_) => "div_zero",
                        AssertKind::RemainderByZero(_) => "rem_zero",
                        _ => "other",
                    };
                    let _ = write!(
                        out,
                        ",\"exp\":{},\"msg\":\"{}\",\"to\":{},\"uw\":{}",
                        expected,
                        kind,
                        target.as_usize(),
                        self.uw(unwind)
                    );
                }
                TerminatorKind::Yield { resume, .. } => {
                    let _ = write!(out, "\"t\":\"goto\",\"to\":{},\"yield\":1", resume.as_usize());
                }
                TerminatorKind::CoroutineDrop => out.push_str("\"t\":\"ret\",\"cdrop\":1"),
                TerminatorKind::FalseEdge { real_target, .. } => {
                    let _ = write!(out, "\"t\":\"goto\",\"to\":{}", real_target.as_usize());
                }
                TerminatorKind::FalseUnwind { real_target, .. } => {
                    let _ = write!(out, "\"t\":\"goto\",\"to\":{}", real_target.as_usize());
                }
                TerminatorKind::InlineAsm { targets, .. } => {
                    let t = targets.first().map(|b| b.as_usize());
                    match t {
                        Some(t) => {
                            let _ = write!(out, "\"t\":\"goto\",\"to\":{},\"asm\":1", t);
                        }
                        None => out.push_str("\"t\":\"unreachable\",\"asm\":1"),
                    }
                }
            }
            let _ = write!(out, ",\"l\":{}", line);
            if exp {
                out.push_str(",\"x\":1");
            }
            out.push_str("}}");
        }
        out.push(']');
    }
}

fn rel_file(tcx: TyCtxt<'_>, sp: rustc_span::Span) -> String {
    let sm = tcx.sess.source_map();
    let f = sm.lookup_source_file(sp.lo());
    let name = f.name.prefer_local_unconditionally().to_string();
    name
}

fn attr_snips(tcx: TyCtxt<'_>, hir_id: rustc_hir::HirId) -> Vec<String> {
    let sm = tcx.sess.source_map();
    let mut v = Vec::new();
    for a in tcx.hir_attrs(hir_id) {
        let sp = match a {
            rustc_hir::Attribute::Unparsed(item) => item.span,
            _ => continue,
        };
        if sp.is_dummy() {
            continue;
        }
        if let Ok(s) = sm.span_to_snippet(sp) {
            let s: String = s.split_whitespace().collect::<Vec<_>>().join(" ");
            if s.starts_with("///") || s.starts_with("//!") || s.starts_with("/**") {
                continue;
            }
            if s.len() < 300 {
                v.push(s);
            }
        }
    }
    v
}

fn emit_crate(tcx: TyCtxt<'_>, outdir: &str) {
    let cname = tcx.crate_name(LOCAL_CRATE).to_string();
    if cname.starts_with("build_script") {
        return;
    }
    let ctypes = tcx.crate_types();
    let is_bin = ctypes.iter().any(|t| matches!(t, rustc_session::config::CrateType::Executable));
    let is_test = tcx.sess.opts.test;
    if is_test {
        return;
    }
    let fname = if is_bin { format!("{}.bin", cname) } else { cname.clone() };
    let cx = Ctx { tcx };
    let mut recs: Vec<(String, String)> = Vec::new(); // (index key, json line)

    // crate record with source files and hashes
    {
        let sm = tcx.sess.source_map();
        let mut s = String::new();
        let _ = write!(s, "{{\"k\":\"crate\",\"name\":{},\"bin\":{},\"files\":{{", js(&cname), is_bin);
        let mut first = true;
        for f in sm.files().iter() {
            if f.cnum != LOCAL_CRATE {
                continue;
            }
            let name = f.name.prefer_local_unconditionally().to_string();
            if name.starts_with('<') {
                continue;
            }
            if !first {
                s.push(',');
            }
            first = false;
            let h = &f.src_hash;
            let hex: String = h.hash_bytes().iter().map(|b| format!("{:02x}", b)).collect();
            let _ = write!(s, "{}:[{},{}]", js(&name), js(&format!("{:?}", h.kind)), js(&hex));
        }
        s.push_str("}}");
        recs.push(("crate".into(), s));
    }

    // ADTs
    for id in tcx.hir_free_items() {
        let did = id.owner_id.to_def_id();
        let dk = tcx.def_kind(did);
        if !matches!(dk, DefKind::Struct | DefKind::Enum | DefKind::Union) {
            continue;
        }
        let def = tcx.adt_def(did);
        let mut s = String::new();
        let kind = match dk {
            DefKind::Struct => "struct",
            DefKind::Enum => "enum",
            _ => "union",
        };
        let path = dpath(tcx, did);
        let sp = tcx.def_span(did);
        let _ = write!(
            s,
            "{{\"k\":\"adt\",\"path\":{},\"kind\":\"{}\",\"file\":{},\"line\":{},\"attrs\":[",
            js(&path),
            kind,
            js(&rel_file(tcx, sp)),
            cx.line(sp)
        );
        let hid = tcx.local_def_id_to_hir_id(id.owner_id.def_id);
        for (i, a) in attr_snips(tcx, hid).iter().enumerate() {
            if i > 0 {
                s.push(',');
            }
            esc(a, &mut s);
        }
        s.push_str("],\"variants\":[");
        let mut fv = true;
        for (vi, v) in def.variants().iter_enumerated() {
            if !fv {
                s.push(',');
            }
            fv = false;
            let dv = if def.is_enum() {
                format!("{}", def.discriminant_for_variant(tcx, vi).val)
            } else {
                "0".to_string()
            };
            let _ = write!(s, "{{\"name\":{},\"discr\":{},\"fields\":[", js(v.name.as_str()), js(&dv));
            let mut ff = true;
            for f in v.fields.iter() {
                if !ff {
                    s.push(',');
                }
                ff = false;
                let fty = tcx.type_of(f.did).instantiate_identity().skip_norm_wip();
                let mut adts = Vec::new();
                collect_adts(tcx, fty, &mut adts);
                let _ = write!(s, "{{\"name\":{},\"ty\":{},\"adts\":[", js(f.name.as_str()), js(&tystr(fty)));
                for (i, a) in adts.iter().enumerate() {
                    if i > 0 {
                        s.push(',');
                    }
                    esc(a, &mut s);
                }
                s.push_str("],\"attrs\":[");
                if let Some(l) = f.did.as_local() {
                    let hid = tcx.local_def_id_to_hir_id(l);
                    for (i, a) in attr_snips(tcx, hid).iter().enumerate() {
                        if i > 0 {
                            s.push(',');
                        }
                        esc(a, &mut s);
                    }
                }
                s.push_str("]}");
            }
            s.push_str("]}");
        }
        s.push_str("]}");
        recs.push((format!("adt:{}", path), s));
    }

    // statics / consts of interest (thread_local keys, named constants)
    for id in tcx.hir_free_items() {
        let did = id.owner_id.to_def_id();
        let dk = tcx.def_kind(did);
        if !matches!(dk, DefKind::Const { .. } | DefKind::Static { .. }) {
            continue;
        }
        let path = dpath(tcx, did);
        let ty = tcx.type_of(did).instantiate_identity().skip_norm_wip();
        let mut s = String::new();
        let sp = tcx.def_span(did);
        let _ = write!(
            s,
            "{{\"k\":\"item\",\"path\":{},\"kind\":{},\"ty\":{},\"file\":{},\"line\":{}",
            js(&path),
            js(&format!("{:?}", dk).split_whitespace().next().unwrap_or("")),
            js(&tystr(ty)),
            js(&rel_file(tcx, sp)),
            cx.line(sp)
        );
        if let DefKind::Const { .. } = dk {
            if ty.is_integral() || ty.is_bool() {
                if let Ok(v) = tcx.const_eval_poly(did) {
                    if let Some(si) = v.try_to_scalar_int() {
                        let _ = write!(s, ",\"int\":{}", js(&format!("{}", si.to_bits_unchecked())));
                    }
                }
            }
        }
        s.push('}');
        recs.push((format!("item:{}", path), s));
    }

    // trait impls
    for (trait_did, impls) in tcx.all_local_trait_impls(()).iter() {
        for impl_l in impls.iter() {
            let impl_did = impl_l.to_def_id();
            let tr = tcx.impl_trait_ref(impl_did).instantiate_identity().skip_norm_wip();
            let self_ty = tr.self_ty();
            let mut s = String::new();
            let self_adt = match peel(self_ty).kind() {
                ty::Adt(d, _) => Some(dpath(tcx, d.did())),
                _ => None,
            };
            let sp = tcx.def_span(impl_did);
            let _ = write!(
                s,
                "{{\"k\":\"impl\",\"trait\":{},\"tref\":{},\"self\":{},\"self_adt\":{},\"derived\":{},\"file\":{},\"line\":{},\"items\":{{",
                js(&dpath(tcx, *trait_did)),
                js(&canon!(format!("{}", tr.print_only_trait_path()))),
                js(&tystr(self_ty)),
                match &self_adt {
                    Some(a) => js(a),
                    None => "null".into(),
                },
                tcx.is_automatically_derived(impl_did),
                js(&rel_file(tcx, sp)),
                cx.line(sp)
            );
            let mut first = true;
            for it in tcx.associated_items(impl_did).in_definition_order() {
                if !matches!(it.kind, ty::AssocKind::Fn { .. }) {
                    continue;
                }
                if !first {
                    s.push(',');
                }
                first = false;
                let _ = write!(s, "{}:{}", js(it.name().as_str()), js(&dpath(tcx, it.def_id)));
            }
            s.push_str("}}");
            recs.push((format!("impl:{}:{}", dpath(tcx, *trait_did), tystr(self_ty)), s));
        }
    }

    // traits defined locally: default methods
    for id in tcx.hir_free_items() {
        let did = id.owner_id.to_def_id();
        if tcx.def_kind(did) != DefKind::Trait {
            continue;
        }
        let mut s = String::new();
        let _ = write!(s, "{{\"k\":\"trait\",\"path\":{},\"items\":{{", js(&dpath(tcx, did)));
        let mut first = true;
        for it in tcx.associated_items(did).in_definition_order() {
            if !matches!(it.kind, ty::AssocKind::Fn { .. }) {
                continue;
            }
            if !first {
                s.push(',');
            }
            first = false;
            let _ = write!(
                s,
                "{}:{{\"path\":{},\"default\":{}}}",
                js(it.name().as_str()),
                js(&dpath(tcx, it.def_id)),
                it.defaultness(tcx).has_value()
            );
        }
        s.push_str("}}");
        recs.push((format!("trait:{}", dpath(tcx, did)), s));
    }

    // function bodies
    let mut nfn = 0usize;
    for ldid in tcx.hir_body_owners() {
        let did = ldid.to_def_id();
        let dk = tcx.def_kind(did);
        if !matches!(dk, DefKind::Fn | DefKind::AssocFn | DefKind::Closure) {
            continue;
        }
        if !tcx.is_mir_available(did) {
            continue;
        }
        let body = tcx.optimized_mir(did);
        let path = dpath(tcx, did);
        let sp = tcx.def_span(did);
        let full = body.span;
        let file = rel_file(tcx, sp);
        let sm = tcx.sess.source_map();
        let l0 = sm.lookup_char_pos(full.lo()).line;
        let l1 = sm.lookup_char_pos(full.hi()).line;
        let mut s = String::new();
        let kind = match dk {
            DefKind::Fn => "fn",
            DefKind::AssocFn => "method",
            _ => "closure",
        };
        let _ = write!(
            s,
            "{{\"k\":\"fn\",\"path\":{},\"kind\":\"{}\",\"file\":{},\"l0\":{},\"l1\":{},\"gen\":{},\"exp\":{}",
            js(&path),
            kind,
            js(&file),
            l0,
            l1,
            file.contains("/generated/"),
            sp.from_expansion()
        );
        if dk == DefKind::Closure {
            let parent = tcx.typeck_root_def_id(did);
            let _ = write!(s, ",\"root\":{}", js(&dpath(tcx, parent)));
            let p = tcx.parent(did);
            let _ = write!(s, ",\"parent\":{}", js(&dpath(tcx, p)));
        }
        if dk == DefKind::AssocFn {
            if let Some(impl_did) = tcx.trait_impl_of_assoc(did) {
                let tr = tcx.impl_trait_ref(impl_did).instantiate_identity().skip_norm_wip();
                let _ = write!(
                    s,
                    ",\"impl_trait\":{},\"self_ty\":{},\"derived\":{}",
                    js(&dpath(tcx, tr.def_id)),
                    js(&tystr(tr.self_ty())),
                    tcx.is_automatically_derived(impl_did)
                );
                if let Some(ti) = tcx.trait_item_of(did) {
                    let _ = write!(s, ",\"trait_item\":{}", js(&dpath(tcx, ti)));
                }
            } else if let Some(impl_did) = tcx.inherent_impl_of_assoc(did) {
                let st = tcx.type_of(impl_did).instantiate_identity().skip_norm_wip();
                let _ = write!(s, ",\"self_ty\":{}", js(&tystr(st)));
            } else if let Some(tr) = tcx.trait_of_assoc(did) {
                let _ = write!(s, ",\"default_of\":{}", js(&dpath(tcx, tr)));
            }
        }
        if matches!(dk, DefKind::Fn | DefKind::AssocFn) {
            let vis = tcx.visibility(did);
            let _ = write!(s, ",\"pub\":{}", vis.is_public());
        }
        s.push(',');
        cx.body(did, body, &mut s);
        s.push('}');
        recs.push((format!("fn:{}", path), s));
        nfn += 1;
        // promoted bodies (thread_local keys and literal tables live here)
        let proms = tcx.promoted_mir(did);
        for (pi, pb) in proms.iter_enumerated() {
            let mut s = String::new();
            let _ = write!(
                s,
                "{{\"k\":\"promoted\",\"path\":{},\"idx\":{},",
                js(&path),
                pi.as_usize()
            );
            cx.body(did, pb, &mut s);
            s.push('}');
            recs.push((format!("promoted:{}:{}", path, pi.as_usize()), s));
        }
    }

    // one write per process
    let mut data = String::new();
    let mut idx = String::new();
    for (k, line) in recs.iter() {
        let off = data.len();
        data.push_str(line);
        data.push('\n');
        let _ = writeln!(idx, "{}\t{}\t{}", k.replace('\t', " ").replace('\n', " "), off, line.len());
    }
    let _ = std::fs::create_dir_all(outdir);
    let p = format!("{}/{}.jsonl", outdir, fname);
    let tmp = format!("{}.tmp{}", p, std::process::id());
    std::fs::write(&tmp, data.as_bytes()).expect("write facts");
    std::fs::rename(&tmp, &p).expect("rename facts");
    let pi = format!("{}/{}.idx", outdir, fname);
    let tmpi = format!("{}.tmp{}", pi, std::process::id());
    std::fs::write(&tmpi, idx.as_bytes()).expect("write idx");
    std::fs::rename(&tmpi, &pi).expect("rename idx");
    eprintln!("vfacts: crate={} fns={} records={} bytes={}", fname, nfn, recs.len(), data.len());
}

impl rustc_driver::Callbacks for Cb {
    fn after_analysis<'tcx>(&mut self, _c: &Compiler, tcx: TyCtxt<'tcx>) -> Compilation {
        if let Ok(outdir) = std::env::var("VFACTS_OUT") {
            if tcx.dcx().has_errors().is_none() {
                emit_crate(tcx, &outdir);
            }
        }
        Compilation::Continue
    }
}

fn main() {
    let mut args: Vec<String> = std::env::args().collect();
    // RUSTC_WORKSPACE_WRAPPER: argv[1] is the real rustc path
    if args.len() > 1 && (args[1].ends_with("rustc") || args[1].contains("/rustc")) {
        args.remove(1);
    }
    let mut cb = Cb;
    rustc_driver::run_compiler(&args, &mut cb);
}
