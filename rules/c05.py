"""C05 - crashes and cache damage never leave a build wrong.

Decided here: the structural recovery discipline (DESIGN.md section 3, C05): who may write inside the
store, atomic_write's write-then-rename shape, the validation that dominates every payload handed out by
Store::read_blob (magic, schema version, content address), and "failure is a miss" in
Incremental::try_restore. Not decided: that every crash point leads to a correct next build.
"""
import re
from core import Check, site
from mirlib import Fn, MustFacts, Sem
from c29 import expr_mentions, mentions_arg, mentions_call
import flow
import c04

RULE = (
    "R1 inside veryl_cache every call that creates, modifies or deletes a file is one of the frozen (function, callee) "
    "pairs: atomic_write in save/write_blob, create_dir_all in open_with_lock/write_blob, remove_file in gc, "
    "File::create of the lock file in acquire_lock; R2 every `Some(payload)` written to read_blob's return place carries "
    "the must-facts strip_prefix(BLOB_MAGIC) is Some, u32::from_le_bytes(version) == SCHEMA_VERSION and "
    "content_hash(bytes read) == name derived from the `rel` argument, and the payload derives from the bytes read; "
    "fs::read of store files happens only in read_blob; R3 in veryl_path::atomic_write NamedTempFile::persist is reached "
    "only after write_all returned normally, the temp file is created by new_in(dir) with dir derived from "
    "path.parent(), and Ok(()) is returned only on persist's Ok edge; R4 in Incremental::try_restore the value true is "
    "returned only under load()==Some, Fragment::from_bytes()==Ok and fragment_cache::restore()==Ok; Store::keep is "
    "called only on that edge; the restore-Err return has called Analyzer::drop_file and miss.insert; the load/decode "
    "failure returns have called miss.insert. R5 commit order: in CmdBuild::exec / CmdCheck::exec no output-writing call is reachable "
    "after Incremental::save (a crash while writing outputs then leaves no manifest that vouches for them). R6 output staleness: "
    "Incremental::dst_is_stale answers `not stale` only by the comparison `mtime(path.src) > generated`, on paths where "
    "build_info.generated_files.get(path.dst) is Some and path.dst.exists() is true (a lost info.toml record or a missing output is "
    "stale), and in Incremental::open every path that leaves a file out of the miss set has entry.is_some_and(hash equal) true and, "
    "unless consider_output is false or the file is an example, dst_is_stale false. R7 build outputs (emitted files, source maps, "
    "bundle, filelist) are written only through utils::write_output_if_changed, whose only file-changing callee is "
    "veryl_path::atomic_write (R3): a crash leaves the old file or none, never a truncated one. R8 the derived serializer of "
    "veryl_cache::FileEntry writes the fields in declaration order and the field written last is required by the derived deserializer "
    "(missing_field on a non-Option type, no serde default): a manifest entry cut short at a line boundary never parses."
)

CRATES = ["veryl_cache", "veryl_path", "veryl"]

ST = "veryl_cache::Store"

# (function, callee regex) pairs allowed to change the file system inside veryl_cache
WRITE_TABLE = [
    ("veryl_cache::Store::save", r"^veryl_path::atomic_write$", "manifest is replaced atomically"),
    ("veryl_cache::Store::write_blob", r"^veryl_path::atomic_write$", "blob is written atomically"),
    ("veryl_cache::Store::write_blob", r"^std::fs::create_dir_all$", "fan-out directory of a blob"),
    ("veryl_cache::Store::open_with_lock", r"^std::fs::create_dir_all$", "store root"),
    ("veryl_cache::Store::gc", r"^std::fs::remove_file$", "unreferenced fragments (guard decided by C29 R2)"),
    ("veryl_cache::acquire_lock", r"^std::fs::File::create$", "the lock file; its content is never read"),
]
MUTATORS = re.compile(
    r"^std::fs::(write|rename|copy|remove_file|remove_dir|remove_dir_all|create_dir|create_dir_all|hard_link|set_permissions)$"
    r"|^std::fs::File::(create|create_new|set_len|options)$|^std::fs::OpenOptions::|^tempfile::|^veryl_path::atomic_write$"
    r"|as std::io::Write>::write|^std::os::unix::fs::symlink$")


def run(world, tier, info, only=None):
    ck = Check("C05", tier, "proof", RULE, only)
    w = world
    need = [ST + "::read_blob", ST + "::write_blob", ST + "::save", ST + "::load", ST + "::load_diagnostics",
            ST + "::open_with_lock", "veryl_cache::acquire_lock", "veryl_cache::content_hash",
            "veryl_path::atomic_write", "veryl::incremental::Incremental::try_restore"]
    for p in need:
        if p not in w.fns:
            ck.missing("anchors", p)
    if any(p not in w.fns for p in need):
        return ck.finish(info)
    cache_fns = [p for p, s in w.fns.items() if s["crate"] == "veryl_cache"]
    ck.analysed = {"crates": CRATES, "veryl_cache_functions": len(cache_fns),
                   "functions_with_cfg": ["read_blob", "atomic_write", "try_restore"]}
    ck.assume("cfg(target_family = \"wasm\") arms (plain fs::write fallback of atomic_write) are not compiled and not analysed")
    ck.assume("tempfile::NamedTempFile::persist renames the temp file over the target (third-party contract)")
    ck.assume("postcard / toml decoders return Err on malformed input rather than panicking (third-party contract)")

    # ---------------- R1: who may write inside the store ------------------------------------
    n_sites = 0
    for p in sorted(cache_fns):
        s = w.fns[p]
        for c in s["calls"]:
            cal = c["c"] or ""
            if not MUTATORS.search(cal):
                continue
            n_sites += 1
            owner = s.get("parent") if s["kind"] == "closure" and s.get("parent") else p
            ok = any(owner == f and re.search(rx, cal) for f, rx, _ in WRITE_TABLE)
            ck.ob("R1", "write-site:%s/%s" % (p, cal), ok, site(s, c["l"]),
                  "file-system mutation inside veryl_cache must be one of the frozen (function, callee) pairs"
                  if not ok else "allowed: " + next(r for f, rx, r in WRITE_TABLE if owner == f and re.search(rx, cal)))
    ck.floor("R1", "file-system mutation sites in veryl_cache", n_sites, 3)

    # ---------------- R2: validation dominates the payload ----------------------------------
    rb = ST + "::read_blob"
    f = Fn(w.mir(rb))
    mf = MustFacts(f)
    sem = Sem(f, depth=24)
    somes = []
    for bi, b in enumerate(f.blocks):
        if b.get("cu"):
            continue
        for si, st in enumerate(b["s"]):
            if st[0] == "=" and st[1][0] == 0:
                rv = st[2]
                if rv[0] == "agg" and isinstance(rv[1], dict) and rv[1].get("adt") == "core::option::Option" and rv[1].get("variant") == "None":
                    continue
                somes.append((bi, si, st))
        t = b["t"]
        if t["t"] == "call" and t["dst"][0] == 0 and not re.search(r"FromResidual", t.get("callee") or ""):
            somes.append((bi, len(b["s"]), ("call", t)))
    ck.floor("R2", "non-None writes to read_blob's return place", len(somes), 1)

    def is_call(e, rx):
        return isinstance(e, tuple) and len(e) == 4 and e[0] == "call" and re.search(rx, e[1] or "")

    for bi, si, st in somes:
        line = st[3] if st[0] == "=" else st[1]["l"]
        s0 = site(w.fns[rb], line)
        S = mf.state_at(bi, si)
        if S is None:
            continue  # dead code
        F = sem.facts(S[0])
        # (a) magic
        magic = False
        for x in F:
            if x[0] == "isvariant" and x[2] == "Continue" and mentions_call(x[1], r"slice::<impl \[T\]>::strip_prefix$"):
                def sp(y):
                    return is_call(y, r"strip_prefix$") and expr_mentions(y[2][1] if len(y[2]) > 1 else (), lambda z: isinstance(z, tuple) and z[0] in ("named", "promoted") and z[1] in ("veryl_cache::BLOB_MAGIC", rb) or is_call(z, r"as_slice$"))
                if expr_mentions(x[1], sp):
                    magic = True
        consts = set(w.fns[rb]["consts"])
        magic = magic and "veryl_cache::BLOB_MAGIC" in consts
        ck.ob("R2", "payload-requires:magic", magic, s0, "Some(payload) only where data.strip_prefix(BLOB_MAGIC) is Some")
        # (b) schema version
        ver = False
        for x in F:
            if x[0] == "cmp" and ((x[1] == "Eq" and x[4] is True) or (x[1] == "Ne" and x[4] is False)):
                a, b2 = x[2], x[3]
                for u, v in ((a, b2), (b2, a)):
                    if mentions_call(u, r"u32>::from_le_bytes$") and mentions_call(u, r"split_first_chunk$") and \
                            isinstance(v, tuple) and v[0] == "named" and v[1] == "veryl_cache::SCHEMA_VERSION":
                        ver = True
        ck.ob("R2", "payload-requires:version==SCHEMA_VERSION", ver, s0,
              "Some(payload) only where u32::from_le_bytes(version) == SCHEMA_VERSION")
        # (c) content address
        addr = False
        for x in F:
            if x[0] == "call" and re.search(r"PartialEq.*::(ne|eq)$", x[1] or ""):
                want = x[1].endswith("::eq")
                if x[2] is not want:
                    continue
                args = x[3]
                if len(args) != 2:
                    continue
                for u, v in ((args[0], args[1]), (args[1], args[0])):
                    if mentions_call(u, r"^veryl_cache::content_hash$") and mentions_call(u, r"^std::fs::read$") and \
                            mentions_arg(v, "rel") and not mentions_call(v, r"^std::fs::read$"):
                        addr = True
        ck.ob("R2", "payload-requires:content_hash==address", addr, s0,
              "Some(payload) only where content_hash(bytes read) equals the name component of `rel`")
        # (d) the payload is the data that was validated
        if st[0] == "=":
            pr = set()
            for o in (st[2][2] if st[2][0] == "agg" else [st[2][1]] if st[2][0] == "use" else []):
                pr |= f.prov(o, depth=40)
        else:
            pr = set()
            for o in st[1]["args"]:
                pr |= f.prov(o, depth=40)
        ck.ob("R2", "payload-derives-from-read", any(x[0] == "call" and x[1] == "std::fs::read" for x in pr) and
              any(x[0] == "call" and re.search(r"split_first_chunk$", x[1] or "") for x in pr), s0,
              "the returned payload derives from the bytes read and validated (through split_first_chunk)")
    # blob reads happen only through read_blob
    for p in sorted(cache_fns):
        for c in w.fns[p]["calls"]:
            if c["c"] in ("std::fs::read", "std::fs::File::open", "std::fs::read_to_string"):
                allowed = {ST + "::read_blob": "blob", ST + "::open_with_lock": "manifest", "veryl_cache::binary_fingerprint": "own executable"}
                ck.ob("R2", "read-site:%s/%s" % (p, c["c"]), p in allowed, site(w.fns[p], c["l"]),
                      "file reads inside veryl_cache: " + allowed.get(p, "NOT in the frozen table (a second, unvalidated read path?)"))
    for n in ("load", "load_diagnostics"):
        p = ST + "::" + n
        g = Fn(w.mir(p))
        cs = g.calls(re.escape(rb) + "$")
        ck.floor("R2", "%s -> read_blob calls" % n, len(cs), 1)
        other = [c for c in w.fns[p]["calls"] if c["c"] and c["c"].startswith("veryl_cache::") and c["c"] != rb]
        ck.ob("R2", "%s:only-read_blob" % n, not other, site(w.fns[p]), "%s obtains bytes only through read_blob" % n)

    # ---------------- R3: atomic_write -------------------------------------------------------
    awp = "veryl_path::atomic_write"
    a = Fn(w.mir(awp))
    ma = MustFacts(a)
    sa = Sem(a)
    pers = a.calls(r"^tempfile::file::NamedTempFile::<F>::persist$|NamedTempFile.*::persist$")
    ck.floor("R3", "persist calls in atomic_write", len(pers), 1)
    wa = a.calls(r"as std::io::Write>::write_all$")
    ck.floor("R3", "write_all calls in atomic_write", len(wa), 1)
    for bi, t in pers:
        F = ma.at_entry(bi) or frozenset()
        okw = any(x[0] == "called" and re.search(r"as std::io::Write>::write_all$", x[1]) for x in F)
        # and its `?` took the Continue edge
        FS = sa.facts(F)
        okc = any(x[0] == "isvariant" and x[2] == "Continue" and mentions_call(x[1], r"as std::io::Write>::write_all$") for x in FS)
        ck.ob("R3", "persist-after-write_all", okw and okc, site(w.fns[awp], t["l"]),
              "persist (rename over the target) is reached only after write_all(contents) returned Ok")
        pv = a.prov(t["args"][1])
        ck.ob("R3", "persist-target-is-path", any(x[0] == "arg" and x[1] == 1 for x in pv) or
              any(x[0] == "call" and re.search(r"AsRef<.*>::as_ref$", x[1] or "") for x in pv), site(w.fns[awp], t["l"]),
              "persist's target derives from the `path` argument")
    for bi, t in wa:
        pv = a.prov(t["args"][1])
        ck.ob("R3", "write_all-writes-contents", any(x[0] == "arg" and a.name(x[1]) == "contents" for x in pv), site(w.fns[awp], t["l"]),
              "write_all is given the `contents` argument")
    ni = a.calls(r"NamedTempFile::new_in$")
    ck.floor("R3", "new_in calls in atomic_write", len(ni), 1)
    for bi, t in ni:
        pv = a.prov(t["args"][0])
        ck.ob("R3", "temp-in-target-dir", any(x[0] == "call" and re.search(r"^std::path::Path::parent$", x[1] or "") for x in pv),
              site(w.fns[awp], t["l"]), "the temp file is created in path.parent() (same file system, rename is atomic)")
    other_create = [c for c in w.fns[awp]["calls"] if c["c"] and re.search(r"^std::fs::(write|File::create|OpenOptions)|NamedTempFile::new$|tempfile::tempfile", c["c"])]
    ck.ob("R3", "no-other-create", not other_create, site(w.fns[awp]), "atomic_write creates files only through NamedTempFile::new_in")
    # Ok(()) only on persist Ok
    for bi, b in enumerate(a.blocks):
        if b.get("cu"):
            continue
        for si, st in enumerate(b["s"]):
            if st[0] == "=" and st[1][0] == 0 and st[2][0] == "agg" and isinstance(st[2][1], dict) and st[2][1].get("variant") == "Ok":
                S = ma.state_at(bi, si)
                if S is None:
                    continue
                FS = sa.facts(S[0])
                ck.ob("R3", "ok-only-after-persist-ok", any(x[0] == "isvariant" and x[2] == "Ok" and mentions_call(x[1], r"::persist$") for x in FS),
                      site(w.fns[awp], st[3]), "Ok(()) is returned only on the Ok edge of persist")

    # ---------------- R4: failure is a miss ---------------------------------------------------
    trp = "veryl::incremental::Incremental::try_restore"
    tr = Fn(w.mir(trp))
    mt = MustFacts(tr)
    stt = Sem(tr)
    LOAD = r"^veryl_cache::Store::load$"
    DEC = r"^veryl_analyzer::fragment_cache::Fragment::from_bytes$|Fragment::from_bytes$"
    RES = r"^veryl_analyzer::fragment_cache::restore$"
    MISS = r"HashSet<.*>::insert$|HashSet::<.*>::insert$"
    for rx, what in ((LOAD, "Store::load"), (DEC, "Fragment::from_bytes"), (RES, "fragment_cache::restore")):
        ck.floor("R4", "%s calls in try_restore" % what, len(tr.calls(rx)), 1)

    def edge(FS, rx, variant):
        return any(x[0] == "isvariant" and x[2] == variant and mentions_call(x[1], rx) for x in FS) or \
            any(x[0] == "notvariant" and mentions_call(x[1], rx) and variant not in x[2] and len(x[2]) == 1 for x in FS)

    rets = []
    for bi, b in enumerate(tr.blocks):
        if b.get("cu"):
            continue
        for si, st in enumerate(b["s"]):
            if st[0] == "=" and st[1][0] == 0 and not st[1][1]:
                rets.append((bi, si, st))
    ck.floor("R4", "assignments to try_restore's return place", len(rets), 5)
    n_true = 0
    for bi, si, st in rets:
        S = mt.state_at(bi, si)
        if S is None:
            continue
        rv = st[2]
        val = None
        if rv[0] == "use" and rv[1][0] == "k" and "int" in rv[1][1]:
            val = rv[1][1]["int"] not in ("0", 0)
        FS = stt.facts(S[0])
        called = {x[1] for x in S[0] if x[0] == "called"}
        s0 = site(w.fns[trp], st[3])
        if val is not False:
            n_true += 1
            ck.ob("R4", "true-requires:load-some", edge(FS, LOAD, "Some"), s0, "try_restore returns true only where store.load(entry) is Some")
            ck.ob("R4", "true-requires:decode-ok", edge(FS, DEC, "Ok"), s0, "try_restore returns true only where Fragment::from_bytes is Ok")
            ck.ob("R4", "true-requires:restore-ok", edge(FS, RES, "Ok"), s0, "try_restore returns true only where fragment_cache::restore is Ok")
        else:
            res_err = edge(FS, RES, "Err")
            load_none = edge(FS, LOAD, "None")
            dec_err = edge(FS, DEC, "Err")
            has_miss = any(re.search(MISS, c) for c in called)
            if res_err:
                ck.ob("R4", "restore-err:drop_file", any(re.search(r"^veryl_analyzer::analyzer::Analyzer::drop_file$|Analyzer::drop_file$", c) for c in called), s0,
                      "after a failed restore the file's partial analyzer state is dropped before returning false")
                ck.ob("R4", "restore-err:miss.insert", has_miss, s0, "after a failed restore the file is added to the miss set")
            elif load_none:
                ck.ob("R4", "load-none:miss.insert", has_miss, s0, "an unreadable / damaged blob makes the file a miss")
            elif dec_err:
                ck.ob("R4", "decode-err:miss.insert", has_miss, s0, "an undecodable fragment makes the file a miss")
    ck.ob("R4", "true-return-exists", n_true >= 1, site(w.fns[trp]), "a success return exists (anchor)")
    for bi, t in tr.calls(r"^veryl_cache::Store::keep$"):
        FS = stt.facts(mt.at_entry(bi))
        ck.ob("R4", "keep-only-after-restore-ok", edge(FS, RES, "Ok"), site(w.fns[trp], t["l"]),
              "the saved entry is carried over (Store::keep) only after a successful restore")
    ck.floor("R4", "Store::keep calls in try_restore", len(tr.calls(r"^veryl_cache::Store::keep$")), 1)
    # miss.insert's receiver is self.miss
    for bi, t in tr.calls(MISS):
        pv = tr.prov(t["args"][0])
        ck.ob("R4", "miss.insert-receiver", any(x[0] == "arg" and any(q[0] == "f" and q[1] == "miss" for q in x[2]) for x in pv),
              site(w.fns[trp], t["l"]), "the HashSet::insert on failure paths targets self.miss")
    # ---------------- R7 build outputs are replaced atomically ---------------------------------------------
    WO = "veryl::utils::write_output_if_changed"
    if WO not in w.fns:
        ck.missing("R7", WO)
    else:
        muts = [c for c in w.fns[WO]["calls"] if MUTATORS.search(c["c"] or "")]
        bad = [c for c in muts if c["c"] != "veryl_path::atomic_write"]
        ck.ob("R7", "write_output_if_changed/atomic-only", bool(muts) and not bad, site(w.fns[WO]),
              "write_output_if_changed changes the file only through veryl_path::atomic_write" if muts and not bad else
              "write_output_if_changed writes through %s: a crash between truncate and write leaves a partial output that the previous "
              "build's manifest and info.toml still vouch for" % sorted({c["c"] for c in bad}))
    n_out = 0
    for p, sm in sorted(w.fns.items()):
        if not p.startswith("veryl::cmd_build::") or sm.get("alias_of") or "::tests::" in p:
            continue
        for c in sm["calls"]:
            cc = c["c"] or ""
            if cc == WO:
                n_out += 1
            elif MUTATORS.search(cc) and not re.search(r"create_dir(_all)?$|^tempfile::", cc) or cc == "veryl::utils::write_file_if_changed":
                ck.ob("R7", "outputs-through-atomic-writer:%s/%s" % (p.split("::")[-1], cc.split("::")[-1]), False, site(sm, c["l"]),
                      "%s writes a build output through %s instead of utils::write_output_if_changed" % (p, cc))
    ck.floor("R7", "build output writes through write_output_if_changed", n_out, 4)
    # ---------------- R5 commit order (shared with C04 R4) ------------------------------------------------
    c04.commit_order(ck, w, "R5")
    # ---------------- R6 output staleness -------------------------------------------------------------------
    DS = "veryl::incremental::Incremental::dst_is_stale"
    OP = "veryl::incremental::Incremental::open"
    for p in (DS, OP):
        if p not in w.fns:
            ck.missing("R6", p)
    if DS in w.fns:
        sd = w.fns[DS]
        f = Fn(w.mir(DS))
        an = {f.name(i): i for i in range(1, f.nargs + 1)}
        try:
            paths = flow.enumerate_paths(f, 0, f.returns())
        except OverflowError:
            paths = None
        if paths is None:
            ck.ob("R6", "dst_is_stale/paths", None, site(sd), "too many paths to enumerate")
        else:
            n_cmp = 0
            for k, path in enumerate(paths):
                blocks = [b for b, _ in path]
                # last definition of the return place along the path
                val = None
                for b in blocks:
                    for st in f.blocks[b]["s"]:
                        if st[0] == "=" and st[1] == [0, []]:
                            rv = st[2]
                            if rv[0] == "use" and rv[1][0] == "k" and "int" in rv[1][1]:
                                val = ("const", str(rv[1][1]["int"]) not in ("0", "false"), st[3])
                            else:
                                val = ("other", None, st[3])
                    t = f.blocks[b]["t"]
                    if t["t"] == "call" and t["dst"] == [0, []]:
                        val = ("call", t, t["l"])
                fx = flow.path_facts(f, path)
                has_rec = any(x[0] == "isvariant" and x[2] == "Some" and "generated_files" in repr(x[1]) and "'dst'" in repr(x[1]) for x in fx)
                exists = any(x[0] == "call" and (x[1] or "").endswith("Path::exists") and x[2] is True and "'dst'" in repr(x[3]) for x in fx)
                if val is None:
                    ck.ob("R6", "dst_is_stale/path@%d" % (k + 1), None, site(sd), "return value not found on this path")
                elif val[0] == "const" and val[1] is True:
                    ck.ob("R6", "dst_is_stale/stale@%d" % (k + 1), True, site(sd, val[2]), "answers stale (the safe answer)")
                elif val[0] == "const":
                    ck.ob("R6", "dst_is_stale/fresh-without-comparison", False, site(sd, val[2]),
                          "answers `not stale` without comparing the source's mtime with the recorded generation time "
                          "(record present: %s, output exists: %s): an output nobody vouches for is trusted" % (has_rec, exists))
                elif val[0] == "call" and re.search(r"PartialOrd(<.*>)?(>)?::gt$|cmp::PartialOrd::gt$", val[1].get("callee") or ""):
                    n_cmp += 1
                    t = val[1]
                    ck.ob("R6", "dst_is_stale/compare-needs-record", has_rec, site(sd, val[2]), "the comparison is reached only when generated_files has a record for path.dst")
                    ck.ob("R6", "dst_is_stale/compare-needs-output", exists, site(sd, val[2]), "the comparison is reached only when path.dst exists")
                    p0 = f.prov(t["args"][0], depth=24)
                    p1 = f.prov(t["args"][1], depth=24)
                    ok0 = any(x[0] == "call" and (x[1] or "") == "std::fs::metadata" for x in p0) and any(x[0] == "arg" and any(q[0] == "f" and q[1] == "src" for q in x[2]) for x in p0)
                    ok1 = any(x[0] == "call" and (x[1] or "").endswith("BTreeMap::<K, V, A>::get") for x in p1) or any(x[0] == "field" and x[-1] == "generated_files" for x in p1)
                    ck.ob("R6", "dst_is_stale/compares-src-mtime", ok0, site(sd, val[2]), "left side is the modification time of path.src")
                    ck.ob("R6", "dst_is_stale/compares-recorded-time", ok1, site(sd, val[2]), "right side is the recorded generation time of path.dst")
                else:
                    ck.ob("R6", "dst_is_stale/path@%d" % (k + 1), None, site(sd, val[2]), "return value computed by an unrecognised expression")
            ck.floor("R6", "mtime comparisons in dst_is_stale", n_cmp, 1)
    if OP in w.fns:
        so = w.fns[OP]
        f = Fn(w.mir(OP))
        an = {f.name(i): i for i in range(1, f.nargs + 1)}
        loops = []
        for head, t, some, none, item in flow.loops_over(f):
            r, pth = flow.access_path(f, t["args"][0])
            if r == ("arg", an.get("paths")) and pth == ():
                loops.append((head, t, some, none))
        ck.floor("R6", "loops over `paths` in Incremental::open", len(loops), 1)
        for head, t, some, none in loops[:1]:
            ins = []
            for bi, tt in f.calls(r"hash::set::HashSet::<T, S, A>::insert$|HashSet::<T, S>::insert$"):
                nm = _ref_local_name(f, tt["args"][0])
                if nm == "miss":
                    ins.append(bi)
            ck.floor("R6", "miss.insert calls in the loop", len([b for b in ins if b in f.reach_from(some, avoid=[head])]), 1)
            try:
                paths = flow.enumerate_paths(f, some, [head], avoid=ins)
            except OverflowError:
                paths = None
            if paths is None:
                ck.ob("R6", "open/hit-paths", None, site(so), "too many paths to enumerate")
            else:
                bad_hash = bad_out = 0
                for path in paths:
                    fx = flow.path_facts(f, path)
                    hash_ok = any(x[0] == "call" and (x[1] or "").endswith("Option::<T>::is_some_and") and x[2] is True and "closure" in repr(x[3]) for x in fx)
                    fresh = any(x[0] == "call" and x[1] == DS and x[2] is False for x in fx)
                    no_out = any(x[0] == "flag" and x[2] is False and "consider_output" in repr(x[1]) for x in fx)
                    example = any(x[0] == "flag" and x[2] is True and "'example'" in repr(x[1]) for x in fx)
                    if not hash_ok:
                        bad_hash += 1
                    if not (fresh or no_out or example):
                        bad_out += 1
                ck.ob("R6", "open/hit-needs-entry-and-hash", bad_hash == 0 and bool(paths), site(so, t["l"]),
                      "every path that keeps a file out of the miss set saw entry.is_some_and(hash equal, fragment present) == true (%d hit paths)" % len(paths)
                      if bad_hash == 0 else "%d of %d hit paths skip the entry/hash test" % (bad_hash, len(paths)))
                ck.ob("R6", "open/hit-needs-fresh-output", bad_out == 0 and bool(paths), site(so, t["l"]),
                      "every hit path has dst_is_stale == false, or consider_output == false, or path.example" if bad_out == 0 else
                      "%d of %d hit paths keep a file out of the miss set without asking dst_is_stale although outputs are considered" % (bad_out, len(paths)))
                # the closure compares the stored hash with the hash of the text just read
            for bi, tt in f.calls("^" + re.escape(DS) + "$"):
                r, pth = flow.access_path(f, tt["args"][1])
                ck.ob("R6", "open/staleness-of-this-file", r[0] == "call" and r[2] == head and pth[:2] == ("Some", "0"), site(so, tt["l"]), "dst_is_stale is asked about the file of this iteration")
    _entry_truncation(ck, w)
    return ck.finish(info)


def _entry_truncation(ck, w):
    """R8: manifest.toml is the only thing that vouches for a fragment. The derived serializer writes an entry's fields in
    declaration order, one line each; a manifest cut at a line boundary inside an entry (damage; the write itself is atomic, R3) still
    parses if every field after the cut is optional, and the entry then restores a fragment without the lost fields. The last field
    written must therefore be required by the derived deserializer (serde::private::de::missing_field on a type that is not Option,
    no #[serde(default)]): then every cut inside an entry fails to parse and Store::open discards the whole manifest."""
    adt = w.adts.get("veryl_cache::FileEntry")
    ser = [p for p in w.fns if p.endswith("Serialize for veryl_cache::FileEntry>::serialize") and "Deserialize" not in p]
    de = [p for p in w.fns if "Deserialize<'de> for veryl_cache::FileEntry" in p and p.endswith("::visit_map")]
    if not adt or not ser or not de:
        ck.missing("R8", "veryl_cache::FileEntry and its derived Serialize / Deserialize (visit_map)")
        return
    fields = [(f["name"], f["ty"]) for f in adt["variants"][0]["fields"]]
    gs = Fn(w.mir(ser[0]))
    order = []
    for bi, t in sorted(gs.calls(r"SerializeStruct::serialize_field$"), key=lambda z: z[0]):
        a = t["args"][1]
        if a[0] == "k" and isinstance(a[1], dict) and "str" in a[1]:
            order.append(a[1]["str"])
    ck.ob("R8", "entry/serialized-in-declaration-order", order == [n for n, _ in fields], site(w.fns[ser[0]]),
          "FileEntry is written field by field in declaration order %s" % order if order == [n for n, _ in fields] else
          "FileEntry's serializer writes %s, the declaration is %s: cannot tell which field is written last" % (order, [n for n, _ in fields]))
    gd = Fn(w.mir(de[0]))
    required = set()
    for bi, t in gd.calls(r"serde::private::de::missing_field$|serde_core::private::de::missing_field$|::de::missing_field$"):
        a = t["args"][0]
        if a[0] == "k" and isinstance(a[1], dict) and "str" in a[1]:
            required.add(a[1]["str"])
    ty = dict(fields)
    required = {n for n in required if not ty.get(n, "").startswith("core::option::Option<")}
    ck.ob("R8", "entry/required-fields", "hash" in required, site(w.fns[de[0]]), "fields whose absence fails the parse: %s" % sorted(required))
    if not order:
        return
    # every field from the fragment reference on must be followed by (or be) a required field
    last = order[-1]
    tail_opt = []
    for n in reversed(order):
        if n in required:
            break
        tail_opt.append(n)
    ok = last in required
    ck.ob("R8", "entry/last-written-field-is-required", ok, site(w.fns[de[0]]),
          "the last field written (`%s`) is required when the manifest is read: an entry cut short at any line boundary fails to parse and the "
          "manifest is discarded as a whole" % last if ok else
          "the fields written last (%s) are optional when the manifest is read: a manifest.toml cut at a line boundary after `%s` parses, and the entry "
          "restores its fragment without them (lost diagnostics are never replayed again, lost dependents are not invalidated)"
          % (", ".join("`%s`" % x for x in reversed(tail_opt)), order[len(order) - len(tail_opt) - 1] if len(tail_opt) < len(order) else "the key"))


def _ref_local_name(f, op):
    if op[0] == "k":
        return None
    l = op[1][0]
    for _ in range(6):
        if f.name(l):
            return f.name(l)
        d = f.def_of(l)
        if not d or d[0] != "s":
            return None
        rv = f.rvalue_at(d)
        if rv[0] in ("ref", "ptr"):
            l = rv[2][0]
        elif rv[0] == "use" and rv[1][0] != "k":
            l = rv[1][1][0]
        else:
            return None
    return None
