"""Check harness: obligations, verdicts, known findings, evidence, replay files."""
import json
import os
import re
import sys
import time

VERIF = os.path.dirname(os.path.dirname(os.path.abspath(__file__)))
EVID = os.environ.get("VERIF_EVIDENCE_DIR", os.path.join(VERIF, "evidence"))
REPLAY = os.environ.get("VERIF_REPLAY_DIR", os.path.join(VERIF, "out", "replay"))
KNOWN = os.path.join(VERIF, "known_findings.json")


def load_known():
    if not os.path.exists(KNOWN):
        return []
    return json.load(open(KNOWN))


class Check:
    def __init__(self, pid, tier, level, rule_text, only_key=None):
        self.pid = pid
        self.tier = tier
        self.level = level
        self.rule_text = rule_text
        self.only_key = only_key
        self.obs = []  # {rule,key,site,verdict,detail}
        self.t0 = time.time()
        self.assumptions = []
        self.analysed = {}
        self.floors = []
        self.known = [k for k in load_known() if k["property"] == pid]

    # -- recording --------------------------------------------------------------------
    def ob(self, rule, key, ok, site="", detail=""):
        """One obligation. ok: True (discharged) / False (violation) / None (undecided)."""
        full = "%s.%s/%s" % (self.pid, rule, key)
        if self.only_key and full != self.only_key:
            return ok
        v = "ok" if ok is True else ("violation" if ok is False else "undecided")
        self.obs.append({"rule": rule, "key": full, "site": site, "verdict": v, "detail": detail})
        return ok

    def missing(self, rule, what):
        """A rule anchor is gone: fail closed."""
        self.ob(rule, "missing-anchor:" + what, False, detail="anchor not found in the analysed tree: " + what)

    def floor(self, rule, what, count, minimum):
        self.floors.append({"rule": rule, "what": what, "count": count, "floor": minimum})
        if count < minimum:
            self.ob(rule, "floor:" + what, False, detail="matched %d instances, confirmed floor is %d" % (count, minimum))
        else:
            self.ob(rule, "floor:" + what, True, detail="matched %d >= floor %d" % (count, minimum))

    def assume(self, text):
        if text not in self.assumptions:
            self.assumptions.append(text)

    # -- finishing ----------------------------------------------------------------------
    def finish(self, facts_info=None, extra=None):
        os.makedirs(EVID, exist_ok=True)
        os.makedirs(REPLAY, exist_ok=True)
        known_keys = {k["key"]: k for k in self.known if k.get("status") == "known"}
        viol = [o for o in self.obs if o["verdict"] == "violation"]
        real = []
        seen_known = set()
        for o in viol:
            if o["key"] in known_keys:
                if o["key"] not in seen_known:
                    seen_known.add(o["key"])
                    print("KNOWN-FINDING: property=%s %s [%s]" % (self.pid, known_keys[o["key"]]["what"], o["key"]))
                o["verdict"] = "known-finding"
            else:
                real.append(o)
        und = [o for o in self.obs if o["verdict"] == "undecided"]
        for o in und:
            print("UNDECIDED rule=%s site=%s %s" % (o["key"], o["site"], o["detail"]))
        n_ob = len(self.obs)
        n_ok = len([o for o in self.obs if o["verdict"] == "ok"])
        if os.environ.get("VERIF_LIST"):
            for o in self.obs:
                print("OB %s %s %s | %s" % (o["verdict"], o["key"], o["site"], o["detail"][:160]))
        samples = []
        for o in self.obs:
            if len(samples) < 12 and (o["verdict"] != "ok" or len(samples) < 8):
                samples.append({k: o[k] for k in ("key", "site", "verdict", "detail")})
        level = self.level
        if level == "proof" and n_ok != n_ob:
            # a proof-level claim needs every obligation discharged; report honestly otherwise
            level = "other"
        cov = {
            "obligations": n_ob,
            "discharged": n_ok,
            "undecided": len(und),
            "known_findings": len(seen_known),
            "violations": len(real),
            "rule": self.rule_text,
            "samples": samples,
            "obligation_keys": ["%s=%s" % (o["key"], o["verdict"]) for o in self.obs],
            "analysed": self.analysed,
            "floors": self.floors,
            "explanation": (
                "Static analysis over rustc MIR/ADT facts extracted from /repo's current working tree by the vfacts "
                "rustc_private driver; nothing from /repo is executed. Each obligation is a structural statement about a "
                "named construct (function, call site, field, variant, CFG path); 'discharged' counts obligations decided "
                "to hold, 'undecided' those whose idiom the rule does not recognise (never reported as violations)."
            ),
            "checker_cmd": "./check %s --tier %s" % (self.pid, self.tier),
            "trusted_base": [
                "rustc nightly MIR construction and trait resolution (Instance::try_resolve)",
                "vfacts driver (vfacts/src/main.rs) and rule code (rules/*.py)",
                "documented contracts of third-party crates treated as opaque leaves",
            ],
            "exhaustive": True,
        }
        if facts_info:
            cov["facts"] = facts_info
        if extra:
            cov.update(extra)
        ev = {
            "property_id": self.pid,
            "tier": self.tier,
            "seed": int(os.environ.get("VERIF_SEED", "0") or 0),
            "level": level,
            "coverage": cov,
            "assumptions": self.assumptions,
            "wall_s": round(time.time() - self.t0, 3),
            "violations": len(real),
        }
        with open(os.path.join(EVID, self.pid + ".json"), "w") as f:
            json.dump(ev, f, indent=1, sort_keys=False)
        print("%s: obligations=%d discharged=%d undecided=%d known=%d violations=%d wall=%.1fs" % (
            self.pid, n_ob, n_ok, len(und), len(seen_known), len(real), time.time() - self.t0))
        if real:
            for o in real:
                name = re.sub(r"[^A-Za-z0-9_.-]+", "_", o["key"])[:150]
                rp = os.path.join(REPLAY, name + ".json")
                with open(rp, "w") as f:
                    json.dump({"property": self.pid, "key": o["key"], "site": o["site"], "detail": o["detail"], "rule": self.rule_text}, f, indent=1)
                print("  violated: %s\n    site: %s\n    %s" % (o["key"], o["site"], o["detail"]))
                print("VIOLATION property=%s replay=%s" % (self.pid, rp))
            return 1
        return 0


def site(summary_or_rec, line=None):
    f = summary_or_rec.get("file", "?")
    l = line if line is not None else summary_or_rec.get("l0", "?")
    return "%s:%s (%s)" % (f, l, summary_or_rec.get("path", "?"))
