"""C11 - analysis, emission and formatting never crash on parseable input (elaboration limits clause only).

Decided (DESIGN.md section 3 C11, 8.4t): the clause "within the configured elaboration limits" - every limit the configuration carries
is enforced where the unbounded growth would happen, and what it refuses is reported as a diagnostic:
the instance history refuses a push beyond the depth / total limits before it records the instance, and every caller turns the refusal
into exceed_limit of the matching kind; function evaluation does not recurse beyond function_instance_depth_limit, remembers the
overflow, and create_ir reports it; sizes beyond evaluate_size_limit are refused by check_size with exceed_limit(EvaluateSize); the
[build] limits reach the analyzer's Config. Not decided: panic-freedom of the analyzer, emitter and formatter on every parseable input
(thousands of unwraps whose safety depends on run-time invariants) - the main body of the property.
"""
import re
from core import Check, site
from mirlib import Fn, MustFacts
import flow

RULE = (
    "veryl_analyzer. R1 every *_limit field of conv::context::Config is read in at least one comparison whose result is branched on "
    "(directly or through a parameter / struct field the value was copied into), and Analyzer::analyze_pass2 copies each [build] limit "
    "into the Config field of the same name. R2 InstanceHistory::push compares hierarchy.len() with instance_depth_limit and full.len() "
    "with instance_total_limit; on the exceeding edge it returns Err(ExceedDepthLimit / ExceedTotalLimit) and never reaches the recording "
    "of the instance; every function that matches on InstanceHistoryError constructs exceed_limit(HierarchyDepth) under ExceedDepthLimit "
    "and exceed_limit(TotalInstance) under ExceedTotalLimit. R3 in eval_factor_path the comparison of function_eval_depth with "
    "function_instance_depth_limit guards the recursive call: the exceeding edge sets function_eval_overflow and never reaches "
    "eval_factor_path_inner; create_ir turns function_eval_overflow and comptime_for_overflow into exceed_limit diagnostics on every path. "
    "R4 Context::check_size inserts exceed_limit(EvaluateSize) exactly on the exceeding edge and returns None there."
)

CRATES = ["veryl_analyzer"]
CFG = "veryl_analyzer::conv::context::Config"
CTX = "veryl_analyzer::conv::context::Context"
EL = "veryl_analyzer::analyzer_error::AnalyzerError::exceed_limit"
LIMITS = ["instance_depth_limit", "instance_total_limit", "function_instance_depth_limit", "evaluate_size_limit", "evaluate_array_limit"]
CMP = ("Gt", "Ge", "Lt", "Le")


def _cmp_sites(g, is_limit_op):
    """[(bb, exceed_target, other_target, stmt)] comparisons with the limit on one side whose result is branched on"""
    out = []
    for bi, b in enumerate(g.blocks):
        if b.get("cu"):
            continue
        for st in b["s"]:
            if st[0] == "=" and st[2][0] == "bin" and st[2][1] in CMP and not st[1][1]:
                a, c = st[2][2], st[2][3]
                la, lc = is_limit_op(a), is_limit_op(c)
                if la == lc:
                    continue
                t = b["t"]
                if t["t"] == "sw" and t["on"][0] != "k" and t["on"][1][0] == st[1][0] and len(t["vals"]) == 1 and t["vals"][0][0] == "0":
                    true_t, false_t = t["else"], t["vals"][0][1]
                    # "exceeds" = value > limit: limit on the right with Gt/Ge, or on the left with Lt/Le
                    exceeds_when_true = (lc and st[2][1] in ("Gt", "Ge")) or (la and st[2][1] in ("Lt", "Le"))
                    out.append((bi, true_t if exceeds_when_true else false_t, false_t if exceeds_when_true else true_t, st))
    return out


def _reads_field(g, op, fld):
    if op[0] == "k":
        return False
    try:
        for r, pth in flow.access_paths(g, op):
            if fld in pth:
                return True
    except Exception:
        pass
    return False


def _kind_agg_blocks(g, variant):
    out = []
    for bi, b in enumerate(g.blocks):
        if b.get("cu"):
            continue
        for st in b["s"]:
            if st[0] == "=" and st[2][0] == "agg" and isinstance(st[2][1], dict) and (st[2][1].get("adt") or "").endswith("ExceedLimitKind") and st[2][1].get("variant") == variant:
                out.append(bi)
    return out


def run(world, tier, info, only=None):
    ck = Check("C11", tier, "other", RULE, only)
    w = world
    IH = "veryl_analyzer::conv::instance::InstanceHistory::push"
    EFP = "veryl_analyzer::conv::utils::eval_factor_path"
    CIR = "veryl_analyzer::analyzer::Analyzer::create_ir"
    CS = "veryl_analyzer::conv::context::Context::check_size"
    P2 = "veryl_analyzer::analyzer::Analyzer::analyze_pass2"
    for p in (IH, EFP, CIR, CS, P2, EL):
        if p not in w.fns:
            ck.missing("anchors", p)
    if CFG not in w.adts:
        ck.missing("anchors", CFG)
    if any(o["verdict"] == "violation" for o in ck.obs):
        return ck.finish(info)
    ck.assume("a diagnostic inserted into the context (insert_error) or returned from create_ir reaches the user (C04 / C07 cover its later handling)")
    cfg_limits = [f["name"] for f in w.adts[CFG]["variants"][0]["fields"] if f["name"].endswith("_limit")]
    ck.ob("R1", "config-limits", sorted(cfg_limits) == sorted(LIMITS), site(w.fns[P2]),
          "Config carries the five limits checked here (found %s); a new limit needs its own enforcement rule" % sorted(cfg_limits))
    # ---------------- R1 every limit is compared somewhere -------------------------------------------------------------
    carriers = {L: {(CFG, L)} for L in cfg_limits}
    for L in cfg_limits:
        n_cmp = 0
        seen_fns = set()
        work = list(carriers[L])
        done = set()
        while work:
            adt, fld = work.pop()
            if (adt, fld) in done:
                continue
            done.add((adt, fld))
            for p, sm in w.fns.items():
                if sm.get("alias_of") or "::tests::" in p:
                    continue
                if [adt, fld] not in [list(x) for x in (sm.get("fr") or [])]:
                    continue
                g = Fn(w.mir(p))
                import taint
                tn = taint.Taint(g, seed_place=lambda pl, fld=fld, adt=adt: any(isinstance(q, list) and q[0] == "f" and q[2] == fld and (q[3] or "") == adt for q in pl[1]))
                for snk in tn.sinks():
                    if snk[0] == "switch":
                        n_cmp += 1
                        seen_fns.add(p.split("::")[-1])
                    elif snk[0] in ("agg", "fieldwrite") and len(done) < 6:
                        # the limit copied into another struct (AssignTable.array_limit, Variable::new(.., array_limit))
                        if snk[0] == "fieldwrite" and snk[2] and "limit" in str(snk[2]):
                            work.append((snk[1], snk[2]))
                        if snk[0] == "agg":
                            a2 = w.adts.get(snk[1])
                            if a2 and a2["kind"] == "struct" and snk[2] < len(a2["variants"][0]["fields"]):
                                fn2 = a2["variants"][0]["fields"][snk[2]]["name"]
                                if "limit" in fn2:
                                    work.append((snk[1], fn2))
        ck.ob("R1", "limit-is-compared:" + L, n_cmp >= 1, site(w.fns[P2]),
              "%s decides a branch in %d place(s) (%s)" % (L, n_cmp, sorted(seen_fns)[:5]) if n_cmp else
              "%s is configured but nothing compares against it: the growth it is meant to bound is unbounded" % L)
    # the [build] options reach the Config
    g = Fn(w.mir(P2))
    for L in ("instance_depth_limit", "instance_total_limit", "function_instance_depth_limit", "evaluate_size_limit", "evaluate_array_limit"):
        ws = [(bi, si, st) for bi, si, st in flow.field_writes(g, r"conv::context::Config$", L)]
        ok = bool(ws) and all(st[2][0] == "use" and st[2][1][0] != "k" and flow.access_path(g, st[2][1])[1][-1:] == (L,) for bi, si, st in ws)
        ck.ob("R1", "build-option-reaches-config:" + L, ok, site(w.fns[P2]),
              "analyze_pass2 copies build_opt.%s into context.config.%s" % (L, L) if ok else
              "context.config.%s is not set from the [build] option of the same name (%d writes)" % (L, len(ws)))
    # ---------------- R2 instance history -------------------------------------------------------------------------------
    g = Fn(w.mir(IH))
    s = w.fns[IH]
    record = [bi for bi, t in g.calls(r"Vec::<T, A>::push$|HashMap<.*>::insert$|hash::map::HashMap.*::insert$|IndexMap.*::insert$|::insert$")]
    for L, lenfld, errv in (("instance_depth_limit", "hierarchy", "ExceedDepthLimit"), ("instance_total_limit", "full", "ExceedTotalLimit")):
        sites = _cmp_sites(g, lambda o, L=L: _reads_field(g, o, L))
        ok = False
        why = "no comparison with %s found" % L
        for bi, ex, other, st in sites:
            oth = st[2][2] if _reads_field(g, st[2][3], L) else st[2][3]
            counts = _reads_field(g, oth, lenfld) or ("'%s'" % lenfld) in repr(g.describe(oth, 8))
            errs = [b2 for b2 in g.reach_from(ex, avoid=[bi]) if any(x[0] == "=" and x[2][0] == "agg" and isinstance(x[2][1], dict) and x[2][1].get("variant") == errv for x in g.blocks[b2]["s"])]
            rec = [b2 for b2 in record if b2 in g.reach_from(ex, avoid=[bi])]
            ok = counts and bool(errs) and not rec
            why = "compares %s.len() with %s; the exceeding edge returns Err(%s) and records nothing" % (lenfld, L, errv) if ok else \
                "counts=%s err-sites=%s recording-calls-after=%s" % (counts, errs, rec)
            if ok:
                break
        ck.ob("R2", "push-refuses:" + L, ok, site(s), why)
    n_m = 0
    for p, sm in sorted(w.fns.items()):
        if sm.get("alias_of") or "::tests::" in p or sm["nblocks"] < 4:
            continue
        if not any("push_instance_history" in (c["c"] or "") or (c["c"] or "") == IH for c in sm["calls"]):
            continue
        g2 = Fn(w.mir(p))
        for bb, t in flow.enum_switches(g2, r"InstanceHistoryError$"):
            n_m += 1
            tg = {vn: tgt for v, tgt, vn in t["vals"]}
            for errv, kind in (("ExceedDepthLimit", "HierarchyDepth"), ("ExceedTotalLimit", "TotalInstance")):
                arm = tg.get(errv, t.get("else"))
                others = set()
                for vn2, tgt2 in tg.items():
                    if vn2 != errv:
                        others |= g2.reach_from(tgt2, avoid=[bb])
                kinds = [b2 for b2 in _kind_agg_blocks(g2, kind) if arm is not None and b2 in g2.reach_from(arm, avoid=[bb]) and b2 not in others]
                calls = [b2 for b2, tt in g2.calls("^" + re.escape(EL) + "$") if arm is not None and b2 in g2.reach_from(arm, avoid=[bb]) and b2 not in others]
                ok = bool(kinds) and bool(calls) and not flow.escapes(g2, arm, calls, stops=[bb])
                ck.ob("R2", "refusal-reported:%s/%s" % (p.split("::")[-1], errv), ok, site(sm, t["l"]),
                      "%s is reported as exceed_limit(%s) on every path of its arm" % (errv, kind) if ok else
                      "the %s arm does not (always) report exceed_limit(%s): the design is silently truncated" % (errv, kind))
    ck.floor("R2", "matches on InstanceHistoryError", n_m, 1)
    # ---------------- R3 function evaluation depth ------------------------------------------------------------------------
    g = Fn(w.mir(EFP))
    s = w.fns[EFP]
    L = "function_instance_depth_limit"
    sites = _cmp_sites(g, lambda o: _reads_field(g, o, L))
    ok = False
    why = "no comparison with %s in eval_factor_path" % L
    for bi, ex, other, st in sites:
        rec = [b2 for b2, t in g.calls(r"conv::utils::eval_factor_path_inner$") if b2 in g.reach_from(ex, avoid=[bi])]
        flag = [b2 for b2, si, st2 in flow.field_writes(g, r"conv::context::Context$", "function_eval_overflow") if b2 in g.reach_from(ex, avoid=[bi])]
        inner_other = [b2 for b2, t in g.calls(r"conv::utils::eval_factor_path_inner$") if b2 in g.reach_from(other, avoid=[bi])]
        dep = _reads_field(g, st[2][2], "function_eval_depth") or _reads_field(g, st[2][3], "function_eval_depth")
        ok = dep and not rec and bool(flag) and bool(inner_other)
        why = "the recursion runs only below the limit; beyond it function_eval_overflow is set" if ok else \
            "depth-compared=%s recursive-call-on-exceeding-edge=%s flag-writes=%s" % (dep, rec, flag)
    ck.ob("R3", "function-depth-guards-recursion", ok, site(s), why)
    inc = [(bi, si) for bi, si, st in flow.field_writes(g, r"conv::context::Context$", "function_eval_depth")]
    ck.ob("R3", "function-depth-counted", len(inc) >= 2, site(s), "function_eval_depth is incremented before and decremented after the evaluation (%d writes)" % len(inc))
    g = Fn(w.mir(CIR))
    s = w.fns[CIR]
    for flagname, kind in (("function_eval_overflow", "HierarchyDepth"), ("comptime_for_overflow", "EvaluateSize")):
        takes = [(bi, t) for bi, t in g.calls(r"Option::<T>::take$") if flow.access_path(g, t["args"][0])[1][-1:] == (flagname,)]
        ok = False
        if takes and not flow.escapes(g, 0, [bi for bi, t in takes]):
            for bi, t in takes:
                for bb, tt in flow.enum_switches(g, r"core::option::Option$"):
                    if tt.get("of") and tt["of"][0] == t["dst"][0]:
                        some = [tgt for v, tgt, vn in tt["vals"] if vn == "Some"] or [tt.get("else")]
                        calls = [b2 for b2, t3 in g.calls("^" + re.escape(EL) + "$") if b2 in g.reach_from(some[0], avoid=[bb])]
                        kinds = [b2 for b2 in _kind_agg_blocks(g, kind) if b2 in g.reach_from(some[0], avoid=[bb])]
                        if calls and kinds and not flow.escapes(g, some[0], calls):
                            ok = True
        ck.ob("R3", "overflow-flag-reported:" + flagname, ok, site(s),
              "create_ir takes %s on every path and reports exceed_limit(%s) when it is set" % (flagname, kind) if ok else
              "%s is not (always) turned into an exceed_limit(%s) diagnostic" % (flagname, kind))
    # ---------------- R4 check_size ----------------------------------------------------------------------------------------
    g = Fn(w.mir(CS))
    s = w.fns[CS]
    sites = _cmp_sites(g, lambda o: _reads_field(g, o, "evaluate_size_limit"))
    ok = False
    for bi, ex, other, st in sites:
        calls = [b2 for b2, t in g.calls("^" + re.escape(EL) + "$")]
        kinds = _kind_agg_blocks(g, "EvaluateSize")
        on_ex = all(b2 in g.reach_from(ex, avoid=[bi]) and b2 not in g.reach_from(other, avoid=[bi]) for b2 in calls)
        ok = bool(calls) and bool(kinds) and on_ex and not flow.escapes(g, ex, calls)
    ck.ob("R4", "check_size-reports-exactly-when-exceeded", ok, site(s),
          "check_size inserts exceed_limit(EvaluateSize) on the exceeding edge, on every path of it, and nowhere else")
    ck.analysed = {"limits": cfg_limits}
    return ck.finish(info)
