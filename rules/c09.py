"""C09 - formatting only changes layout (token and comment conservation of the formatter's walker).

Decided (structural necessary conditions, DESIGN.md section 8.4q): the current-grammar walker that every tool inherits reaches every
child of every node in source order; each of the Formatter's overrides still visits every child of its node (directly, through its
token helpers, through a helper checked the same way, or through a closure run once), on every emission path and in source order; the
token sink writes the token's own text and hands all of its comments to the renderer. Not decided: that the layout documents around
the tokens re-lex to the same tokens (spacing between two tokens), that the renderer keeps content (that is C28), nor the equality of
the emitted SystemVerilog.
"""
import re
from core import Check, site
from mirlib import Fn
import flow
import walk

RULE = (
    "veryl_parser::veryl_walker / veryl_formatter. R1 every provided method of VerylWalker visits every child of its node (fields of the "
    "generated ADT through its auxiliary Opt/List/Group ADTs, VerylToken fields through veryl_token) with the child's own method, on every "
    "path of the child's presence context and in declaration (= source) order; TokenCollector - the formatter's verbatim copier for "
    "#[fmt(skip)] items and embed bodies - overrides nothing but veryl_token. R2 every override in `impl VerylWalker for Formatter` does the "
    "same for its node, where a visit may also be: a token helper (token / token_will_push / process_token) on the token of a terminal child; "
    "emit_trailing_comments on a trailing comma's token (the comma itself may be dropped or added, its comments may not); the whole node "
    "or child handed to a verbatim copier (unformat_*) or to a helper that is checked as a walker of that node type; calls inside a "
    "closure passed to a run-once helper (aligned_case_arm); or deeper calls that cover every leaf of an inlined child. Paths that exist "
    "only in the alignment pass (mode == Align) are not emission paths. The table EXCEPT lists the children deliberately not written, "
    "one reason each. R3 the helpers accepted in R2 visit every node-typed parameter on every path. R4 the token sink: process_token "
    "pushes the token's own interned text and passes every comment of x.comments to the renderer. R5 comments reach the tree: every generated "
    "token type with a `comments` field is converted to a VerylToken by an impl that splits and keeps them, and COMMENT_REGEX (the splitter) "
    "matches whole every comment the scanner's CommentsTerm (veryl.par) accepts - compared exhaustively on all strings up to length 7 over the "
    "five characters the two patterns distinguish. R6 in Formatter::expression02 and Emitter::expression02 the loop over the prefix operators of "
    "an operand writes a blank before the operator of every iteration but the first (two operators written back to back can lex as one token)."
)

CRATES = ["veryl_parser", "veryl_formatter", "veryl_emitter"]
GEN = "veryl_parser::generated::veryl_grammar_trait::"
TRAIT = "veryl_parser::veryl_walker::VerylWalker::"
F = "veryl_formatter::formatter::Formatter::"
IMPL = "<veryl_formatter::formatter::Formatter as veryl_parser::veryl_walker::VerylWalker>::"
TC = "<veryl_parser::token_collector::TokenCollector as veryl_parser::veryl_walker::VerylWalker>::"
SINKS = {"token", "token_will_push", "process_token", "emit_trailing_comments"}
N_DEFAULT = 316
N_OVERRIDES = 130
# node -> chains never written, with the reason (confirmed by reading)
EXCEPT_DEFAULT = {
    "DescriptionGroup": ("*", "before!() may return early when a handler sets skip_description_group: the analyzer's way of not descending into "
                              "an item it restored from the cache; walkers without handlers (formatter, collector) never take that path"),
}
EXCEPT_FMT = {}
# overrides that delegate through an idiom the engine does not follow: reported as undecided, never as discharged
UNDECIDED_FMT = {
    "InstParameterItem": "identifier / colon / expression are handed to emit_inst_item through `opt.as_ref().map(|x| (&*x.colon, &*x.expression))`; "
                         "emit_inst_item's own parameters are checked in R3, the tuple built in the closure is not followed",
    "InstPortItem": "same idiom as InstParameterItem",
}


def mode_banned(g):
    """edges taken only in the alignment pass (self.mode == Mode::Align)"""
    out = set()
    for bb, t in flow.enum_switches(g, r"formatter::Mode$"):
        for v, tgt, vn in t["vals"]:
            if vn == "Align":
                out.add((bb, tgt))
        listed = [vn for v, tgt, vn in t["vals"]]
        if "Emit" in listed and "Align" not in listed and t.get("else") is not None:
            out.add((bb, t["else"]))
    for bi, t in g.calls(r"PartialEq.*::(eq|ne)$"):
        if "formatter::Mode" not in (t.get("self") or "") + (t.get("callee") or ""):
            continue
        sw = g.blocks[t["to"]]["t"]
        if sw["t"] != "sw" or len(sw["vals"]) != 1 or sw["vals"][0][0] != "0":
            continue
        const = None
        for a in t["args"]:
            d = g.describe(a, 6)
            if d and d[0] == "proj" and isinstance(d[1], tuple) and d[1][0] == "promoted":
                const = (d[1][1], d[1][2])
        if const is None:
            continue
        out.add(("cmp", t["to"], sw["else"], sw["vals"][0][1], t["callee"].endswith("::ne"), const))
    return out


def run(world, tier, info, only=None):
    ck = Check("C09", tier, "other", RULE, only)
    w = world
    for p in (F + "process_token", F + "push_token", IMPL + "veryl_token", TC + "veryl_token"):
        if p not in w.fns:
            ck.missing("anchors", p)
    if any(o["verdict"] == "violation" for o in ck.obs):
        return ck.finish(info)
    ck.assume("the generated parser builds, for every accepted text, the tree described by the generated ADTs with every token in it (parol)")
    ck.assume("veryl_pretty renders every Text / Anchored / Comments document it is given (property C28)")
    gr = walk.Grammar(w, GEN, TRAIT)

    def resolve_banned(g, p):
        out = set()
        for e in mode_banned(g):
            if e[0] != "cmp":
                out.add(e)
                continue
            _, swb, t_edge, f_edge, is_ne, const = e
            pr = w.promoted(const[0], const[1])
            variant = None
            for b in (pr or {}).get("blocks", []):
                for st in b["s"]:
                    if st[0] == "=" and st[2][0] == "agg" and isinstance(st[2][1], dict) and (st[2][1].get("adt") or "").endswith("formatter::Mode"):
                        variant = st[2][1].get("variant")
            if variant is None:
                continue
            eq_edge, ne_edge = (f_edge, t_edge) if is_ne else (t_edge, f_edge)
            out.add((swb, eq_edge if variant == "Align" else ne_edge))
        return out
    # ---------------- R1 default walker -----------------------------------------------------------------------
    n = 0
    for m, a in sorted(gr.node_of.items()):
        n += 1
        if EXCEPT_DEFAULT.get(a, (None,))[0] == "*":
            ck.ob("R1", "walker/" + m, True, site(w.fns[gr.methods[m]]), "excepted: " + EXCEPT_DEFAULT[a][1])
            continue
        walk.check_method(ck, "R1", gr, gr.methods[m], a, "walker/" + m)
    ck.floor("R1", "walker methods with a node", n, N_DEFAULT)
    tc = sorted(p[len(TC):] for p in w.fns if p.startswith(TC) and "{" not in p)
    ck.ob("R1", "token-collector/overrides", tc == ["veryl_token"], site(w.fns[TC + "veryl_token"]), "TokenCollector overrides only veryl_token (found %s)" % tc)
    g = Fn(w.mir(TC + "veryl_token"))
    pushes = g.calls(r"^alloc::vec::Vec::<T, A>::push$")
    own = [bi for bi, t in pushes if flow.access_path(g, t["args"][1]) == (("arg", 2), ("token",))]
    ck.ob("R1", "token-collector/keeps-token", bool(own) and not flow.escapes(g, 0, own), site(w.fns[TC + "veryl_token"]), "the collector keeps every token")
    lp = [(h, some) for h, t, some, none, item in flow.loops_over(g) if flow.access_path(g, t["args"][0]) == (("arg", 2), ("comments",))]
    cm = [bi for bi, t in pushes if flow.access_path(g, t["args"][1])[0][:1] == ("call",)]
    ck.ob("R1", "token-collector/keeps-comments", len(lp) == 1 and bool(cm) and not flow.escapes(g, lp[0][1], cm, stops=[lp[0][0]]), site(w.fns[TC + "veryl_token"]),
          "with include_comments every comment of the token is kept")
    # ---------------- R3 helpers (checked first: R2 relies on them) --------------------------------------------
    helpers = {}
    for p, sm in sorted(w.fns.items()):
        if not p.startswith(F) or "{" in p[len(F):] or p[len(F):] in SINKS:
            continue
        g = Fn(w.mir(p))
        ptypes = {}
        for i in range(2, g.nargs + 1):
            m = re.match(r"^&(?:'\w+ )?" + re.escape(GEN) + r"(\w+)$", g.ty(i))
            if m and (m.group(1) in gr.method_of):
                ptypes[i] = m.group(1)
        if not ptypes:
            continue
        if p[len(F):] in ("format",):
            continue   # the entry point (runs the walk once per pass), not a helper of the overrides
        spec = {}
        for i, ty in sorted(ptypes.items()):
            problems, und, nl = walk.check_walker(gr, p, ty, arg_local=i, impl_prefix=F, token_sinks=SINKS,
                                                  banned=lambda gg, p=p: resolve_banned(gg, p))
            missing = [x[len("unvisited:"):] for x in problems.sig if x.startswith("unvisited:")]
            other = [x for x in problems.sig if not x.startswith("unvisited:")]
            leaves = [(ch, child) for ch, child, ctx in gr.leaves(ty)]
            covered = [(ch, child) for ch, child in leaves if ".".join(ch) not in missing]
            if not covered:
                continue   # the parameter is only inspected (predicates such as inst_port_group_has_named), nothing is written from it
            good = not other and not und
            label = "helper/%s/%s" % (p[len(F):], ty)
            if other:
                label += "[%s]" % "+".join(sorted(set(other)))
            ck.ob("R3", label, True if good else (False if other else None), site(sm),
                  "%s writes %s of its %s parameter, each on every emission path and in order" % (
                      p[len(F):], "every child" if not missing else "the children %s" % [".".join(c) for c, _ in covered], ty)
                  if good else "; ".join([t for t, sg in zip(problems, problems.sig) if not sg.startswith("unvisited:")] + und))
            spec[i] = (ty, None if not missing else covered)
        if spec:
            helpers[p] = spec
    # ---------------- R2 overrides ----------------------------------------------------------------------------
    ov = sorted(p[len(IMPL):] for p in w.fns if p.startswith(IMPL) and "{" not in p)
    n2 = 0
    for m in ov:
        m2 = m.replace("r#", "")
        if m2 not in gr.node_of:
            continue
        node = gr.node_of[m2]
        n2 += 1
        allow = EXCEPT_FMT.get(node, ([], ""))[0]
        if node in UNDECIDED_FMT:
            ck.ob("R2", "formatter/" + m2, None, site(w.fns[IMPL + m]), UNDECIDED_FMT[node])
            continue
        problems, und, nl = walk.check_walker(gr, IMPL + m, node, impl_prefix=F, token_sinks=SINKS, helpers=helpers,
                                              closure_takers={F + "aligned_case_arm"}, allow_missing=allow,
                                              banned=lambda gg, p=IMPL + m: resolve_banned(gg, p))
        verdict = False if problems else (None if und else True)
        ck.ob("R2", "formatter/" + m2 + ("[%s]" % problems.signature() if problems else ""), verdict, site(w.fns[IMPL + m]),
              "the override visits all %d children of %s in order%s" % (nl, node, " (excepted: %s)" % EXCEPT_FMT[node][1] if node in EXCEPT_FMT else "")
              if verdict else "; ".join(problems + und))
    ck.floor("R2", "Formatter overrides with a node", n2, N_OVERRIDES)
    # aligned_case_arm runs its closure exactly once on every path
    p = F + "aligned_case_arm"
    inst = [q for q in w.fns if q.startswith(p)]
    if inst:
        g = Fn(w.mir(inst[0]))
        calls = [bi for bi, t in g.calls(r"FnOnce.*::call_once$")]
        ck.ob("R2", "aligned_case_arm/runs-body-once", len(calls) == 1 and not flow.escapes(g, 0, calls), site(w.fns[inst[0]]),
              "aligned_case_arm calls its closure exactly once on every path")
    else:
        ck.missing("R2", p)
    ntk = walk.token_conversion_obligations(ck, "R5", w, "veryl_parser")
    ck.floor("R5", "tokens that may carry comments", ntk, 120)
    import rxagree
    import os
    rxagree.check(ck, "R5", w, "veryl_parser", "parser", os.environ.get("VERIF_REPO", "/repo"))
    # ---------------- R6 prefix operators written back to back stay apart ------------------------------------------
    for crate_impl, label in ((IMPL, "formatter"), ("<veryl_emitter::emitter::Emitter as veryl_parser::veryl_walker::VerylWalker>::", "emitter")):
        q = crate_impl + "expression02"
        if q not in w.fns:
            if label == "formatter":
                ck.missing("R6", q)
            continue
        gq = Fn(w.mir(q))
        ok = False
        for h, t, some, none, item in flow.loops_over(gq):
            r, pth = flow.access_path(gq, t["args"][0], extra_transparent=walk.ADAPT)
            if pth[-1:] != ("expression02_list",):
                continue
            body = gq.reach_from(some, avoid=[h])
            ops = [bi for bi, tt in gq.calls(r"::expression02_op$") if bi in body]
            sp = [bi for bi, tt in gq.calls(r"::space$") if bi in body]
            # a separator is written before the operator of an iteration (it may be skipped for the first one only: a branch on the index)
            ok = bool(ops) and bool(sp) and all(any(o in gq.reach_from(s_) for o in ops) for s_ in sp)
        ck.ob("R6", "prefix-operators-separated:" + label, ok, site(w.fns[q]),
              "between two prefix operators of one operand the %s writes a blank" % label if ok else
              "the %s writes the prefix operators of an operand back to back: `& &a` comes out as `&&a` and `~ ^a` as `~^a`, other tokens than the "
              "source had (the first no longer parses)" % label)
    # ---------------- R4 token sink ---------------------------------------------------------------------------
    s = w.fns[F + "process_token"]
    g = Fn(w.mir(F + "process_token"))
    an = {g.name(i): i for i in range(1, g.nargs + 1)}
    ax = an.get("x", 2)
    pt = [bi for bi, t in g.calls("^" + re.escape(F + "push_token") + "$") if flow.access_path(g, t["args"][1]) == (("arg", ax), ("token",))]
    ban = resolve_banned(g, F + "process_token")
    mw = walk.MethodWalk(gr, F + "process_token", arg_local=ax)
    ck.ob("R4", "process_token/pushes-token", bool(pt) and mw.skip_path(0, pt, ban, []) is None, site(s),
          "process_token pushes x.token on every emission path")
    etc = [bi for bi, t in g.calls("^" + re.escape(F + "emit_trailing_comments") + "$") if flow.access_path(g, t["args"][1]) == (("arg", ax), ())]
    ck.ob("R4", "process_token/hands-comments-on", bool(etc) and mw.skip_path(0, etc, ban, []) is None, site(s),
          "process_token passes the whole token to emit_trailing_comments on every emission path")
    se = w.fns[F + "emit_trailing_comments"]
    ge = Fn(w.mir(F + "emit_trailing_comments"))
    ane = {ge.name(i): i for i in range(1, ge.nargs + 1)}
    axe = ane.get("x", 2)
    lps = [(h, t, some) for h, t, some, none, item in flow.loops_over(ge) if flow.access_path(ge, t["args"][0]) == (("arg", axe), ("comments",))]
    if len(lps) != 1:
        ck.ob("R4", "emit_trailing_comments/loop", False, site(se), "expected one loop over x.comments, found %d" % len(lps))
    else:
        h, t, some = lps[0]
        ad = []
        flow.access_path(ge, t["args"][0], adapters=ad)
        ck.ob("R4", "emit_trailing_comments/all-comments", not ad, site(se), "the loop visits every comment (adapters %s)" % ad)
        pushes = [bi for bi, tt in ge.calls(r"^alloc::vec::Vec::<T, A>::push$") if bi in ge.reach_from(some, avoid=[h])]
        ck.ob("R4", "emit_trailing_comments/keeps-every-comment", bool(pushes) and not flow.escapes(ge, some, pushes, stops=[h]), site(se),
              "every iteration pushes a CommentDoc and the loop has no early exit")
        # the CommentDoc's text is the comment's own text
        okt = False
        for bi in pushes:
            a = ge.blocks[bi]["t"]["args"][1]
            d = ge.def_of(a[1][0]) if a[0] != "k" else None
            rv = ge.rvalue_at(d) if d and d[0] == "s" else None
            if rv and rv[0] == "agg" and isinstance(rv[1], dict) and (rv[1].get("adt") or "").endswith("CommentDoc"):
                for o in rv[2]:
                    for r, pth in flow.access_paths(ge, o, extra_transparent=re.compile(r"trim_end$|to_string$|Clone>::clone$|as_str$|From<.*>>::from$|Rc<.*>::from$")):
                        if r[0] == "call" and (r[1] or "").endswith("resource_table::get_str_value"):
                            src = flow.access_path(ge, ge.blocks[r[2]]["t"]["args"][0])
                            if src[0][0] == "call" and src[0][2] == h and src[1][-1:] == ("text",):
                                okt = True
        ck.ob("R4", "emit_trailing_comments/own-text", okt, site(se), "the CommentDoc's text is the interned text of the comment of this iteration")
        emit = [bi for bi, tt in ge.calls("^" + re.escape(F + "emit_doc") + "$")]
        after = [b for b in emit if b in ge.reach_from(lps[0][0])]
        none_edge = [none for hh, tt2, some2, none, item in flow.loops_over(ge) if hh == h]
        ck.ob("R4", "emit_trailing_comments/emitted", bool(after) and bool(none_edge) and not flow.escapes(ge, none_edge[0], after), site(se),
              "after the loop the comments document is emitted on every path")
    s = w.fns[F + "push_token"]
    g = Fn(w.mir(F + "push_token"))
    an = {g.name(i): i for i in range(1, g.nargs + 1)}
    ax = an.get("x", 2)
    txt = []
    for bi, t in g.calls():
        for a in t["args"]:
            for r, pth in flow.access_paths(g, a, extra_transparent=re.compile(r"trim_end(_matches)?$|Rc<str>.*from$|::as_str$")):
                if r[0] == "call" and (r[1] or "").endswith("resource_table::get_str_value"):
                    src = flow.access_path(g, g.blocks[r[2]]["t"]["args"][0])
                    if src == (("arg", ax), ("text",)) and re.search(r"emit_doc$|::str$|doc::(text|anchored)$", t.get("callee") or ""):
                        txt.append(bi)
    ban = resolve_banned(g, F + "push_token")
    mw = walk.MethodWalk(gr, F + "push_token", arg_local=ax)
    ck.ob("R4", "push_token/own-text", bool(txt) and mw.skip_path(0, txt, ban, []) is None, site(s),
          "push_token emits the interned text of x.text on every emission path")
    ck.analysed = {"walker_methods": n, "formatter_overrides": n2, "helpers": {k[len(F):]: v for k, v in helpers.items()}}
    return ck.finish(info)


def _rooted(g, op, local):
    try:
        r, pth = flow.access_path(g, op)
    except Exception:
        return False
    return r == ("arg", local)


def _mentions(g, op, local, field):
    try:
        for r, pth in flow.access_paths(g, op):
            if r == ("arg", local) and field in pth:
                return True
    except Exception:
        pass
    return False
