"""Small flow helpers shared by the rules built in round 3 (access paths, must-pass-through, enum arms, loops)."""
import re
from collections import deque
from mirlib import Fn, MustFacts, Sem, place_key

# callees that return (a view of) their first argument: the access path goes through them
TRANSPARENT = re.compile(
    r"core::ops::deref::Deref(Mut)?>::deref(_mut)?$|core::clone::Clone>::clone$|^core::clone::Clone::clone$"
    r"|core::convert::AsRef<.*>>::as_ref$|core::borrow::Borrow<.*>>::borrow$|::as_str$|::as_slice$|::as_ref$|::as_deref$|::as_mut$"
    r"|::as_path$|::to_owned$|::to_string$|::to_path_buf$|core::convert::(Into|From)<.*>>::(into|from)$|^core::convert::(Into|From)::(into|from)$"
    r"|IntoIterator>::into_iter$|IntoIterator for .*>::into_iter$|core::slice::<impl \[T\]>::iter(_mut)?$|::iter(_mut)?$|core::option::Option::<T>::(unwrap|expect|unwrap_or_default|cloned|copied)$"
    r"|core::result::Result::<T, E>::(unwrap|expect)$|alloc::rc::Rc::<T>::new$|alloc::boxed::Box::<T>::new$|alloc::sync::Arc::<T>::new$"
    r"|alloc::string::String::from$|alloc::borrow::ToOwned>::to_owned$|alloc::string::ToString>::to_string$|<str as alloc::string::SpecToString>::spec_to_string$")


def access_path(fn, op, depth=30, extra_transparent=None, adapters=None):
    """(root, path) of an operand through single-definition temporaries, references and transparent calls.
    root: ("arg", i) | ("const", v) | ("call", callee, bb) | ("phi", local) | ("local", local) | ("agg", kind) | ("op", name)
    path: tuple of field / variant names traversed from the root ("[]" for an index, derefs are dropped).
    adapters (list) collects the names of non-transparent calls recognised by extra_transparent that were stepped through."""
    if op[0] == "k":
        k = op[1]
        for key in ("str", "int", "const", "fn"):
            if key in k:
                return ("const", k[key]), ()
        return ("const", k.get("v")), ()
    return _place_path(fn, op[1], depth, extra_transparent, adapters)


def _projnames(proj):
    out = []
    for p in proj:
        if p == "*":
            continue
        if isinstance(p, list):
            if p[0] == "f":
                out.append(p[2])
            elif p[0] == "v":
                out.append(p[1])
            elif p[0] == "i":
                out.append("[]")
            else:
                out.append("[]")
        else:
            out.append("[]")
    return tuple(out)


def _place_path(fn, pl, depth, extra, adapters):
    root, path = _local_path(fn, pl[0], depth, extra, adapters)
    return root, path + _projnames(pl[1])


def _local_path(fn, l, depth, extra, adapters):
    if 1 <= l <= fn.nargs:
        return ("arg", l), ()
    if depth <= 0:
        return ("local", l), ()
    ds = fn.defs.get(l, [])
    if len(ds) != 1:
        return (("phi", l) if ds else ("local", l)), ()
    d = ds[0]
    if d[0] == "c":
        t = fn.blocks[d[1]]["t"]
        c = t.get("callee") or ""
        if t["args"] and (TRANSPARENT.search(c) or (extra and extra.search(c))):
            if adapters is not None and not TRANSPARENT.search(c):
                adapters.append(c)
            a = t["args"][0]
            if a[0] == "k":
                return access_path(fn, a)
            return _place_path(fn, a[1], depth - 1, extra, adapters)
        return ("call", c, d[1]), ()
    rv = fn.rvalue_at(d)
    k = rv[0]
    if k == "use":
        if rv[1][0] == "k":
            return access_path(fn, rv[1])
        return _place_path(fn, rv[1][1], depth - 1, extra, adapters)
    if k in ("ref", "ptr"):
        return _place_path(fn, rv[2], depth - 1, extra, adapters)
    if k == "cast":
        if rv[2][0] == "k":
            return access_path(fn, rv[2])
        return _place_path(fn, rv[2][1], depth - 1, extra, adapters)
    if k == "agg":
        kind = rv[1]
        kk = kind if isinstance(kind, str) else (kind.get("adt") or "closure")
        return ("agg", kk, d[1], d[2]), ()
    if k in ("bin", "un"):
        return ("op", rv[1], d[1], d[2]), ()
    if k == "discr":
        r, p = _place_path(fn, rv[1], depth - 1, extra, adapters)
        return r, p + ("#discr",)
    return ("local", l), ()


def fmt_path(rp, fn=None):
    root, path = rp
    if root[0] == "arg":
        base = fn.name(root[1]) if fn is not None and fn.name(root[1]) else "arg%d" % root[1]
    elif root[0] == "call":
        base = (root[1] or "?").split("::")[-1] + "()"
    elif root[0] == "const":
        base = repr(root[1])
    else:
        base = "%s" % (root[0],)
    return ".".join((base,) + tuple(path))


def escapes(fn, start, gate_blocks, stops=(), feasible=False):
    """Blocks of kind 'ret' (or members of stops) reachable from start without passing through a gate block.
    Empty result = every path from start to a return passes a gate.
    feasible=True: paths are pruned with the must-facts engine (constant bool temporaries of `matches!`/`&&` lowering)."""
    gate = set(gate_blocks)
    if start in gate:
        return []
    if feasible:
        m = MustFacts(fn, avoid=gate, entry=start)
        live = m.feasible_blocks()
        out = []
        for b in sorted(live):
            if fn.blocks[b].get("cu"):
                continue
            if fn.blocks[b]["t"]["t"] == "ret" or (b in set(stops) and b != start):
                out.append(b)
        return out
    seen = set()
    dq = deque([start])
    out = []
    stops = set(stops)
    while dq:
        b = dq.popleft()
        if b in seen or b in gate:
            continue
        seen.add(b)
        if fn.blocks[b].get("cu"):
            continue
        if b in stops and b != start:
            out.append(b)
            continue
        if fn.blocks[b]["t"]["t"] == "ret":
            out.append(b)
            continue
        for s in fn.succ[b]:
            dq.append(s)
    return out


def enum_switches(fn, enum_rx):
    """[(bb, terminator)] of discriminant switches over an enum whose path matches enum_rx."""
    rx = re.compile(enum_rx)
    out = []
    for bi, b in enumerate(fn.blocks):
        if b.get("cu"):
            continue
        t = b["t"]
        if t["t"] == "sw" and t.get("enum") and rx.search(t["enum"]):
            out.append((bi, t))
    return out


def arms(fn, t):
    """variant name -> target block; variants not listed go to the else target (None if that block is `unreachable`)."""
    out = {}
    listed = set()
    for v, tgt, vn in t["vals"]:
        out[vn] = tgt
        listed.add(vn)
    els = t["else"]
    els_unreachable = fn.blocks[els]["t"]["t"] == "unreachable"
    for vn in t.get("variants", []):
        if vn not in listed:
            out[vn] = None if els_unreachable else els
    return out, (not els_unreachable and any(vn not in listed for vn in t.get("variants", [])))


def loops_over(fn, next_rx=r"Iterator>::next$|Iterator for .*>::next$|::Iterator::next$"):
    """[(head_bb, next_terminator, some_bb, none_bb, item_local)] for `for` loops (a next() call whose Option result is switched on)."""
    out = []
    rx = re.compile(next_rx)
    for bi, t in fn.calls():
        if not rx.search(t.get("callee") or ""):
            continue
        to = t.get("to")
        if to is None:
            continue
        tt = fn.blocks[to]["t"]
        if tt["t"] != "sw" or not (tt.get("enum") or "").endswith("option::Option"):
            continue
        some = none = None
        for v, tgt, vn in tt["vals"]:
            if vn == "Some":
                some = tgt
            elif vn == "None":
                none = tgt
        if some is None:
            some = tt["else"]
        if none is None:
            none = tt["else"]
        out.append((bi, t, some, none, t["dst"][0]))
    return out


def call_blocks(fn, callee_rx, argpred=None):
    """Blocks whose terminator is a (non-cleanup) call matching callee_rx and argpred(fn, terminator)."""
    out = []
    for bi, t in fn.calls(callee_rx):
        if argpred is None or argpred(fn, t):
            out.append(bi)
    return out


def field_writes(fn, adt_rx, field):
    """[(bb, si, stmt)] assignments whose destination ends in field `field` of an ADT matching adt_rx."""
    rx = re.compile(adt_rx)
    out = []
    for bi, b in enumerate(fn.blocks):
        if b.get("cu"):
            continue
        for si, s in enumerate(b["s"]):
            if s[0] != "=":
                continue
            pr = [p for p in s[1][1] if isinstance(p, list) and p[0] == "f"]
            if pr and pr[-1][2] == field and rx.search(pr[-1][3] or ""):
                # the last projection must be that field (writes *through* the field do not count)
                last = s[1][1][-1]
                if isinstance(last, list) and last[0] == "f" and last[2] == field:
                    out.append((bi, si, s))
    return out


def mode_at(fn, mf, bb, place_local):
    """Variant an enum-typed local must hold at entry of bb (from discriminant switches), or None."""
    F = mf.at_entry(bb)
    if F is None:
        return "UNREACHABLE"
    for a in F:
        if a[0] == "variant" and a[1][0] == place_local:
            return a[2]
    return None


def access_paths(fn, op, extra_transparent=None, depth=6):
    """Set of (root, path) an operand may have, expanding multi-definition locals (phi) up to `depth` levels."""
    out = set()

    def go(o, d, suffix):
        r, p = access_path(fn, o, extra_transparent=extra_transparent)
        if r[0] == "phi" and d > 0:
            l = r[1]
            for df in fn.defs.get(l, []):
                if df[0] == "c":
                    t = fn.blocks[df[1]]["t"]
                    c = t.get("callee") or ""
                    if t["args"] and (TRANSPARENT.search(c) or (extra_transparent and extra_transparent.search(c))):
                        go(t["args"][0], d - 1, p + suffix)
                    else:
                        out.add((("call", c, df[1]), p + suffix))
                else:
                    rv = fn.rvalue_at(df)
                    if rv[0] == "use":
                        go(rv[1], d - 1, p + suffix)
                    elif rv[0] in ("ref", "ptr"):
                        go(["c", rv[2]], d - 1, p + suffix)
                    elif rv[0] == "cast":
                        go(rv[2], d - 1, p + suffix)
                    else:
                        out.add((("op", rv[0], df[1], df[2]), p + suffix))
        else:
            out.add((r, p + suffix))
    go(op, depth, ())
    return out


def enumerate_paths(fn, start, targets, avoid=(), limit=20000):
    """Acyclic normal-edge paths from `start` to any block of `targets` that never enter `avoid`.
    Each path is a list of (block, successor) edges. Constant bool temporaries (`_t = const true; switch _t`) are
    followed only along their feasible edge. Raises OverflowError beyond `limit` paths (the caller reports undecided)."""
    targets = set(targets)
    avoid = set(avoid)
    out = []

    def consts_in(b, env):
        env = dict(env)
        for s in fn.blocks[b]["s"]:
            if s[0] == "=" and not s[1][1]:
                rv = s[2]
                if rv[0] == "use" and rv[1][0] == "k" and "int" in rv[1][1]:
                    env[s[1][0]] = str(rv[1][1]["int"])
                elif rv[0] == "use" and rv[1][0] != "k" and not rv[1][1][1] and rv[1][1][0] in env:
                    env[s[1][0]] = env[rv[1][1][0]]
                else:
                    env.pop(s[1][0], None)
        t = fn.blocks[b]["t"]
        if t["t"] == "call" and not t["dst"][1]:
            env.pop(t["dst"][0], None)
        return env

    def succs(b, env):
        t = fn.blocks[b]["t"]
        if t["t"] == "sw" and t["on"][0] != "k" and not t["on"][1][1] and t["on"][1][0] in env and not t.get("enum"):
            v = env[t["on"][1][0]]
            for val, tgt, vn in t["vals"]:
                if str(val) == v:
                    return [tgt]
            return [t["else"]]
        return [s for s in fn.succ[b]]

    def dfs(b, path, seen, env):
        if len(out) > limit:
            raise OverflowError("too many paths")
        if b in targets and path:
            out.append(list(path))
            return
        env2 = consts_in(b, env)
        for s in succs(b, env2):
            if s in avoid or s in seen or fn.blocks[s].get("cu"):
                continue
            path.append((b, s))
            seen.add(s)
            dfs(s, path, seen, env2)
            seen.discard(s)
            path.pop()

    dfs(start, [], {start}, {})
    return out


def path_facts(fn, path, depth=14):
    """Semantic facts established by the branch outcomes along one path (see mirlib.Sem.facts for the vocabulary)."""
    sem = Sem(fn, depth)
    atoms = set()
    for b, s in path:
        t = fn.blocks[b]["t"]
        if t["t"] == "sw":
            on = t["on"]
            if t.get("enum"):
                pk = place_key(t["of"])
                hit = [vn for v, tgt, vn in t["vals"] if tgt == s]
                if len(hit) == 1 and not (s == t["else"] and len(hit) == 0):
                    atoms.add(("variant", pk, hit[0]))
                elif s == t["else"]:
                    rest = [vn for vn in t.get("variants", []) if vn not in [x[2] for x in t["vals"]]]
                    if len(rest) == 1:
                        atoms.add(("variant", pk, rest[0]))
            elif on[0] != "k" and not on[1][1]:
                l = on[1][0]
                hit = [v for v, tgt, vn in t["vals"] if tgt == s]
                if t.get("ty") == "bool" or fn.ty(l) == "bool":
                    if hit and s != t["else"]:
                        atoms.add(("val", l, str(hit[0]) != "0"))
                    elif s == t["else"] and len(t["vals"]) == 1:
                        atoms.add(("val", l, str(t["vals"][0][0]) == "0"))
        elif t["t"] == "call":
            atoms.add(("calledbb", b))
            if t.get("callee"):
                atoms.add(("called", t["callee"]))
    return sem.facts(atoms) | {a for a in atoms if a[0] in ("called",)}


def contradictory(facts):
    """a path whose branch outcomes disagree about the same expression (e.g. a flag re-read and taken both ways) is infeasible"""
    seen = {}
    for x in facts:
        if x[0] == "flag":
            k = ("flag", repr(x[1]))
            v = x[2]
        elif x[0] == "call":
            k = ("call", x[1], repr(x[3]))
            v = x[2]
        else:
            continue
        if k in seen and seen[k] != v:
            return True
        seen[k] = v
    return False
