"""Walker must-visit engine (DESIGN.md P9): does a syntax-tree walker method visit every child of its node, in order?

The generated grammar gives every non-terminal an ADT (struct or enum) and a walker method of the same (snake-case) name; auxiliary ADTs
(`FooOpt`, `FooList`, `FooGroup`, enum payload structs) have no method and are traversed inline by the method of the node that contains
them. For a method M(self, arg: &Node) the engine derives from the ADT facts the ordered list of *leaves*: field chains from Node through
auxiliary ADTs down to the first ADT that has its own method. From M's MIR it collects the *visits*: calls of walker methods whose
argument is a view of `arg` (or of an item of a loop over a Vec reached from `arg`), normalised to the same field chains.

Obligations per method:
  covered   every leaf has a visit that calls the method of the leaf's node type
  present   from the start of the leaf's presence context (function entry / Some arm / loop body / variant arm) every path to the
            return (or to the next iteration) passes a visit of the leaf - a visit cannot be skipped by an extra condition
  ordered   no visit of leaf i+1 reaches a visit of leaf i within one iteration (tokens are written in source order)
  context   the Option test / Vec loop / variant switch that guards a leaf is itself reached on every path of its own context
"""
import re
from mirlib import Fn
import flow

SKIP = {"0", "pointer", "Some"}


def snake(name):
    # parol's convention: every upper-case letter starts a word (LTMinus -> l_t_minus, I32 -> i32)
    return re.sub(r"(?<!^)([A-Z])", r"_\1", name).lower()


def norm(path):
    return tuple(p for p in path if p not in SKIP)


class Grammar:
    def __init__(self, w, gen_prefix, trait_prefix):
        """gen_prefix: module path of the generated ADTs; trait_prefix: path prefix of the walker trait's provided methods"""
        self.w = w
        self.gen = gen_prefix
        self.trait = trait_prefix
        self.adts = {a[len(gen_prefix):]: x for a, x in w.adts.items() if a.startswith(gen_prefix) and "::" not in a[len(gen_prefix):]}
        self.methods = {}
        for p in w.fns:
            if p.startswith(trait_prefix) and "::" not in p[len(trait_prefix):] and "{" not in p:
                self.methods[p[len(trait_prefix):].replace("r#", "")] = p
        self.node_of = {}
        for a in self.adts:
            m = snake(a)
            if m in self.methods:
                self.node_of[m] = a
        self.method_of = {a: m for m, a in self.node_of.items()}
        if "veryl_token" in self.methods:
            self.method_of["<token>"] = "veryl_token"

    def inner(self, field):
        """(generated ADT simple name or None, wrapper kind) of a field"""
        gens = [x[len(self.gen):] for x in field.get("adts", []) if x.startswith(self.gen)]
        ty = field.get("ty", "")
        if not gens and re.search(r"veryl_token::VerylToken$", ty):
            gens = ["<token>"]
        kind = "plain"
        if ty.startswith("core::option::Option<"):
            kind = "opt"
        elif ty.startswith("alloc::vec::Vec<"):
            kind = "vec"
        return (gens[0] if gens else None), kind

    def leaves(self, node):
        """ordered [(chain, child ADT, contexts)] ; contexts = [(kind, chain-prefix)] for every Option / Vec / variant on the way"""
        out = []

        def expand(adt_name, chain, ctx, depth):
            adt = self.adts.get(adt_name)
            if adt is None or depth > 8:
                return
            if adt["kind"] == "enum":
                for v in adt["variants"]:
                    c2 = ctx + [("variant", chain, v["name"])]
                    for f in v["fields"]:
                        child, kind = self.inner(f)
                        if child is None:
                            continue
                        ch = chain + (v["name"],) + (() if f["name"] in SKIP else (f["name"],))
                        step(child, kind, ch, c2, depth)
            else:
                for f in adt["variants"][0]["fields"]:
                    child, kind = self.inner(f)
                    if child is None:
                        continue
                    step(child, kind, chain + (f["name"],), ctx, depth)

        def step(child, kind, ch, ctx, depth):
            c2 = ctx + ([(kind, ch, None)] if kind in ("opt", "vec") else [])
            if child in self.method_of:
                out.append((ch, child, c2))
            else:
                expand(child, ch, c2, depth + 1)
        expand(node, (), [], 0)
        return out


class MethodWalk:
    def __init__(self, gr, fn_path, node, arg_name="arg", extra_methods=None):
        self.gr = gr
        self.p = fn_path
        self.node = node
        self.g = g = Fn(gr.w.mir(fn_path))
        self.arg = None
        for i in range(1, g.nargs + 1):
            if g.name(i) == arg_name:
                self.arg = i
        if self.arg is None and g.nargs >= 2:
            self.arg = 2
        self.loops = {}
        for head, t, some, none, item in flow.loops_over(g):
            ad = []
            r, pth = flow.access_path(g, t["args"][0], adapters=ad)
            self.loops[head] = {"root": r, "path": pth, "some": some, "none": none, "adapters": ad, "t": t}
        self.visits = []   # (bb, method name, chain, terminator)
        names = set(gr.methods) | set(extra_methods or ())
        for bi, t in g.calls():
            c = t.get("callee") or ""
            mname = c.split("::")[-1].replace("r#", "")
            if mname not in names or len(t["args"]) < 2:
                continue
            if not (c.startswith(gr.trait) or re.search(r" as " + re.escape(gr.trait[:-2]) + r">::", c)):
                continue
            ch = self.chain_of(t["args"][1])
            if ch is not None:
                self.visits.append((bi, mname, ch, t))

    def chain_of(self, op, depth=0):
        g = self.g
        try:
            r, pth = flow.access_path(g, op)
        except Exception:
            return None
        if r == ("arg", self.arg):
            return norm(pth)
        if r[0] == "call" and len(r) > 2 and r[2] in self.loops and depth < 4:
            lp = self.loops[r[2]]
            base = self.root_chain(lp["root"], lp["path"], depth + 1)
            if base is None:
                return None
            return base + norm(pth)
        return None

    def root_chain(self, r, pth, depth):
        if r == ("arg", self.arg):
            return norm(pth)
        if r[0] == "call" and len(r) > 2 and r[2] in self.loops and depth < 4:
            lp = self.loops[r[2]]
            base = self.root_chain(lp["root"], lp["path"], depth + 1)
            return None if base is None else base + norm(pth)
        return None

    # ---- presence contexts ---------------------------------------------------------------------------------
    def ctx_start(self, ctx):
        """(start block, stops, guard block) of a context, or None if its test / loop is not found"""
        g = self.g
        kind, ch, vname = ctx
        if kind == "vec":
            for head, lp in self.loops.items():
                if self.root_chain(lp["root"], lp["path"], 0) == ch:
                    return lp["some"], [head], head
            return None
        for bb, t in flow.enum_switches(g, r"."):
            if t.get("of") is None:
                continue
            try:
                r, pth = flow.access_path(g, ["c", t["of"]])
            except Exception:
                continue
            c2 = self.root_chain(r, pth, 0)
            if c2 != ch:
                continue
            want = "Some" if kind == "opt" else vname
            for v, tgt, vn in t["vals"]:
                if vn == want:
                    return tgt, [], bb
            if kind == "opt" and [vn for v, tgt, vn in t["vals"]] == ["None"]:
                return t["else"], [], bb
            if kind == "variant":
                # the variant may be the fall-through arm of an exhaustive match
                listed = [vn for v, tgt, vn in t["vals"]]
                if vname not in listed and t.get("else") is not None and not g.blocks[t["else"]].get("unreachable"):
                    return t["else"], [], bb
        return None


def check_method(ck, rule, gr, fn_path, node, label, allow_missing=(), sitefn=None, extra_methods=None):
    """emit obligations for one walker method; returns (n_leaves, n_visits)"""
    from core import site
    mw = MethodWalk(gr, fn_path, node, extra_methods=extra_methods)
    g = mw.g
    sx = gr.w.fns[fn_path]
    leaves = gr.leaves(node)
    allow = {tuple(a) for a in allow_missing}
    problems = []
    und = []
    vis_by_chain = {}
    for bi, m, ch, t in mw.visits:
        vis_by_chain.setdefault(ch, []).append((bi, m, t))
    expected = {ch: child for ch, child, ctx in leaves}
    prev = None
    for ch, child, ctxs in leaves:
        if ch in allow:
            if ch in vis_by_chain:
                problems.append("`%s` is on the allow-list of deliberately dropped children but is visited" % ".".join(ch))
            continue
        want = gr.method_of[child]
        vs = [(bi, m, t) for bi, m, t in vis_by_chain.get(ch, []) if m == want]
        if not vs:
            other = [m for bi, m, t in vis_by_chain.get(ch, [])]
            problems.append("child `%s` (%s) is never visited%s" % (".".join(ch), child, " (visited through %s instead)" % other if other else ""))
            prev = None
            continue
        gates = [bi for bi, m, t in vs]
        # presence: innermost context
        start, stops = 0, []
        ok_ctx = True
        outer_start, outer_stops = 0, []
        for c in ctxs:
            cs = mw.ctx_start(c)
            if cs is None:
                und.append("the %s guarding `%s` was not recognised" % ({"opt": "Option test", "vec": "loop", "variant": "variant switch"}[c[0]], ".".join(ch)))
                ok_ctx = False
                break
            s2, st2, guard = cs
            esc = flow.escapes(g, outer_start, [guard], stops=outer_stops)
            if esc:
                problems.append("the %s for `%s` can be bypassed (blocks %s)" % ({"opt": "Option test", "vec": "loop", "variant": "variant switch"}[c[0]], ".".join(c[1]), esc))
            outer_start, outer_stops = s2, (st2 or outer_stops)
        if ok_ctx:
            start, stops = outer_start, outer_stops
            esc = flow.escapes(g, start, gates, stops=stops)
            if esc:
                problems.append("child `%s` can be skipped: a path from block %d reaches %s without visiting it" % (".".join(ch), start, esc))
        # order against the previous leaf
        if prev is not None:
            pch, pgates = prev
            heads = [h for h, lp in mw.loops.items() if all(b in g.reach_from(lp["some"], avoid=[h]) for b in gates + pgates)]
            for bj in gates:
                rj = g.reach_from(g.blocks[bj]["t"].get("to", bj), avoid=heads) if g.blocks[bj]["t"].get("to") is not None else set()
                if any(bi in rj for bi in pgates):
                    problems.append("`%s` is visited before `%s`: tokens would be written out of source order" % (".".join(ch), ".".join(pch)))
                    break
        prev = (ch, gates)
    # visits of something that is not a leaf of this node
    for ch, lst in vis_by_chain.items():
        if ch not in expected:
            und.append("visit of `%s` through %s does not correspond to a child of %s" % (".".join(ch), sorted({m for _, m, _ in lst}), node))
    verdict = False if problems else (None if und else True)
    ck.ob(rule, label, verdict, site(sx), (
        "%s visits all %d children of %s in order" % (label, len(leaves) - len(allow & set(expected)), node) if verdict else "; ".join(problems + und)))
    return len(leaves), len(mw.visits)
