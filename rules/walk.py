"""Walker must-visit engine (DESIGN.md P9): does a syntax-tree walker method visit every child of its node, in order?

The generated grammar gives every non-terminal an ADT (struct or enum) and a walker method of the same (snake-case) name; auxiliary ADTs
(`FooOpt`, `FooList`, `FooGroup`, enum payload structs) have no method and are traversed inline by the method of the node that contains
them. For a method M(self, arg: &Node) the engine derives from the ADT facts the ordered list of *leaves*: field chains from Node through
auxiliary ADTs down to the first ADT that has its own method (VerylToken fields are leaves of the token sink). From M's MIR it collects
the *visits*: calls whose argument is a view of `arg` (or of an item of a loop over a Vec reached from `arg`), normalised to the same
field chains. A visit is a call of
  - the walker method of the child's node type,
  - a token sink (`veryl_token`, and for a hand-written walker its own `token*` helpers) on the token field of a terminal child,
  - an inherent helper with a parameter of the child's node type (checked separately as a walker of that type), or
  - deeper calls that together cover every leaf of the child (the child's walker inlined into M).

Obligations per method:
  covered   every leaf has a visit
  present   on every path from the function entry to a return the leaf is visited, unless the path takes an *absence edge* of one of the
            leaf's contexts (None arm of the Option on the way, another variant's arm, `is_empty()` of the Vec); inside a loop over the
            Vec on the way every iteration visits it. An extra condition around a visit therefore shows up as a path that skips it.
  ordered   no visit of leaf i+1 reaches a visit of leaf i within one iteration (tokens are written in source order)
"""
import re
from mirlib import Fn
import flow

SKIP = {"pointer", "Some"}
ADAPT = re.compile(r"Iterator::(enumerate|peekable|by_ref)$")


def snake(name):
    # parol's convention: every upper-case letter starts a word (LTMinus -> l_t_minus, I32 -> i32)
    return re.sub(r"(?<!^)([A-Z])", r"_\1", name).lower()


def norm(path):
    return tuple(p for p in path if p not in SKIP and not str(p).isdigit())


class Grammar:
    def __init__(self, w, gen_prefix, trait_prefix):
        """gen_prefix: module path of the generated ADTs; trait_prefix: path prefix of the walker trait's provided methods"""
        self.w = w
        self.gen = gen_prefix
        self.trait = trait_prefix
        self.adts = {a[len(gen_prefix):]: x for a, x in w.adts.items() if a.startswith(gen_prefix) and "::" not in a[len(gen_prefix):]}
        self.methods = {}
        for p in w.fns:
            if p.startswith(trait_prefix) and "::" not in p[len(trait_prefix):] and "{" not in p:
                self.methods[p[len(trait_prefix):].replace("r#", "")] = p
        self.node_of = {}
        for a in self.adts:
            m = snake(a)
            if m in self.methods:
                self.node_of[m] = a
        self.method_of = {a: m for m, a in self.node_of.items()}
        if "veryl_token" in self.methods:
            self.method_of["<token>"] = "veryl_token"
        self._leaves = {}

    def inner(self, field):
        """(generated ADT simple name or None, wrapper kind) of a field"""
        gens = [x[len(self.gen):] for x in field.get("adts", []) if x.startswith(self.gen)]
        ty = field.get("ty", "")
        if not gens and re.search(r"veryl_token::VerylToken$", ty):
            gens = ["<token>"]
        kind = "plain"
        if ty.startswith("core::option::Option<"):
            kind = "opt"
        elif ty.startswith("alloc::vec::Vec<"):
            kind = "vec"
        return (gens[0] if gens else None), kind

    def leaves(self, node):
        """ordered [(chain, child ADT, contexts)] ; contexts = [(kind, chain-prefix, variant)] for every Option / Vec / variant on the way"""
        if node in self._leaves:
            return self._leaves[node]
        out = []

        def expand(adt_name, chain, ctx, depth):
            adt = self.adts.get(adt_name)
            if adt is None or depth > 8:
                return
            if adt["kind"] == "enum":
                for v in adt["variants"]:
                    c2 = ctx + [("variant", chain, v["name"])]
                    for f in v["fields"]:
                        child, kind = self.inner(f)
                        if child is None:
                            continue
                        ch = chain + (v["name"],) + (() if str(f["name"]).isdigit() else (f["name"],))
                        step(child, kind, ch, c2, depth)
            else:
                for f in adt["variants"][0]["fields"]:
                    child, kind = self.inner(f)
                    if child is None:
                        continue
                    step(child, kind, chain + (f["name"],), ctx, depth)

        def step(child, kind, ch, ctx, depth):
            c2 = ctx + ([(kind, ch, None)] if kind in ("opt", "vec") else [])
            if child in self.method_of:
                out.append((ch, child, c2))
            else:
                expand(child, ch, c2, depth + 1)
        expand(node, (), [], 0)
        self._leaves[node] = out
        return out

    def token_field(self, node):
        """name of the single VerylToken field of a terminal node, else None"""
        adt = self.adts.get(node)
        if not adt or adt["kind"] != "struct":
            return None
        fs = adt["variants"][0]["fields"]
        if len(fs) == 1 and re.search(r"veryl_token::VerylToken$", fs[0].get("ty", "")):
            return fs[0]["name"]
        return None


class MethodWalk:
    def __init__(self, gr, fn_path, arg_local=None, impl_prefix=None, token_sinks=(), helpers=None, closure_takers=(), root_map=None, banned=None):
        """helpers: {fn path: {param local: node type}} inherent functions accepted as walkers of a node type;
        closure_takers: functions that run a closure argument exactly once (its visits count at the call site);
        root_map: for a closure body, {upvar field name: chain in the enclosing method}; banned: edges never taken while emitting"""
        self.gr = gr
        self.root_map = root_map
        self.global_banned = set(banned(Fn(gr.w.mir(fn_path))) if banned else ())
        self._kw = dict(impl_prefix=impl_prefix, token_sinks=token_sinks, helpers=helpers, closure_takers=closure_takers, banned=banned)
        self.p = fn_path
        self.g = g = Fn(gr.w.mir(fn_path))
        self.arg = arg_local
        if self.arg is None:
            for i in range(1, g.nargs + 1):
                if g.name(i) == "arg":
                    self.arg = i
            if self.arg is None and g.nargs >= 2:
                self.arg = 2
        self.loops = {}
        for head, t, some, none, item in flow.loops_over(g):
            ad = []
            r, pth = flow.access_path(g, t["args"][0], extra_transparent=ADAPT, adapters=ad)
            self.loops[head] = {"root": r, "path": pth, "some": some, "none": none, "adapters": [a for a in ad if not ADAPT.search(a)], "t": t}
        self.visits = []   # (bb, kind, name, chain, terminator) kind: method | token | helper
        self.opaque = []   # (bb, callee, chain) workspace calls that take part of the node and are not understood
        names = set(gr.methods)
        for bi, t in g.calls():
            c = t.get("callee") or ""
            last = c.split("::")[-1].replace("r#", "")
            is_walker = last in names and (c.startswith(gr.trait) or re.search(r" as " + re.escape(gr.trait[:-2]) + r">::", c))
            if is_walker and len(t["args"]) >= 2:
                ch = self.chain_of(t["args"][1])
                if ch is not None:
                    self.visits.append((bi, "method", last, ch, t))
                continue
            if c in token_sinks or (impl_prefix and c.startswith(impl_prefix) and last in token_sinks):
                for a in t["args"][1:]:
                    ch = self.chain_of(a)
                    if ch:
                        self.visits.append((bi, "token", last, ch, t))
                continue
            if c in closure_takers:
                self._inline_closures(bi, t)
                continue
            if not (helpers and c in helpers) and (c.startswith("veryl_") or c.startswith("<veryl_")) and \
                    not re.search(r"::VerylGrammarTrait::|::Handler::", c) and not re.search(r"::(clone|as_ref|deref|borrow|into|from|first|last|text|is_\w+|len|iter)$", c):
                # a workspace function the engine knows nothing about receives part of the node: what it does with it is unknown
                for a in t["args"]:
                    ch = self.chain_of(a)
                    if ch is not None:
                        self.opaque.append((bi, c, ch))
            if helpers and c in helpers:
                for k, a in enumerate(t["args"]):
                    spec = helpers[c].get(k + 1)
                    if spec is None:
                        continue
                    ty, part = spec if isinstance(spec, tuple) else (spec, None)
                    ch = self.chain_of(a)
                    if ch is None:
                        continue
                    if part is None:
                        self.visits.append((bi, "helper", ty, ch, t))
                    else:
                        # a helper that writes only some children of its parameter: it stands for visits of exactly those
                        for sub, child in part:
                            self.visits.append((bi, "helper", child, ch + sub, t))

    def _inline_closures(self, bi, t):
        """visits made by a closure passed to a run-once helper, translated into this method's chains, placed at the call"""
        g = self.g
        for a in t["args"]:
            if a[0] == "k":
                continue
            d = g.def_of(a[1][0])
            rv = g.rvalue_at(d) if d and d[0] == "s" else None
            if not (rv and rv[0] == "agg" and isinstance(rv[1], dict) and rv[1].get("closure")):
                continue
            cpath = rv[1]["closure"]
            if cpath not in self.gr.w.fns:
                continue
            cg = Fn(self.gr.w.mir(cpath))
            idx = {}
            for b in cg.blocks:
                for st in b["s"]:
                    for pl in _places(st):
                        if pl[0] == 1:
                            for q in pl[1]:
                                if isinstance(q, list) and q[0] == "f" and q[2] not in idx:
                                    idx[q[2]] = q[1]
                                    break
            rmap = {}
            for name, k in idx.items():
                if k < len(rv[2]):
                    ch = self.chain_of(rv[2][k])
                    if ch is not None:
                        rmap[name] = ch
            sub = MethodWalk(self.gr, cpath, arg_local=1, root_map=rmap, **self._kw)
            self.closure_problems = getattr(self, "closure_problems", [])
            for (cb, kind, name, ch, ct) in sub.visits:
                # inside the closure the visit must not be skippable either
                gates = [v[0] for v in sub.visits if v[3] == ch]
                self.visits.append((bi, kind, name, ch, t))
            self.sub_walks = getattr(self, "sub_walks", []) + [(bi, sub)]

    def chain_of(self, op, depth=0):
        g = self.g
        try:
            r, pth = flow.access_path(g, op, extra_transparent=ADAPT)
        except Exception:
            return None
        return self.root_chain(r, pth, depth)

    def root_chain(self, r, pth, depth):
        if r == ("arg", self.arg):
            if self.root_map is not None:
                # closure environment: the first projection names the captured place
                pp = [q for q in pth if q not in ("*",)]
                if pp and pp[0] in self.root_map:
                    return self.root_map[pp[0]] + norm(pp[1:])
                return None
            return norm(pth)
        if r[0] == "call" and len(r) > 2 and r[2] in self.loops and depth < 4:
            lp = self.loops[r[2]]
            base = self.root_chain(lp["root"], lp["path"], depth + 1)
            return None if base is None else base + norm(pth)
        return None

    # ---- absence edges of a context, loops of a context ----------------------------------------------------
    def absence_edges(self, ctx):
        g = self.g
        kind, ch, vname = ctx
        out = set()
        if kind == "vec":
            for bi, t in g.calls(r"(Vec::<T, A>|<impl \[T\]>)::is_empty$|::is_empty$"):
                if self.chain_of(t["args"][0]) != ch:
                    continue
                sw = g.blocks[t["to"]]["t"]
                if sw["t"] == "sw" and sw["on"][0] != "k" and sw["on"][1][0] == t["dst"][0] and len(sw["vals"]) == 1 and sw["vals"][0][0] == "0":
                    out.add((t["to"], sw["else"]))
            return out
        for bb, t in flow.enum_switches(g, r"."):
            if t.get("of") is None:
                continue
            try:
                r, pth = flow.access_path(g, ["c", t["of"]])
            except Exception:
                continue
            if self.root_chain(r, pth, 0) != ch:
                continue
            want = "Some" if kind == "opt" else vname
            listed = [vn for v, tgt, vn in t["vals"]]
            for v, tgt, vn in t["vals"]:
                if vn != want:
                    out.add((bb, tgt))
            if want in listed and t.get("else") is not None:
                out.add((bb, t["else"]))
        if kind == "opt":
            for bi, t in g.calls(r"core::option::Option::<T>::(is_some|is_none)$"):
                if self.chain_of(t["args"][0]) != ch:
                    continue
                sw = g.blocks[t["to"]]["t"]
                if sw["t"] == "sw" and sw["on"][0] != "k" and sw["on"][1][0] == t["dst"][0] and len(sw["vals"]) == 1 and sw["vals"][0][0] == "0":
                    none_edge = sw["vals"][0][1] if t["callee"].endswith("is_some") else sw["else"]
                    out.add((t["to"], none_edge))
        return out

    def loops_of(self, ch):
        return [(h, lp) for h, lp in self.loops.items() if self.root_chain(lp["root"], lp["path"], 0) == ch]

    def skip_path(self, start, gates, banned, stops):
        """can a return (or a stop) be reached from start without passing a gate and without taking a banned edge?"""
        g = self.g
        gates = set(gates)
        stops = set(stops)
        if start in gates:
            return None
        seen = set()
        work = [start]
        first = True
        while work:
            b = work.pop()
            if b in seen or g.blocks[b].get("cu"):
                continue
            if b in gates:
                continue
            if b in stops and not first:
                return b
            first = False
            seen.add(b)
            if g.blocks[b]["t"]["t"] == "ret":
                return b
            for sc in g.succ[b]:
                if (b, sc) not in banned:
                    work.append(sc)
        return None


class _Problems(list):
    """problem texts; .sig collects a stable signature (kind:chain) of each, so that a known finding names exactly what it covers"""
    def __init__(self):
        super().__init__()
        self.sig = []

    def add(self, kind, chain, text):
        self.append(text)
        self.sig.append("%s:%s" % (kind, ".".join(chain) if not isinstance(chain, str) else chain))

    def signature(self):
        return "+".join(sorted(set(self.sig)))


def _places(st):
    out = []
    if st[0] != "=":
        return out
    rv = st[2]

    def op(o):
        if isinstance(o, list) and o and o[0] in ("c", "m"):
            out.append(o[1])
    if rv[0] in ("use", "rep"):
        op(rv[1])
    elif rv[0] in ("ref", "ptr"):
        out.append(rv[2])
    elif rv[0] == "cast":
        op(rv[2])
    elif rv[0] == "discr":
        out.append(rv[1])
    elif rv[0] == "agg":
        for o in rv[2]:
            op(o)
    return out


def check_walker(gr, fn_path, node, arg_local=None, allow_missing=(), impl_prefix=None, token_sinks=(), helpers=None, closure_takers=(), banned=None):
    """-> (problems, undecided, n_leaves)"""
    mw = MethodWalk(gr, fn_path, arg_local=arg_local, impl_prefix=impl_prefix, token_sinks=token_sinks, helpers=helpers,
                    closure_takers=closure_takers, banned=banned)
    g = mw.g
    allow = {tuple(a) for a in allow_missing}
    problems, und = _Problems(), []
    used = set()

    def gates_for(ch, child, depth=0):
        """blocks that count as a visit of leaf (ch, child); None if not covered"""
        want = gr.method_of.get(child)
        gs = []
        for k, (bi, kind, name, vch, t) in enumerate(mw.visits):
            if vch == () and ((kind == "helper" and name == node) or (kind == "method" and name == gr.method_of.get(node))):
                gs.append(bi)     # the whole node handed to a helper that is itself checked as a walker of this node type
                used.add(k)
                continue
            if vch == ch and ((kind == "method" and name == want) or (kind == "helper" and name == child) or (kind == "token" and child == "<token>")):
                gs.append(bi)
                used.add(k)
            tf = gr.token_field(child) if child != "<token>" else None
            if tf and kind in ("token",) and vch == ch + (tf,):
                gs.append(bi)
                used.add(k)
            if tf and kind == "method" and name == "veryl_token" and vch == ch + (tf,):
                gs.append(bi)
                used.add(k)
        return gs

    def cover(ch, child, ctxs, depth):
        """-> list of (chain, child, ctxs, gates) actually checked (the leaf itself, or its sub-leaves when the child is inlined)"""
        gs = gates_for(ch, child)
        if gs:
            return [(ch, child, ctxs, gs)]
        if child != "<token>" and depth < 3 and any(v[3][:len(ch)] == ch and len(v[3]) > len(ch) for v in mw.visits):
            out = []
            for sch, schild, sctx in gr.leaves(child):
                sctx2 = [(k, ch + c, v) for k, c, v in sctx]
                out += cover(ch + sch, schild, ctxs + sctx2, depth + 1)
            return out
        return [(ch, child, ctxs, [])]

    items = []
    for ch, child, ctxs in gr.leaves(node):
        if ch in allow:
            if gates_for(ch, child):
                pass
            continue
        items += cover(ch, child, ctxs, 0)
    prev = None
    for ch, child, ctxs, gates in items:
        if not gates:
            other = sorted({v[2] for v in mw.visits if v[3] == ch})
            via = sorted({c.split("::")[-1] for b, c, och in mw.opaque if ch[:len(och)] == och})
            if via:
                und.append("child `%s` is not visited directly; the node part containing it is handed to %s, which the engine does not follow" % (".".join(ch), via))
                prev = None
                continue
            problems.add("unvisited", ch, "child `%s` (%s) is never visited%s" % (".".join(ch), child, " (only through %s)" % other if other else ""))
            prev = None
            continue
        # presence, level by level (a level ends at each Vec on the way)
        levels = [[]]
        for c in ctxs:
            if c[0] == "vec":
                levels[-1].append(c)
                levels.append([])
            else:
                levels[-1].append(c)
        starts = [(0, [])]
        for li, lv in enumerate(levels):
            banned = set(mw.global_banned)
            for c in lv:
                banned |= mw.absence_edges(c)
            vec = [c for c in lv if c[0] == "vec"]
            if vec:
                lps = mw.loops_of(vec[0][1])
                if not lps:
                    hv = [v[0] for v in mw.visits if v[1] == "helper" and v[0] in gates]
                    if hv and set(hv) == set(gates):
                        # the loop lives inside the helper the list was handed to (checked there): the call is the visit
                        for st, stops in starts:
                            b = mw.skip_path(st, gates, banned, stops)
                            if b is not None:
                                problems.add("skip", ch, "child `%s` can be skipped: a path from block %d reaches block %d without it" % (".".join(ch), st, b))
                        starts = []
                        break
                    und.append("no loop over `%s` found for child `%s`" % (".".join(vec[0][1]), ".".join(ch)))
                    starts = []
                    break
                for h, lp in lps:
                    if lp["adapters"]:
                        problems.add("adapter", vec[0][1], "the loop over `%s` uses %s" % (".".join(vec[0][1]), lp["adapters"]))
                lvl_gates = [h for h, lp in lps]
            else:
                lvl_gates = gates
            for st, stops in starts:
                b = mw.skip_path(st, lvl_gates, banned, stops)
                if b is not None:
                    what = "the loop over `%s`" % ".".join(vec[0][1]) if vec else "child `%s`" % ".".join(ch)
                    problems.add("skip", vec[0][1] if vec else ch, "%s can be skipped: a path from block %d reaches block %d without it" % (what, st, b))
            if vec:
                starts = [(lp["some"], [h]) for h, lp in lps]
        # order against the previous leaf
        if prev is not None:
            pch, pgates = prev
            heads = [h for h, lp in mw.loops.items() if all(b in g.reach_from(lp["some"], avoid=[h]) for b in gates + pgates)]
            for bj in gates:
                to = g.blocks[bj]["t"].get("to")
                rj = g.reach_from(to, avoid=heads) if to is not None else set()
                if any(bi in rj for bi in pgates) and not any(bj in g.reach_from(g.blocks[bi]["t"].get("to", bi), avoid=heads) for bi in pgates):
                    problems.add("order", ch, "`%s` is visited before `%s`: tokens would be written out of source order" % (".".join(ch), ".".join(pch)))
                    break
        prev = (ch, gates)
    for cb, sub in getattr(mw, "sub_walks", []):
        for ch in sorted({v[3] for v in sub.visits}):
            ctxs = [c for lch, lchild, lctx in gr.leaves(node) for c in lctx if lch[:len(ch)] == ch or ch[:len(lch)] == lch]
            ban = set(sub.global_banned)
            for lch, lchild, lctx in gr.leaves(node):
                if ch[:len(lch)] == lch or lch[:len(ch)] == ch:
                    for c in lctx:
                        ban |= sub.absence_edges(c)
            b = sub.skip_path(0, [v[0] for v in sub.visits if v[3] == ch], ban, [])
            if b is not None:
                problems.add("skip-in-closure", ch, "inside the closure passed at block %d, `%s` can be skipped" % (cb, ".".join(ch)))
    for k, v in enumerate(mw.visits):
        if k not in used:
            und.append("visit of `%s` through %s is not a child of %s" % (".".join(v[3]), v[2], node))
    return problems, und, len(items)


def check_method(ck, rule, gr, fn_path, node, label, allow_missing=(), **kw):  # noqa
    from core import site
    problems, und, n = check_walker(gr, fn_path, node, allow_missing=allow_missing, **kw)
    verdict = False if problems else (None if und else True)
    ck.ob(rule, label, verdict, site(gr.w.fns[fn_path]),
          "%s visits all %d children of %s in order" % (label, n, node) if verdict else "; ".join(problems + und))
    return n


def token_conversion_obligations(ck, R, w, crate):
    """every generated `XToken` ADT that has a `comments` field is converted to a VerylToken by an impl that reads that field and splits
    it (token_with_comments!); the tokens converted without comments are exactly those whose ADT has no such field."""
    from core import site
    G = crate + "::generated::veryl_grammar_trait::"
    toks = sorted(a for a in w.adts if a.startswith(G) and a.endswith("Token") and w.adts[a]["kind"] == "struct")
    impls = {}
    for p in w.fns:
        m = re.search(r"TryFrom<&(%s\w+Token)>>::try_from$" % re.escape(G), p)
        if m and "VerylToken" in p:
            impls[m.group(1)] = p
    n = 0
    for a in toks:
        has = any(f["name"] == "comments" for f in w.adts[a]["variants"][0]["fields"])
        if not has:
            continue
        n += 1
        p = impls.get(a)
        if p is None:
            ck.ob(R, "token-keeps-comments:" + a[len(G):], None, "", "no TryFrom<&%s> for VerylToken found" % a[len(G):])
            continue
        sm = w.fns[p]
        ok = any((c["c"] or "").endswith("split_comment_token") for c in sm["calls"]) and [a, "comments"] in [list(x) for x in (sm.get("fr") or [])]
        ck.ob(R, "token-keeps-comments:" + a[len(G):], ok, site(sm),
              "the comments the scanner attached to %s are split and kept" % a[len(G):] if ok else
              "%s carries a `comments` field (the grammar lets comments follow it) but its conversion to VerylToken ignores it: comments after this "
              "token vanish from every tool that rewrites the file" % a[len(G):])
    return n
