"""Per-bit boolean-function evaluation of straight bitwise MIR dataflow (used by C36).

A value is abstracted as the boolean function each of its bits computes from the *same-position* bits of two leaf
variables X and Y (truth table as a 4-bit int, index = x*2+y), or TOP (None) when the dataflow leaves the fragment
{copy, cast, &, |, ^ with each other, & with an all-ones low mask, shifts by a constant, word extraction helpers}.
Shifts and word selection move bits between positions but never change the per-bit function; which word lands where
is a separate (ordering) obligation.
"""
import re

X = 0b1100
Y = 0b1010
ZERO = 0
TOP = None

WORD_HELPERS = re.compile(
    r"num_bigint::biguint::BigUint::(to_u32_digits|to_u64_digits|iter_u32_digits)$"
    r"|core::slice::<impl \[T\]>::get$|core::option::Option::<T>::(unwrap_or|copied|cloned|unwrap_or_default)$"
    r"|core::convert::From<u(32|64)> for num_bigint::biguint::BigUint>::from$|alloc::boxed::Box::<T>::new$"
    r"|core::ops::deref::Deref>::deref$|core::clone::Clone>::clone$|core::ops::index::Index<.*>>::index$")
INIT0 = re.compile(r"num_traits::identities::Zero>::zero$|BigUint::ZERO$|core::default::Default>::default$")
SHIFT_ASSIGN = re.compile(r"core::ops::bit::Sh[lr]Assign<.*> for .*>::sh[lr]_assign$|core::ops::bit::Sh[lr]Assign<.*>>::sh[lr]_assign$")
OR_ASSIGN = re.compile(r"core::ops::bit::BitOrAssign.*::bitor_assign$")
XOR_ASSIGN = re.compile(r"core::ops::bit::BitXorAssign.*::bitxor_assign$")
AND_ASSIGN = re.compile(r"core::ops::bit::BitAndAssign.*::bitand_assign$")
LOW_MASKS = {0xffffffff, 0xffffffffffffffff, 0xffff, 0xff}


class BitEval:
    def __init__(self, fn, leaf):
        """leaf(adt, field) -> X / Y / None for a field read"""
        self.fn = fn
        self.leaf = leaf
        self.memo = {}
        self.busy = set()
        self.why = []
        # in-place mutations through `&mut local`
        self.mut_calls = {}
        for bi, t in fn.calls():
            c = t.get("callee") or ""
            if SHIFT_ASSIGN.search(c) or OR_ASSIGN.search(c) or XOR_ASSIGN.search(c) or AND_ASSIGN.search(c):
                tgt = self._ref_target(t["args"][0])
                if tgt is not None:
                    self.mut_calls.setdefault(tgt, []).append((bi, t))

    def _ref_target(self, op):
        if op[0] == "k":
            return None
        l = op[1][0]
        for _ in range(4):
            d = self.fn.def_of(l)
            if not d or d[0] != "s":
                return None
            rv = self.fn.rvalue_at(d)
            if rv[0] == "ref" and not [p for p in rv[2][1] if p != "*"]:
                if not rv[2][1]:
                    return rv[2][0]
                l = rv[2][0]
                continue
            if rv[0] == "use" and rv[1][0] != "k" and not rv[1][1][1]:
                l = rv[1][1][0]
                continue
            return None
        return None

    def _is_self(self, op, l):
        """operand is (a copy of) local l"""
        if op[0] == "k":
            return False
        pl = op[1]
        if pl[1]:
            return False
        cur = pl[0]
        for _ in range(4):
            if cur == l:
                return True
            d = self.fn.def_of(cur)
            if not d or d[0] != "s":
                return False
            rv = self.fn.rvalue_at(d)
            if rv[0] == "use" and rv[1][0] != "k" and not rv[1][1][1]:
                cur = rv[1][1][0]
                continue
            return False
        return False

    def operand(self, op):
        if op[0] == "k":
            k = op[1]
            if "int" in k:
                try:
                    v = int(k["int"])
                except ValueError:
                    return TOP
                if v == 0:
                    return ZERO
                return ("mask", v)
            return TOP
        return self.place(op[1])

    def place(self, pl):
        fields = [p for p in pl[1] if isinstance(p, list) and p[0] == "f"
                  and not re.match(r"alloc::boxed::Box|core::ptr::(unique::Unique|non_null::NonNull)", p[3] or "")]
        if fields:
            lf = self.leaf(fields[-1][3], fields[-1][2])
            if lf is not None:
                return lf
            # tuple / wrapper fields (checked-arithmetic pairs `.0`) are transparent
            if all(p[2] in ("0",) for p in fields):
                return self.local(pl[0])
            self.why.append("read of field %s.%s" % (fields[-1][3], fields[-1][2]))
            return TOP
        return self.local(pl[0])

    def local(self, l):
        if l in self.memo:
            return self.memo[l]
        if l in self.busy:
            return "SELF"
        self.busy.add(l)
        v = self._local(l)
        self.busy.discard(l)
        if v == "SELF":
            v = TOP
        self.memo[l] = v
        return v

    def _local(self, l):
        fn = self.fn
        if 1 <= l <= fn.nargs:
            self.why.append("argument %s used as a whole" % fn.name(l))
            return TOP
        normal = []
        ors = []
        init0 = False
        for d in fn.defs.get(l, []):
            if d[0] == "c":
                t = fn.blocks[d[1]]["t"]
                c = t.get("callee") or ""
                if INIT0.search(c):
                    init0 = True
                elif WORD_HELPERS.search(c) and t["args"]:
                    normal.append(self.operand(t["args"][0]))
                else:
                    self.why.append("call %s" % c)
                    normal.append(TOP)
                continue
            rv = fn.rvalue_at(d)
            k = rv[0]
            if k == "use":
                v = self.operand(rv[1])
                if v == ZERO and rv[1][0] == "k":
                    init0 = True
                else:
                    normal.append(v)
            elif k == "cast":
                normal.append(self.operand(rv[2]))
            elif k in ("ref", "ptr"):
                normal.append(self.place(rv[2]))
            elif k == "bin":
                op, a, b = rv[1], rv[2], rv[3]
                if op in ("Shl", "Shr", "ShlUnchecked", "ShrUnchecked"):
                    if self._is_self(a, l):
                        continue  # self shift: position only
                    normal.append(self.operand(a))
                elif op in ("BitOr", "BitXor", "BitAnd"):
                    if op == "BitOr" and self._is_self(a, l):
                        ors.append(self.operand(b))
                    elif op == "BitOr" and self._is_self(b, l):
                        ors.append(self.operand(a))
                    else:
                        normal.append(self._bin(op, self.operand(a), self.operand(b)))
                else:
                    self.why.append("operator %s" % op)
                    normal.append(TOP)
            elif k == "agg" and not rv[2]:
                normal.append(TOP)
            else:
                self.why.append("rvalue %s" % k)
                normal.append(TOP)
        for bi, t in self.mut_calls.get(l, []):
            c = t.get("callee") or ""
            if SHIFT_ASSIGN.search(c):
                continue
            if OR_ASSIGN.search(c):
                ors.append(self.operand(t["args"][1]))
            else:
                self.why.append("in-place %s" % c.split("::")[-1])
                normal.append(TOP)
        normal = [v for v in normal if v != "SELF"]
        if any(v is TOP or isinstance(v, tuple) for v in normal + ors):
            return TOP
        if normal and not ors:
            if all(v == normal[0] for v in normal) and not init0:
                return normal[0]
            if init0 and all(v == normal[0] for v in normal):
                # `let mut x = 0; x = f(..)`: both definitions reach uses
                self.why.append("local %d is both zero-initialised and assigned" % l)
                return TOP
            self.why.append("local %d has differing definitions" % l)
            return TOP
        if ors and not normal:
            acc = ZERO
            for v in ors:
                acc |= v
            return acc
        if init0 and not normal and not ors:
            return ZERO
        if not normal and not ors:
            self.why.append("local %d has no analysable definition" % l)
            return TOP
        self.why.append("local %d mixes assignment and accumulation" % l)
        return TOP

    @staticmethod
    def _bin(op, a, b):
        if a is TOP or b is TOP or a == "SELF" or b == "SELF":
            return TOP
        if isinstance(a, tuple) and isinstance(b, tuple):
            return TOP
        if isinstance(a, tuple) or isinstance(b, tuple):
            m, v = (a, b) if isinstance(a, tuple) else (b, a)
            if op == "BitAnd" and m[1] in LOW_MASKS:
                return v  # word / byte selection
            return TOP
        if op == "BitOr":
            return a | b
        if op == "BitXor":
            return a ^ b
        return a & b


def tt_name(v, xn="x", yn="y"):
    names = {0: "0", 0b1111: "1", X: xn, Y: yn, X ^ Y: "%s^%s" % (xn, yn), X | Y: "%s|%s" % (xn, yn), X & Y: "%s&%s" % (xn, yn),
             (~X) & 0xf: "!" + xn, (~Y) & 0xf: "!" + yn}
    if v is None:
        return "not a pure bitwise function"
    return names.get(v, "tt=%s" % bin(v))
