"""C12 - every token reports where it really is in the source (units and base discipline of position arithmetic).

Decided (DESIGN.md section 3 C12, section 8): at every hand-written site that builds a Token, `column` is counted in
characters, `pos`/`length` in bytes, and a token derived from another token has positions that depend on its parent's.
Not decided: that the positions are right for every input (arithmetic over run-time text), source order of tokens.
"""
import re
from core import Check, site
from mirlib import Fn
import flow

RULE = (
    "Scope: every non-generated function of veryl_parser / veryl_migrator that constructs a veryl_token::Token (aggregate) and "
    "Token::end_line / end_column. R1 units: the value stored in `column` has no byte-valued source (str::len, String::len, "
    "Match::start/end, str::find/rfind, slice ranges) in its provenance - counting characters goes through chars().count(); `pos` and "
    "`length` have no chars().count() source. R2 base dependence: a Token built from another Token (a function with a Token parameter) "
    "takes `pos` from a value that depends on the parent's pos, `line` on the parent's line, `column` on the parent's column (constants "
    "and Builtin/Generated tokens with zero positions excepted). R3 TryFrom<&parol Token>: line <- location.start_line, column <- "
    "location.start_column, pos <- location.start, length <- location.len(). R4 Token::end_column counts characters on both branches and "
    "end_line counts newlines of the token's own text."
)

CRATES = ["veryl_parser", "veryl_migrator"]
BYTES = re.compile(r"core::str::<impl str>::(len|find|rfind|find_map)$|alloc::string::String::len$|regex::.*Match<.*>::(start|end|len|range)$|core::str::<impl str>::(byte_offset|as_bytes)$|<\[T\]>::len$")
CHARS = re.compile(r"Iterator>::count$|Iterator::count$")


def run(world, tier, info, only=None):
    ck = Check("C12", tier, "other", RULE, only)
    w = world
    sites = []
    for p, s in sorted(w.fns.items()):
        if s.get("alias_of") or s.get("gen") or s.get("derived"):
            continue
        if not re.search(r"^(<)?(veryl_parser|veryl_migrator)::", p) or "::generated::" in p or "::tests::" in p:
            continue
        raw = w.mir_raw(p)
        if b"veryl_token::Token" not in raw or b'"agg"' not in raw:
            continue
        f = Fn(w.mir(p))
        for bi, b in enumerate(f.blocks):
            if b.get("cu"):
                continue
            for si, st in enumerate(b["s"]):
                if st[0] == "=" and st[2][0] == "agg" and isinstance(st[2][1], dict) and re.search(r"veryl_token::Token$", st[2][1].get("adt") or ""):
                    sites.append((p, s, f, st))
    ck.floor("scope", "hand-written Token constructions", len(sites), 8)
    ck.assume("parol's Location.start/len are byte offsets and start_line/start_column are 1-based line / character column (parol_runtime)")
    n_units = n_base = 0
    for p, s, f, st in sites:
        adt = st[2][1]["adt"]
        fl = [x["name"] for x in w.adts[adt]["variants"][0]["fields"]]
        ops = dict(zip(fl, st[2][2]))
        short = _short(p)
        ordn = _ordinal(sites, p, st)
        parent = None
        for i in range(1, f.nargs + 1):
            if re.search(r"veryl_token::Token$", f.ty(i).replace("&", "").replace("mut ", "").strip()):
                parent = i
        for fld in ("column", "pos", "length", "line"):
            o = ops.get(fld)
            if o is None:
                continue
            pv = f.prov(o, depth=40)
            calls = {x[1] for x in pv if x[0] == "call" and x[1]}
            if fld == "column":
                n_units += 1
                byt = sorted(c.split("::")[-1] for c in calls if BYTES.search(c))
                # a byte length that is then re-measured in characters is fine: chars().count() is itself in the provenance and the
                # byte value only selects a slice; what must not happen is a byte count *added* into the column
                adds_bytes = _adds_byte_count(f, o)
                ck.ob("R1", "column-in-chars:%s@%d" % (short, ordn), not adds_bytes, site(s, st[3]),
                      "column is built from character counts" if not adds_bytes else
                      "column adds a byte count (%s): a preceding multi-byte character shifts the reported column" % adds_bytes)
            if fld in ("pos", "length"):
                n_units += 1
                ch = sorted(c.split("::")[-1] for c in calls if CHARS.search(c))
                ck.ob("R1", "%s-in-bytes:%s@%d" % (fld, short, ordn), not ch, site(s, st[3]),
                      "%s is a byte quantity" % fld if not ch else "%s is derived from a character count" % fld)
            if parent is not None and fld in ("pos", "line", "column"):
                consts = [x for x in pv if x[0] == "const"]
                dep = any(x[0] == "arg" and x[1] == parent and any(q[0] == "f" and q[1] == fld for q in x[2]) for x in pv)
                only_const = all(x[0] in ("const", "op", "named") for x in pv) and bool(pv)
                if only_const:
                    continue
                n_base += 1
                ck.ob("R2", "%s-depends-on-parent:%s@%d" % (fld, short, ordn), dep, site(s, st[3]),
                      "%s of the derived token depends on the parent token's %s" % (fld, fld) if dep else
                      "%s of the derived token does not depend on the parent token's %s: it is relative to the parent, not a position in the source" % (fld, fld))
    ck.floor("R1", "unit obligations", n_units, 10)
    ck.floor("R2", "base-dependence obligations", n_base, 3)
    # R3 TryFrom<&parol Token>
    for crate in ("veryl_parser", "veryl_migrator"):
        cands = [p for p in w.fns if re.search(r"^<%s::veryl_token::Token as core::convert::TryFrom<&parol_runtime::lexer::token::Token<'t>>>::try_from$" % crate, p)]
        if not cands:
            cands = [p for p in w.fns if p.startswith("<%s::veryl_token::Token as core::convert::TryFrom<&parol_runtime" % crate) and p.endswith("::try_from")]
        if not cands:
            ck.missing("R3", "TryFrom<&parol Token> for %s::veryl_token::Token" % crate)
            continue
        p = cands[0]
        s = w.fns[p]
        f = Fn(w.mir(p))
        for pp, ss, ff, st in sites:
            if pp != p:
                continue
            fl = [x["name"] for x in w.adts[st[2][1]["adt"]]["variants"][0]["fields"]]
            ops = dict(zip(fl, st[2][2]))
            want = {"line": ("start_line",), "column": ("start_column",), "pos": ("start",)}
            for fld, tail in want.items():
                r, pth = flow.access_path(f, ops[fld])
                ck.ob("R3", "from-parol:%s/%s" % (crate, fld), r == ("arg", 1) and pth[-1:] == tail and "location" in pth, site(s, st[3]),
                      "%s <- x.location.%s (found %s)" % (fld, tail[0], flow.fmt_path((r, pth), f)))
            pv = f.prov(ops["length"], depth=16)
            okl = any(x[0] == "call" and re.search(r"Location::len$", x[1] or "") for x in pv)
            ck.ob("R3", "from-parol:%s/length" % crate, okl, site(s, st[3]), "length <- x.location.len()")
    # R4 end_column / end_line
    for crate in ("veryl_parser", "veryl_migrator"):
        for fn_, need in (("end_column", r"Chars<'a> as core::iter::traits::iterator::Iterator>::count$|Iterator>::count$"), ("end_line", r"core::str::<impl str>::matches$")):
            p = "%s::veryl_token::Token::%s" % (crate, fn_)
            if p not in w.fns:
                if crate == "veryl_parser":
                    ck.missing("R4", p)
                continue
            s = w.fns[p]
            used = any(c["c"] == p for q, x in w.fns.items() for c in x["calls"])
            if not used and crate != "veryl_parser":
                # an unused copy cannot misreport anything (the migrator's copies of these helpers have no caller)
                continue
            reach = [p] + [q for q in w.fns if q.startswith(p + "::{closure")]
            calls = [c["c"] or "" for q in reach for c in w.fns[q]["calls"]]
            lens = [c for c in calls if re.search(r"core::str::<impl str>::len$|String::len$", c)]
            ok = any(re.search(need, c) for c in calls) and not lens
            ck.ob("R4", "%s:%s" % (fn_, crate), ok, site(s), "%s measures the token's text in %s" % (fn_, "characters" if fn_ == "end_column" else "newlines") if ok else
                  "%s uses %s" % (fn_, sorted(set(x.split("::")[-1] for x in lens)) or "no character count"))
    ck.analysed = {"token_constructions": ["%s:%s" % (p, st[3]) for p, s, f, st in sites]}
    return ck.finish(info)


def _short(p):
    q = re.sub(r"<(\w+::)+(\w+) as [^>]+>::", r"\2::", p)
    return "::".join(q.split("::")[:1] + q.split("::")[-1:])


def _ordinal(sites, p, st):
    same = sorted([x[3][3] for x in sites if x[0] == p])
    return same.index(st[3]) + 1


def _adds_byte_count(f, op, depth=12):
    """names of byte-count sources that are *arithmetically combined* into the operand (through +, -, casts and copies),
    as opposed to being used to slice text that is then counted in characters"""
    out = set()
    seen = set()

    def go(o, d):
        if o[0] == "k" or d <= 0:
            return
        pl = o[1]
        l = pl[0]
        if (l, len(pl[1])) in seen:
            return
        seen.add((l, len(pl[1])))
        for df in f.defs.get(l, []):
            if df[0] == "c":
                t = f.blocks[df[1]]["t"]
                c = t.get("callee") or ""
                if BYTES.search(c):
                    out.add(c.split("::")[-1])
                elif re.search(r"core::num::<impl [a-z0-9]+>::(saturating_|wrapping_|checked_)?(add|sub)$|core::option::Option::<T>::(unwrap|unwrap_or|map_or)$|core::convert::", c):
                    for a in t["args"]:
                        go(a, d - 1)
                # anything else (chars().count(), matches().count(), slicing) starts a new measurement: stop
            else:
                rv = f.rvalue_at(df)
                k = rv[0]
                if k in ("use",):
                    go(rv[1], d - 1)
                elif k == "cast":
                    go(rv[2], d - 1)
                elif k == "bin" and rv[1] in ("Add", "Sub", "AddWithOverflow", "SubWithOverflow", "AddUnchecked", "SubUnchecked"):
                    go(rv[2], d - 1)
                    go(rv[3], d - 1)
    go(op, depth)
    return sorted(out)
