"""C26 - presentation-only build options never change behaviour.

Decided (DESIGN.md section 3 C26, section 8): option flow. For strip_comments, newline_style, indent_width, max_width and
vertical_align every read anywhere in the workspace is found, the value is followed (through locals, pure arithmetic,
the carrier fields Emitter/Formatter/Migrator.newline and RenderOpts.*, and function results) and every place where it is
consumed must be a presentation effect from a small table. Not decided: behavioural equality of the emitted SystemVerilog
under different layouts; expand_inside_operation is a semantic rewrite and is outside the claim.
"""
import re
from core import Check, site
from mirlib import Fn
import flow
from taint import Taint, postdominators, control_dependents, effects

RULE = (
    "For each presentation option O in {Build.strip_comments, Format.newline_style, Format.indent_width, Format.max_width, "
    "Format.vertical_align}: R1 no function of the crates that decide behaviour (veryl_analyzer, veryl_simulator, veryl_synthesizer, "
    "veryl_parser, veryl_cache, veryl_metadata outside its own (de)serialisation) reads O. R2 in every function that reads O, or a "
    "carrier of O (X.newline, RenderOpts.newline/max_width/indent_width, the result of wrap_isolation_threshold), the value is consumed "
    "only by: strip_comments -> a branch whose control-dependent effects are exactly calls of process_comment (no state write, no early "
    "exit that skips other effects); vertical_align -> a branch controlling only the alignment pass (walker run in Align mode, "
    "Aligner::finish_group/gather_additions, mode/duplicated_index); widths -> RenderOpts fields of the same name, "
    "wrap_isolation_threshold's result, comparisons controlling only align_reset, and inside veryl_pretty anything except the text "
    "argument of a push_str; newline_style -> newline_str(), the carrier fields, the text argument of push/str calls, the replacement "
    "argument of str::replace(\"\\n\", _), split separators, and comparisons controlling only such replacements. Any other consumer is "
    "a violation naming the function and the consumer. R3 (vertical_align's carrier is the extra Mode::Align walk) in every Emitter function, "
    "code reachable only over the mode == Align edge of a test of self.mode writes no Emitter field and changes no Emitter collection outside "
    "the alignment data and the token-walk cursors."
)

CRATES = None
BUILD = "veryl_metadata::build::Build"
FORMAT = "veryl_metadata::format::Format"
OPTIONS = {
    "strip_comments": (BUILD, "strip_comments"),
    "newline_style": (FORMAT, "newline_style"),
    "indent_width": (FORMAT, "indent_width"),
    "max_width": (FORMAT, "max_width"),
    "vertical_align": (FORMAT, "vertical_align"),
}
SEMANTIC_CRATES = {"veryl_analyzer", "veryl_simulator", "veryl_synthesizer", "veryl_parser", "veryl_cache", "veryl_path", "veryl_std", "veryl_sourcemap", "veryl_aligner"}
EXTRA_PURE = re.compile(
    r"veryl_metadata::format::NewlineStyle::newline_str$|IntoIterator>::into_iter$|Iterator for core::ops::range::Range<A>>::next$"
    r"|core::num::<impl usize>::(saturating_sub|min|max)$|core::cmp::Ord::(min|max)$|core::cmp::(min|max)$")
TRIVIAL = re.compile(r"core::ops::deref::Deref(Mut)?>::deref(_mut)?$|core::clone::Clone>::clone$|core::ptr::drop_in_place|core::mem::drop$|core::fmt::|alloc::fmt::format|Arguments")
RENDEROPTS = "veryl_pretty::render::RenderOpts"
NEWLINE_CARRIERS = {("veryl_emitter::emitter::Emitter", "newline"), ("veryl_formatter::formatter::Formatter", "newline"),
                    ("veryl_migrator::migrator::Migrator", "newline"), (RENDEROPTS, "newline")}
TEXT_PUSH = re.compile(r"^alloc::string::String::push_str$|::(Emitter|Formatter|Migrator)::str$")
ALIGN_PASS_CALLS = re.compile(r"veryl_walker::VerylWalker>::veryl$|^veryl_aligner::Aligner::(finish_group|gather_additions)$")
ALIGN_PASS_WRITES = {"mode", "duplicated_index"}


def _readers(w, adt, field):
    out = []
    for p, s in w.fns.items():
        if s.get("derived") or s.get("alias_of"):
            continue
        if [adt, field] in [list(x) for x in s["fr"]]:
            out.append(p)
    return sorted(out)


def _field_index(w, adt, idx):
    a = w.adts.get(adt)
    if not a:
        return None
    fl = a["variants"][0]["fields"]
    return fl[idx]["name"] if idx < len(fl) else None


def run(world, tier, info, only=None):
    ck = Check("C26", tier, "other", RULE, only)
    w = world
    for a in (BUILD, FORMAT, RENDEROPTS):
        if a not in w.adts:
            ck.missing("anchors", a)
    for name, (adt, fld) in OPTIONS.items():
        if adt in w.adts and fld not in [x["name"] for x in w.adts[adt]["variants"][0]["fields"]]:
            ck.missing("anchors", "%s.%s" % (adt, fld))
    if any(o["verdict"] == "violation" for o in ck.obs):
        return ck.finish(info)
    ck.assume("options reach their readers only through the fields named here (whole-struct copies of Build/Format keep the field identity)")
    ck.assume("expand_inside_operation is a semantic rewrite and is excluded from the claim")
    analysed = {}
    n_sinks = 0
    for opt, (adt, fld) in OPTIONS.items():
        work = [("field", adt, fld)]
        seen = set()
        readers_total = []
        while work:
            item = work.pop()
            if item in seen:
                continue
            seen.add(item)
            if item[0] == "field":
                fns = _readers(w, item[1], item[2])
            else:
                fns = sorted(p for p, s in w.fns.items() if not s.get("alias_of") and any(c["c"] == item[1] for c in s["calls"]))
            for p in fns:
                s = w.fns[p]
                readers_total.append(p)
                short = "::".join(p.replace("<", "").split("::")[-2:]).replace(">", "")
                # R1
                if s["crate"] in SEMANTIC_CRATES and not (s["crate"] == "veryl_metadata"):
                    ck.ob("R1", "semantic-crate-reads:%s:%s" % (opt, p), False, site(s),
                          "%s (crate %s, which decides behaviour) reads the presentation option %s" % (p, s["crate"], opt))
                    continue
                f = Fn(w.mir(p))
                if item[0] == "field":
                    A, FL = item[1], item[2]

                    def seed_place(pl, A=A, FL=FL):
                        fs = [q for q in pl[1] if isinstance(q, list) and q[0] == "f"]
                        return bool(fs) and fs[-1][2] == FL and fs[-1][3] == A
                    t = Taint(f, seed_place=seed_place, pure=EXTRA_PURE)
                else:
                    callee = item[1]
                    t = Taint(f, seed_call=lambda tt, callee=callee: tt.get("callee") == callee, pure=EXTRA_PURE)
                pdom = None
                for sk in t.sinks():
                    n_sinks += 1
                    kind = sk[0]
                    ok = None
                    why = ""
                    key = None
                    if kind == "agg":
                        _, aadt, idx, bb, line = sk
                        fname = _field_index(w, aadt, idx)
                        key = "agg:%s.%s" % (aadt.split("::")[-1], fname)
                        if aadt == RENDEROPTS:
                            want = {"newline_style": "newline"}.get(opt, opt)
                            ok = fname == want
                            why = "flows into RenderOpts.%s" % fname
                            if ok:
                                work.append(("field", RENDEROPTS, fname))
                        elif re.search(r"^core::ops::range::|^core::option::Option$", aadt):
                            ok = True
                            why = "loop bound / option wrapper"
                        elif s["crate"] == "veryl_pretty":
                            ok = True
                            why = "layout state inside the renderer (positions, frames)"
                        elif opt == "newline_style" and (aadt, fname) in NEWLINE_CARRIERS:
                            ok = True
                            why = "copied into the same carrier field"
                        else:
                            ok = False
                            why = "is stored into %s.%s" % (aadt, fname)
                    elif kind == "fieldwrite":
                        _, fadt, ffld, bb, line = sk
                        key = "write:%s.%s" % (fadt.split("::")[-1], ffld)
                        if opt == "newline_style" and (fadt, ffld) in NEWLINE_CARRIERS:
                            ok = True
                            why = "carrier field"
                            work.append(("field", fadt, ffld))
                        elif s["crate"] == "veryl_pretty" and fadt.endswith("render::State") and ffld in ("col", "pending_indent", "current_line", "swallow_next_break"):
                            ok = True
                            why = "renderer cursor state"
                        else:
                            ok = False
                            why = "is written to %s.%s" % (fadt, ffld)
                    elif kind == "ret":
                        _, bb, line = sk
                        key = "ret"
                        if p.endswith("::wrap_isolation_threshold") and opt == "max_width":
                            ok = True
                            why = "threshold helper"
                            work.append(("ret", p))
                        elif p.startswith("veryl::cmd_translate::") and opt == "newline_style":
                            ok = True
                            why = "`veryl translate` hands the style to the translator's own Veryl-source formatting (no SystemVerilog is emitted there)"
                        elif s["crate"] == "veryl_pretty" and re.search(r"::(pad_for|fits_flat)$", p):
                            ok = True
                            why = "layout helper"
                            work.append(("ret", p))
                        else:
                            ok = False
                            why = "is returned from %s" % p
                    elif kind == "call":
                        _, callee, ai, bb, line = sk
                        callee = callee or "?"
                        key = "call:%s#%d" % (callee.split("::")[-1], ai)
                        if TRIVIAL.search(callee):
                            ok = True
                        elif opt == "newline_style":
                            if TEXT_PUSH.search(callee) and ai == 1:
                                ok, why = True, "the newline itself is written"
                            elif re.search(r"str>::replace$|alloc::str::<impl str>::replace$", callee) and ai == 2:
                                a1 = flow.access_path(f, f.blocks[bb]["t"]["args"][1])
                                ok = a1[0] == ("const", "\n") or a1[0] == ("const", 10) or a1[0][0] == "const"
                                why = "replacement for line feeds"
                            elif re.search(r"core::str::<impl str>::(split|rsplit|lines|matches)$", callee) and ai == 1:
                                ok, why = True, "separator"
                            elif callee == "veryl_pretty::render::strip_trailing_whitespace" and ai == 1:
                                ok, why = True, "strip helper"
                                work.append(("field", RENDEROPTS, "newline"))
                            elif re.search(r"veryl_translator::", callee):
                                ok, why = True, "handed to the translator's formatter"
                            else:
                                ok, why = False, "is passed to %s (argument %d)" % (callee, ai)
                        elif opt in ("indent_width", "max_width"):
                            if s["crate"] == "veryl_pretty":
                                if re.search(r"String::push_str$", callee) and ai == 1:
                                    ok, why = False, "reaches the text argument of push_str in the renderer"
                                else:
                                    ok, why = True, "layout computation inside the renderer"
                                    if re.search(r"veryl_pretty::render::(pad_for|fits_flat|flush_pending_with_indent|emit_break|render_comments|emit_anchored|render_frame)$", callee):
                                        pass
                            else:
                                ok, why = False, "is passed to %s (argument %d)" % (callee, ai)
                        else:
                            ok, why = False, "is passed to %s (argument %d)" % (callee, ai)
                    elif kind == "switch":
                        _, bb, line = sk
                        key = "branch@%d" % _nth_switch(f, t, bb)
                        pdom = pdom or postdominators(f)
                        deps = control_dependents(f, bb, pdom)
                        allb = set()
                        for ss, dd in deps.items():
                            allb |= dd
                        calls, writes = effects(f, allb, ignore_calls=TRIVIAL)
                        if s["crate"] == "veryl_pretty" and opt in ("indent_width", "max_width", "newline_style"):
                            ok = True
                            why = "layout decision inside the renderer (content completeness is C28 R2)"
                        elif opt == "strip_comments":
                            badc = [(c, l) for c, l in calls if not re.search(r"::process_comment$", c)]
                            ok = not badc and not writes
                            why = "controls only process_comment" if ok else "also controls %s" % ([c for c, l in badc] + ["write %s.%s" % (a.split("::")[-1], b) for a, b, l in writes])
                        elif opt == "vertical_align":
                            badc = [(c, l) for c, l in calls if not ALIGN_PASS_CALLS.search(c)]
                            badw = [(a, b, l) for a, b, l in writes if b not in ALIGN_PASS_WRITES]
                            ok = not badc and not badw
                            why = "controls only the alignment pass" if ok else "also controls %s" % ([c for c, l in badc] + ["write %s.%s" % (a.split("::")[-1], b) for a, b, l in badw])
                        elif opt == "max_width" or opt == "indent_width":
                            badc = [(c, l) for c, l in calls if not re.search(r"::align_reset$", c)]
                            ok = not badc and not writes
                            why = "controls only align_reset" if ok else "also controls %s" % ([c for c, l in badc] + ["write %s.%s" % (a.split("::")[-1], b) for a, b, l in writes])
                        elif opt == "newline_style":
                            badc = [(c, l) for c, l in calls if not re.search(r"str>::replace$|<impl str>::replace$", c)]
                            ok = not badc and not writes
                            why = "controls only a line-feed replacement" if ok else "also controls %s" % ([c for c, l in badc] + ["write %s.%s" % (a.split("::")[-1], b) for a, b, l in writes])
                    line = sk[-1]
                    ck.ob("R2", "%s:%s/%s" % (opt, p, key), ok, site(s, line),
                          ("%s in %s: %s" % (opt, short, why or "presentation effect")) if ok else
                          "%s in %s %s: not a presentation-only use" % (opt, short, why))
        analysed[opt] = sorted(set(readers_total))
    for opt, rs in analysed.items():
        ck.floor("R1", "functions reading %s or a carrier" % opt, len(rs), 1)
    ck.floor("R2", "consumers examined", n_sinks, 20)
    n_reg = align_pass_isolation(ck, w)
    n_twin = expanded_twins_agree(ck, w)
    ck.analysed = {"readers": analysed, "consumers": n_sinks, "align_only_regions": n_reg}
    return ck.finish(info)


# ---------------- R3 the alignment pass leaves nothing behind but alignment data -----------------------------------------------------
ALIGN_OK = {
    "aligner": "the alignment tables are the pass's product",
    "duplicated_index": "position counter restarted before the build pass (Emitter::emit)",
    "src_line": "cursor of the token walk, restarted by the build pass",
    "in_start_token": "cursor of the token walk",
    "consumed_next_newline": "cursor of the token walk",
    "last_token": "cursor of the token walk",
}
MUTATE = re.compile(r"::(insert|push|push_back|push_front|extend|append|clear|pop|remove|truncate|retain|drain|entry|push_str)$|^core::mem::(take|replace|swap)$")


def _mode_const(w, p, g, op):
    d = g.describe(op, 6)
    if d and d[0] == "proj" and isinstance(d[1], tuple) and d[1][0] == "promoted":
        pr = w.promoted(d[1][1], d[1][2])
        for b in (pr or {}).get("blocks", []):
            for st in b["s"]:
                if st[0] == "=" and st[2][0] == "agg" and isinstance(st[2][1], dict) and (st[2][1].get("adt") or "").endswith("emitter::Mode"):
                    return st[2][1].get("variant")
    return None


def align_pass_isolation(ck, w):
    """Emitter::emit walks the tree twice: once in Mode::Align, only if [format] vertical_align is set, then in Mode::Build. Whatever the
    Align walk alone does must therefore stay inside the alignment data: a field of the Emitter written (or a collection of it changed)
    only under mode == Align would make the emitted text depend on vertical_align."""
    n_reg = 0
    for p, sm in sorted(w.fns.items()):
        if "veryl_emitter::emitter" not in p or sm.get("alias_of") or "fmt::Debug" in p or "::tests::" in p:
            continue
        if sm["nblocks"] < 3:
            continue
        g = Fn(w.mir(p))
        regions = []
        for bb, t in flow.enum_switches(g, r"emitter::Mode$"):
            listed = [vn for v, tgt, vn in t["vals"]]
            al = [tgt for v, tgt, vn in t["vals"] if vn == "Align"] or ([t["else"]] if "Build" in listed else [])
            bu = [tgt for v, tgt, vn in t["vals"] if vn == "Build"] or ([t["else"]] if "Align" in listed else [])
            regions.append((bb, al, bu))
        for bi, t in g.calls(r"PartialEq.*::(eq|ne)$"):
            if "Mode" not in (t.get("self") or "") + (t.get("callee") or ""):
                continue
            vs = [_mode_const(w, p, g, a) for a in t["args"]]
            v = [x for x in vs if x]
            sw = g.blocks[t["to"]]["t"]
            if len(v) != 1 or sw["t"] != "sw" or len(sw["vals"]) != 1 or sw["vals"][0][0] != "0":
                ck.ob("R3", "align-pass/mode-test:%s" % _sh(p), None, site(sm, t["l"]), "a comparison of self.mode is not branched on directly; cannot delimit the Align-only code")
                continue
            eq_edge, ne_edge = sw["else"], sw["vals"][0][1]
            if t["callee"].endswith("::ne"):
                eq_edge, ne_edge = ne_edge, eq_edge
            al, bu = ([eq_edge], [ne_edge]) if v[0] == "Align" else ([ne_edge], [eq_edge])
            regions.append((t["to"], al, bu))
        for bb, al, bu in regions:
            if not al:
                continue
            ra = set().union(*[g.reach_from(a, avoid=[bb]) for a in al])
            rb = set().union(*[g.reach_from(b, avoid=[bb]) for b in bu]) if bu else set()
            only = ra - rb
            n_reg += 1
            bad = []
            # a scoped flag the function sets at entry and clears on every exit is also cleared on its Align-only early exit:
            # the same (field, constant) written outside the region as well is not something only the alignment pass does
            outside = set()
            for b2, blk2 in enumerate(g.blocks):
                if b2 in only or blk2.get("cu"):
                    continue
                for st in blk2["s"]:
                    if st[0] == "=" and st[2][0] == "use" and st[2][1][0] == "k":
                        flds = [q for q in st[1][1] if isinstance(q, list) and q[0] == "f"]
                        if flds and st[1][0] == 1:
                            outside.add((flds[0][2], repr(st[2][1][1].get("int", st[2][1][1].get("v")))))
            for b in sorted(only):
                blk = g.blocks[b]
                if blk.get("cu"):
                    continue
                for st in blk["s"]:
                    if st[0] != "=":
                        continue
                    flds = [q for q in st[1][1] if isinstance(q, list) and q[0] == "f"]
                    if flds and st[1][0] == 1 and flds[0][3].endswith("emitter::Emitter") and flds[0][2] not in ALIGN_OK:
                        if st[2][0] == "use" and st[2][1][0] == "k" and (flds[0][2], repr(st[2][1][1].get("int", st[2][1][1].get("v")))) in outside:
                            continue
                        bad.append("self.%s written (line %s)" % (flds[0][2], st[3]))
                t = blk["t"]
                if t["t"] == "call" and MUTATE.search(t.get("callee") or "") and t["args"] and t["args"][0][0] != "k":
                    r, pth = flow.access_path(g, t["args"][0])
                    if r == ("arg", 1) and pth and pth[0] not in ALIGN_OK:
                        bad.append("self.%s changed by %s (line %s)" % (pth[0], t["callee"].split("::")[-1], t["l"]))
            ck.ob("R3", "align-pass-isolated:%s@%d" % (_sh(p), len([1 for x in regions if x[0] <= bb])), not bad, site(sm),
                  "code that runs only in the alignment pass touches alignment data only" if not bad else
                  "state the build pass reads is changed only when the alignment pass runs (i.e. only with vertical_align = true): %s" % bad[:3])
    ck.floor("R3", "Align-only regions in the emitter", n_reg, 20)
    return n_reg


def _sh(p):
    return re.sub(r"^<veryl_emitter::emitter::Emitter as veryl_parser::veryl_walker::VerylWalker>::", "walker::", p).replace("veryl_emitter::emitter::Emitter::", "")


def _nth_switch(f, t, bb):
    sw = sorted(b for b in range(f.n) if not f.blocks[b].get("cu") and f.blocks[b]["t"]["t"] == "sw" and t.op_tainted(f.blocks[b]["t"]["on"]))
    return sw.index(bb) + 1 if bb in sw else 0


def _pushes_doc_text(f, blocks):
    """a push_str inside `blocks` whose text is not the renderer's own newline / a constant"""
    for b in blocks:
        t = f.blocks[b]["t"]
        if t["t"] == "call" and re.search(r"String::push_str$", t.get("callee") or ""):
            r, pth = flow.access_path(f, t["args"][1])
            if r[0] == "const" or (pth and pth[-1] == "newline"):
                continue
            return True
    return False


# ---------------- R4 the twin taken under expand_inside_operation consumes the decisions its plain twin consumes ------------------------
# expand_inside_operation selects `emit_expanded_X` instead of `X`/`emit_X`. Equivalence of the rewrite itself is behavioural and not
# claimed; what is visible in code shape is that both twins ask the same Emitter helpers for decisions and that the expanded twin uses
# every component of a tuple-valued answer that the plain twin uses (cond_type_prefix's second component turns the last arm into
# `default`: a twin ignoring it emits a different case statement under the option).
def _components_used(m, callee):
    """tuple components of `callee`'s result that are read and whose receiving local is mentioned again (None = no such call)."""
    dsts = [b["t"]["dst"][0] for b in m["blocks"] if b["t"].get("t") == "call" and b["t"].get("callee") == callee and not b["t"]["dst"][1]]
    if not dsts:
        return None
    used = set()
    text = None
    for b in m["blocks"]:
        for st in b["s"]:
            if st[0] != "=" or st[2][0] != "use":
                continue
            op = st[2][1]
            if op[0] in ("c", "m") and op[1][0] in dsts and op[1][1] and op[1][1][0][0] == "f" and not st[1][1]:
                recv = st[1][0]
                if text is None:
                    text = repr([[x for x in bb["s"]] for bb in m["blocks"]]) + repr([bb["t"] for bb in m["blocks"]])
                # the receiving local must occur again as an operand place
                if len(re.findall(r"\[%d, \[" % recv, text)) > 1:
                    used.add(op[1][1][0][1])
    return used


def expanded_twins_agree(ck, w):
    n = 0
    for p in sorted(w.fns):
        s = w.fns[p]
        if s["crate"] != "veryl_emitter" or s.get("alias_of") or "::emit_expanded_" not in p:
            continue
        base, name = p.rsplit("::", 1)
        x = name[len("emit_expanded_"):]
        twin = next((t for t in (base + "::emit_" + x, base + "::" + x) if t in w.fns), None)
        if twin is None:
            continue
        me, tw = w.mir(p), w.mir(twin)
        for c in sorted({c["c"] for c in w.fns[twin]["calls"]} & {c["c"] for c in s["calls"]}):
            a, b = _components_used(tw, c), _components_used(me, c)
            if not a:
                continue
            n += 1
            ck.ob("R4", "expanded-twin-consumes:%s:%s" % (name, c.rsplit("::", 1)[-1]), a <= (b or set()), site(s),
                  "%s uses components %s of %s's result, its twin %s (taken under expand_inside_operation) uses %s" % (
                      twin.rsplit("::", 1)[-1], sorted(a), c.rsplit("::", 1)[-1], name, sorted(b or [])))
    if n < 1:
        ck.missing("R4", "no expanded twin sharing a tuple-valued decision helper with its plain twin (confirmed by hand: emit_case_statement / emit_expanded_case_statement share cond_type_prefix)")
    return n
