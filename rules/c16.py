"""C16 - clock-domain crossings are always caught.

Decided (DESIGN.md section 3 C16, section 8): the decision kernel, explicit == inferred in every classification of
ClockDomain, operand coverage and domain propagation in the operator typing functions, and the frozen table of lowering
functions that must reach the check. Not decided: soundness/completeness of domain inference over all designs.
"""
import re
from core import Check, site
from mirlib import Fn, MustFacts, Sem
import flow

RULE = (
    "R1 kernel: in check_clock_domain the error is inserted exactly when compatible(lhs.clock_domain, rhs.clock_domain) is false and "
    "unsafe_table::contains(token, Unsafe::Cdc) is false (must-facts at the insert; every path on which both hold reaches it), the two "
    "domains compared are those of the function's lhs and rhs, and the token tested is the function's token. R2 explicit == inferred: every "
    "hand-written discriminant switch over symbol::ClockDomain sends Explicit and Inferred to equivalent arms (same target after payload "
    "binding), and every == / != on ClockDomain values has a payload-free constant variant (Implicit / None) on one side, since the derived "
    "equality tells Explicit(a) from Inferred(a); ClockDomain::merge returns an operand only where the other one is None or the returned one "
    "is not None (None is the identity, so an operation with a constant never erases a domain). R3 operand coverage: Op::eval_type_binary checks (x,y); Op::eval_type_ternary checks all three "
    "pairs of (x,y,z); Op::eval_type_concatenation checks every element against the accumulated result; check_assign_clock_domain checks the "
    "destination against the source, against the current clock (always_ff) and against every enclosing condition domain. R4 propagation: "
    "the result's clock_domain written by those operator functions merges the domains of all operands. R5 reachability: each lowering "
    "function in the frozen table (assignment, always_ff, instance ports, connect, function call, expression context, module ports) still "
    "calls check_clock_domain or check_assign_clock_domain. R6 chain gating: in the converters of if / if_reset / switch / case statements no "
    "nested block is lowered outside Context::with_condition_domain(s) once a condition was evaluated; the one-condition form is used only "
    "where one condition evaluation reaches it; the list form receives the condition evaluated before the chain and, on every path, the "
    "condition of the current iteration, is one list for the whole chain and is never shrunk or re-initialised. R7 in the instance-port "
    "lowering an expression is stored as the representative of a callee clock domain only on the edge where its clock_domain != None; "
    "whether a connection is checked does not depend on the callee port's direction. R8 in check_assign_clock_domain the writes of "
    "ClockDomain::Inferred to the destination are reachable also where the destination's domain is not Implicit (a block-local `let`/`var`, "
    "created with ClockDomain::None, adopts the domain of what it holds instead of staying compatible with everything). R9 the converter "
    "of a function declaration writes the clock_domain of the function's result type from the return variable's path entry after the "
    "body was converted (and the return statement reaches check_assign_clock_domain, R5): a body that reads a module signal cannot launder it."
)

CRATES = ["veryl_analyzer"]
K = "veryl_analyzer::conv::checker::clock_domain::check_clock_domain"
KA = "veryl_analyzer::conv::utils::check_assign_clock_domain"
CD = "veryl_analyzer::symbol::ClockDomain"
OP = "veryl_analyzer::ir::op::Op::"
G = "veryl_parser::generated::veryl_grammar_trait::"

# function -> the data-moving construct it lowers (confirmed by reading; the check is required there)
MUST_CALL = {
    KA: "assignment statement / declaration: destination vs source, clock and conditions",
    "veryl_analyzer::conv::declaration::<impl veryl_analyzer::conv::Conv<&" + G + "AlwaysFfDeclaration> for veryl_analyzer::ir::declaration::Declaration>::conv": "always_ff clock vs reset domain",
    "veryl_analyzer::conv::declaration::<impl veryl_analyzer::conv::Conv<&" + G + "InstDeclaration> for veryl_analyzer::ir::declaration::Declaration>::conv": "instance port connections",
    "veryl_analyzer::conv::ir::<impl veryl_analyzer::conv::Conv<(&" + G + "ModuleDeclaration, bool)> for veryl_analyzer::ir::module::Module>::conv": "module port defaults",
    "veryl_analyzer::conv::utils::expand_connect": "connect operation",
    "veryl_analyzer::conv::utils::function_call": "function call arguments / outputs",
    "veryl_analyzer::ir::expression::Expression::gather_context": "expression context (if/case expressions)",
    "veryl_analyzer::ir::expression::Factor::gather_context": "factor context (function call factor)",
    OP + "eval_type_binary": "binary operator operands",
    OP + "eval_type_ternary": "ternary operator operands",
    OP + "eval_type_concatenation": "concatenation operands",
    "veryl_analyzer::ir::variable::VarPathSelect::to_assign_destination": "index/select expressions of an assignment destination",
    "veryl_analyzer::conv::statement::<impl veryl_analyzer::conv::Conv<&" + G + "ReturnStatement> for veryl_analyzer::ir::statement::Statement>::conv": "function return value (the returned expression's domain reaches the result, F32)",
}
ASSIGN_CALLERS_FLOOR = 3


def _canon(f, bb):
    """follow payload-binding-only blocks to the common continuation; returns (block, bound locals)"""
    bound = []
    seen = set()
    while bb is not None and bb not in seen:
        seen.add(bb)
        b = f.blocks[bb]
        t = b["t"]
        if t["t"] != "goto":
            break
        ok = True
        for s in b["s"]:
            if s[0] != "=":
                continue
            rv = s[2]
            src = rv[2] if rv[0] in ("ref", "ptr") else (rv[1][1] if rv[0] == "use" and rv[1][0] != "k" else None)
            if src is None or not any(isinstance(p, list) and p[0] == "v" for p in src[1]):
                ok = False
                break
            bound.append(s[1][0])
        if not ok:
            break
        bb = t["to"]
    return bb, tuple(sorted(set(bound)))


def run(world, tier, info, only=None):
    ck = Check("C16", tier, "other", RULE, only)
    w = world
    for p in (K, KA, CD + "::compatible", CD + "::domain_id", CD + "::merge", "veryl_analyzer::unsafe_table::contains"):
        if p not in w.fns:
            ck.missing("anchors", p)
    if CD not in w.adts:
        ck.missing("anchors", CD)
    if any(o["verdict"] == "violation" for o in ck.obs):
        return ck.finish(info)
    ck.assume("Comptime.clock_domain of every operand was inferred correctly upstream (domain inference itself is not decided)")

    # ---------------- R1 kernel ------------------------------------------------------------------------------
    s = w.fns[K]
    f = Fn(w.mir(K))
    mf = MustFacts(f)
    sem = Sem(f, 14)
    an = {f.name(i): i for i in range(1, f.nargs + 1)}
    ins = f.calls(r"conv::context::Context::insert_error$|Context::insert_error$")
    ck.floor("R1", "insert_error calls in check_clock_domain", len(ins), 1)
    comp = f.calls("^" + re.escape(CD + "::compatible") + "$")
    cont = f.calls(r"^veryl_analyzer::unsafe_table::contains$")
    ck.ob("R1", "kernel/one-compatible-call", len(comp) == 1, site(s), "exactly one compatible() decision")
    ck.ob("R1", "kernel/one-unsafe-lookup", len(cont) == 1, site(s), "exactly one unsafe(cdc) lookup")
    for bi, t in comp:
        a = flow.access_path(f, t["args"][0])
        b = flow.access_path(f, t["args"][1])
        ok = {a, b} == {(("arg", an.get("lhs")), ("clock_domain",)), (("arg", an.get("rhs")), ("clock_domain",))}
        ck.ob("R1", "kernel/compares-lhs-rhs-domains", ok, site(s, t["l"]), "compatible() is asked about lhs.clock_domain and rhs.clock_domain (found %s, %s)" % (flow.fmt_path(a, f), flow.fmt_path(b, f)))
    for bi, t in cont:
        a = flow.access_path(f, t["args"][0])
        ck.ob("R1", "kernel/unsafe-token", a == (("arg", an.get("token")), ()), site(s, t["l"]), "the unsafe lookup uses the site's token")
        r, pth = flow.access_path(f, t["args"][1])
        okk = False
        if r[0] == "agg":
            st = f.blocks[r[2]]["s"][r[3]]
            okk = st[2][1].get("variant") == "Cdc"
        ck.ob("R1", "kernel/unsafe-kind-cdc", okk, site(s, t["l"]), "the unsafe lookup asks for Unsafe::Cdc")
    for bi, t in ins:
        facts = sem.facts(mf.at_entry(bi))
        c_false = any(x[0] == "call" and x[1] == CD + "::compatible" and x[2] is False for x in facts)
        u_false = any(x[0] == "call" and x[1] == "veryl_analyzer::unsafe_table::contains" and x[2] is False for x in facts)
        ck.ob("R1", "kernel/error-only-if-incompatible", c_false, site(s, t["l"]), "the error is inserted only when compatible() returned false")
        ck.ob("R1", "kernel/error-only-if-not-unsafe", u_false, site(s, t["l"]), "the error is inserted only outside unsafe(cdc)")
        r, pth = flow.access_path(f, t["args"][1])
        ck.ob("R1", "kernel/error-kind", r[0] == "call" and (r[1] or "").endswith("AnalyzerError::mismatch_clock_domain"), site(s, t["l"]), "the error is mismatch_clock_domain")
    # if: every path to return that avoids insert_error has compatible==true or contains==true
    m2 = MustFacts(f, avoid=[b for b, _ in ins])
    bad = []
    for b in m2.feasible_blocks():
        if f.blocks[b]["t"]["t"] == "ret" and not f.blocks[b].get("cu"):
            # must-facts are an intersection over paths; examine each incoming edge separately
            for p in f.pred[b]:
                st = m2.on_edge(p, b)
                if st is None:
                    continue
                fx = sem.facts(st)
                if not (any(x[0] == "call" and x[1] == CD + "::compatible" and x[2] is True for x in fx) or
                        any(x[0] == "call" and x[1] == "veryl_analyzer::unsafe_table::contains" and x[2] is True for x in fx)):
                    bad.append((p, b))
    # edges into the return block may themselves be joins; walk back one level of goto-only blocks
    bad2 = []
    for p, b in bad:
        stack = [p]
        seen = set()
        while stack:
            q = stack.pop()
            if q in seen:
                continue
            seen.add(q)
            blk = f.blocks[q]
            if blk["t"]["t"] == "goto" and not [x for x in blk["s"] if x[0] == "=" and x[1][0] != 0] and f.pred[q]:
                for pp in f.pred[q]:
                    st = m2.on_edge(pp, q)
                    if st is None:
                        continue
                    fx = sem.facts(st)
                    if any(x[0] == "call" and x[1] in (CD + "::compatible", "veryl_analyzer::unsafe_table::contains") and x[2] is True for x in fx):
                        continue
                    stack.append(pp)
            else:
                bad2.append(q)
    ck.ob("R1", "kernel/error-if-incompatible-and-not-unsafe", not bad2, site(s),
          "every path that skips the error has compatible() == true or unsafe(cdc) == true" if not bad2 else
          "a path skips the error although the domains are incompatible and no unsafe(cdc) covers the site (through blocks %s)" % bad2)

    # ---------------- R2 explicit == inferred ------------------------------------------------------------------
    n_sw = 0
    for p, sm in sorted(w.fns.items()):
        if sm.get("derived") or sm.get("gen"):
            continue
        if "ClockDomain" not in p and not any(fr[1] == "clock_domain" for fr in sm["fr"]) and not any("ClockDomain" in (c["c"] or "") for c in sm["calls"]):
            continue
        if re.search(r"serde|::_::", p):
            continue
        g = Fn(w.mir(p))
        k = 0
        for bb, t in flow.enum_switches(g, r"symbol::ClockDomain$"):
            n_sw += 1
            k += 1
            arm, wc = flow.arms(g, t)
            te, ti = arm.get("Explicit"), arm.get("Inferred")
            ce, ci = _canon(g, te) if te is not None else (None, ()), _canon(g, ti) if ti is not None else (None, ())
            same = ce == ci
            ck.ob("R2", "explicit-eq-inferred:%s@%d" % (p, k), same, site(sm, t["l"]),
                  "Explicit and Inferred reach the same arm" if same else "Explicit and Inferred are treated differently by this switch (arms %s / %s)" % (ce, ci))
        eqs = []
        for bi, t in g.calls(r"PartialEq.*::(eq|ne)$"):
            a0 = t["args"][0]
            ty = g.ty(a0[1][0]) if a0[0] != "k" else ""
            if re.search(r"^&*veryl_analyzer::symbol::ClockDomain$", ty.replace("&mut ", "&").replace(" ", "")) or \
                    re.search(r"<veryl_analyzer::symbol::ClockDomain as core::cmp::PartialEq>::(eq|ne)$", t.get("callee") or ""):
                eqs.append((bi, t))
        for bi, t in eqs:
            okc = False
            why = []
            for a in t["args"]:
                cands = flow.access_paths(g, a)
                for r, pth in cands:
                    if r[0] == "agg":
                        st = g.blocks[r[2]]["s"][r[3]]
                        if isinstance(st[2][1], dict) and st[2][1].get("variant") in ("Implicit", "None") and (st[2][1].get("adt") or "").endswith("ClockDomain"):
                            okc = True
                    elif r[0] == "const":
                        # promoted constant `&ClockDomain::Implicit`
                        pr = w.promoted(p, _promoted_idx(g, a)) if _promoted_idx(g, a) is not None else None
                        if pr and _promoted_variant(pr) in ("Implicit", "None"):
                            okc = True
                    why.append(flow.fmt_path((r, pth), g))
            ck.ob("R2", "eq-only-against-payload-free:%s@%d" % (p, _ordinal(g, bi)), okc, site(sm, t["l"]),
                  "ClockDomain equality is used only against Implicit/None" if okc else
                  "ClockDomain == compares two id-bearing domains with the derived equality, which tells Explicit(a) from Inferred(a): %s" % why)
            n_sw += 1
    ck.floor("R2", "hand-written classifications of ClockDomain", n_sw, 5)

    # ---------------- R2b merge keeps a domain: None is its identity ------------------------------------------
    MG = CD + "::merge"
    sm_ = w.fns[MG]
    gm = Fn(w.mir(MG))
    try:
        mpaths = flow.enumerate_paths(gm, 0, gm.returns(), limit=5000)
    except OverflowError:
        mpaths = None
    if mpaths is None:
        ck.ob("R2", "merge/none-is-identity", None, site(sm_), "too many paths")
    else:
        bad = []
        n_ret = 0
        for path in mpaths:
            env = {1: ("arg", 1), 2: ("arg", 2)}
            disc = {}
            facts_ = {}
            ret = None
            blocks = [b for b, _ in path] + [path[-1][1]] if path else [0]
            edges = dict(path)
            for b in blocks:
                for st in gm.blocks[b]["s"]:
                    if st[0] != "=":
                        continue
                    dst, rv = st[1], st[2]
                    val = None
                    if rv[0] == "use" and rv[1][0] != "k":
                        pl = rv[1][1]
                        base = env.get(pl[0])
                        proj = [q for q in pl[1] if q != "*"]
                        if not proj:
                            val = base
                        elif base and base[0] == "tuple" and len(proj) == 1 and proj[0][0] == "f":
                            val = base[1][int(proj[0][2])] if int(proj[0][2]) < len(base[1]) else None
                    elif rv[0] in ("ref", "ptr"):
                        pl = rv[2]
                        base = env.get(pl[0])
                        proj = [q for q in pl[1] if q != "*"]
                        val = base if not proj else None
                    elif rv[0] == "agg" and rv[1] == "tuple":
                        val = ("tuple", [env.get(o[1][0]) if o[0] != "k" and not o[1][1] else None for o in rv[2]])
                    elif rv[0] == "discr":
                        pl = rv[1]
                        if not [q for q in pl[1] if q != "*"]:
                            disc[dst[0]] = env.get(pl[0])
                    if not dst[1]:
                        if dst[0] == 0:
                            ret = val
                        else:
                            env[dst[0]] = val
                t = gm.blocks[b]["t"]
                if t["t"] == "sw" and t.get("enum") and b in edges and t["on"][0] != "k":
                    who = disc.get(t["on"][1][0])
                    hit = [vn for v, tgt, vn in t["vals"] if tgt == edges[b]]
                    if who and who[0] == "arg":
                        if len(hit) == 1 and edges[b] != t["else"]:
                            facts_[who[1]] = ("is", hit[0])
                        elif edges[b] == t["else"]:
                            facts_[who[1]] = ("not", tuple(vn for v, tgt, vn in t["vals"]))
            if ret is None or ret[0] != "arg":
                continue
            n_ret += 1
            me, oth = ret[1], (2 if ret[1] == 1 else 1)
            other_none = facts_.get(oth) == ("is", "None")
            me_not_none = facts_.get(me, ("?",))[0] == "not" and "None" in facts_[me][1] or (facts_.get(me, ("?",))[0] == "is" and facts_[me][1] != "None")
            if not (other_none or me_not_none):
                bad.append("returns %s where %s may be None while %s is not" % (gm.name(me), gm.name(me), gm.name(oth)))
        ck.ob("R2", "merge/none-is-identity", n_ret > 0 and not bad, site(sm_),
              "merge returns an operand only when the other one is None or the returned one is not None (None is the identity; %d return paths)" % n_ret if n_ret and not bad else
              "merge can drop a domain: %s; the merged value then carries no domain and later crossings go unreported" % sorted(set(bad))[:2])
    # ---------------- R3 / R4 operand coverage and propagation ------------------------------------------------
    def pairs_checked(g):
        out = []
        for bi, t in g.calls("^" + re.escape(K) + "$"):
            a = flow.access_path(g, t["args"][1])
            b = flow.access_path(g, t["args"][2])
            out.append((a, b, bi, t))
        return out

    def argnames(g, rp):
        """parameter name(s) an operand stands for; a loop variable over an array literal `[y, z]` stands for each element"""
        r, pth = rp
        if r[0] == "arg" and pth == ():
            return [g.name(r[1])]
        if r[0] == "call" and re.search(r"Iterator>::next$", r[1] or "") and pth[:2] == ("Some", "0") and len(pth) == 2:
            nt = g.blocks[r[2]]["t"]
            rr, pp = flow.access_path(g, nt["args"][0])
            if rr[0] == "agg" and rr[1] == "array":
                st = g.blocks[rr[2]]["s"][rr[3]]
                out = []
                for o in st[2][2]:
                    out += argnames(g, flow.access_path(g, o))
                return out
        return [None]

    def argname(g, rp):
        ns = argnames(g, rp)
        return ns[0] if len(ns) == 1 else None
    for fn_name, need in ((OP + "eval_type_binary", [("x", "y")]), (OP + "eval_type_ternary", [("x", "y"), ("x", "z"), ("y", "z")])):
        if fn_name not in w.fns:
            ck.missing("R3", fn_name)
            continue
        sm = w.fns[fn_name]
        g = Fn(w.mir(fn_name))
        got = set()
        for a, b, _, _ in pairs_checked(g):
            for na in argnames(g, a):
                for nb in argnames(g, b):
                    got.add(frozenset((na, nb)))
        for x, y in need:
            ck.ob("R3", "%s/pair:%s-%s" % (fn_name.split("::")[-1], x, y), frozenset((x, y)) in got, site(sm),
                  "operands %s and %s are checked against each other" % (x, y) if frozenset((x, y)) in got else
                  "no check_clock_domain(%s, %s): a crossing between these operands goes unreported" % (x, y))
        ops = sorted({n for pr in need for n in pr})
        _propagation(ck, w, g, sm, fn_name.split("::")[-1], ops)
    fn_name = OP + "eval_type_concatenation"
    if fn_name in w.fns:
        sm = w.fns[fn_name]
        g = Fn(w.mir(fn_name))
        pc = pairs_checked(g)
        ok = False
        for a, b, bi, t in pc:
            if argname(g, a) == "dst" or argname(g, b) == "dst":
                # the other operand derives from the loop item
                inloop = any(bi in g.reach_from(some, avoid=[head]) for head, tt, some, none, item in flow.loops_over(g))
                ok = ok or inloop
        ck.ob("R3", "eval_type_concatenation/each-element-vs-result", ok, site(sm), "every concatenation element is checked against the accumulated result inside the loop")
        _propagation(ck, w, g, sm, "eval_type_concatenation", ["dst"], need_call_merge=True)
    else:
        ck.missing("R3", fn_name)
    sm = w.fns[KA]
    g = Fn(w.mir(KA))
    pc = pairs_checked(g)
    kinds = set()
    for a, b, bi, t in pc:
        rb, pb = b
        if rb[0] == "arg" and g.name(rb[1]) == "comptime":
            kinds.add("source")
        elif any(bi in g.reach_from(some, avoid=[head]) for head, tt, some, none, item in flow.loops_over(g)):
            kinds.add("conditions")
        else:
            pv = g.prov(t["args"][2], depth=14)
            if any(x[0] == "field" and x[-1] == "current_clock" for x in pv) or "current_clock" in repr(pv):
                kinds.add("clock")
    for kd in ("source", "clock", "conditions"):
        ck.ob("R3", "check_assign_clock_domain/" + kd, kd in kinds, site(sm), "the destination is checked against the %s domain" % kd)
    callers = sorted(p for p, x in w.fns.items() if any(c["c"] == KA for c in x["calls"]))
    ck.floor("R5", "callers of check_assign_clock_domain", len(callers), ASSIGN_CALLERS_FLOOR)

    _chain_gating(ck, w)
    _representative(ck, w)
    _condition_stack(ck, w)
    _compatible_paths(ck, w)
    _connect_check_independent_of_direction(ck, w)
    _assign_inference(ck, w)
    _function_result_domain(ck, w)
    _function_output_domain(ck, w)
    # ---------------- R5 must-call table ----------------------------------------------------------------------
    for p, why in sorted(MUST_CALL.items()):
        if p not in w.fns:
            ck.missing("R5", p)
            continue
        calls = [c for q, x in w.fns.items() if q == p or q.startswith(p + "::{closure") for c in x["calls"] if c["c"] in (K, KA)]
        ck.ob("R5", "must-check:" + _short(p), bool(calls), site(w.fns[p]),
              "%s: still reaches the clock-domain check (%d call sites)" % (why, len(calls)) if calls else "%s: no clock-domain check left in this lowering function" % why)
    all_callers = sorted(p for p, x in w.fns.items() if any(c["c"] == K for c in x["calls"]))
    new = [p for p in all_callers if re.sub(r"::\{closure#\d+\}.*$", "", p) not in MUST_CALL]
    ck.analysed = {"check_clock_domain_callers": all_callers, "callers_outside_table": new, "check_assign_callers": callers}
    return ck.finish(info)


# ---------------- R6 every branch of an if / if_reset / switch chain is lowered under all the conditions that gate it -------
CONV_PRE = "veryl_analyzer::conv::statement::<impl veryl_analyzer::conv::Conv<&" + G + "%s> for veryl_analyzer::ir::statement::StatementBlock>::conv"
CHAINS = {"IfStatement": 2, "IfResetStatement": 1, "SwitchStatement": 1, "CaseStatement": 1}   # converter -> condition evaluation sites counted by hand
COND_EVAL = re.compile(r"^veryl_analyzer::conv::utils::(eval_expr|switch_condition)$|^<veryl_analyzer::ir::expression::Expression as veryl_analyzer::conv::Conv<&" + re.escape(G) + r"Expression>>::conv$|Conv<&" + re.escape(G) + r"Expression> for veryl_analyzer::ir::expression::Expression>::conv$")
BLOCK_CONV = re.compile(r"Conv<&" + re.escape(G) + r"(StatementBlock|Statement|StatementBlockItem)> for veryl_analyzer::ir::statement::StatementBlock>::conv$|^veryl_analyzer::conv::statement::(switch_item_body|with_tb_hoist_sink)$")
WCD = "veryl_analyzer::conv::context::Context::with_condition_domain"
VEC_SHRINK = re.compile(r"^alloc::vec::Vec::<T, A>::(clear|truncate|pop|drain|remove|swap_remove|retain|split_off|dedup.*)$|^core::mem::(take|replace|swap)$")
VPUSH = r"^alloc::vec::Vec::<T, A>::push$"


def _root_named(g, op, depth=12):
    """the named local an operand is a (reference to a / deref of a / copy of a) view of"""
    if op[0] == "k":
        return None
    l, proj = op[1][0], op[1][1]
    for _ in range(depth):
        if g.name(l):
            return l
        d = g.def_of(l)
        if d is None:
            return None
        if d[0] == "s":
            rv = g.rvalue_at(d)
            if rv[0] == "use" and rv[1][0] != "k":
                l = rv[1][1][0]
            elif rv[0] in ("ref", "ptr"):
                l = rv[2][0]
            elif rv[0] == "cast" and rv[2][0] != "k":
                l = rv[2][1][0]
            else:
                return None
        else:
            t = g.blocks[d[1]]["t"]
            if re.search(r"Deref(Mut)?>::deref(_mut)?$|::as_slice$|::as_ref$|::borrow$", t.get("callee") or "") and t["args"] and t["args"][0][0] != "k":
                l = t["args"][0][1][0]
            else:
                return None
    return None


def _chain_gating(ck, w):
    import taint
    PUREX = re.compile(r"Try>::branch$|Clone>::clone$|Expression::comptime$|Expression::eval_comptime$|::as_ref$|Deref>::deref$")
    for kind, n_hand in sorted(CHAINS.items()):
        p = CONV_PRE % kind
        if p not in w.fns:
            ck.missing("R6", p)
            continue
        x = w.fns[p]
        g = Fn(w.mir(p))
        ces = [(bi, t) for bi, t in g.calls() if COND_EVAL.search(t.get("callee") or "")]
        ck.ob("R6", "chain/%s/condition-evaluations" % kind, len(ces) >= n_hand, site(x),
              "%d condition evaluation sites (counted by hand: %d)" % (len(ces), n_hand))
        loops = flow.loops_over(g)
        body = {head: g.reach_from(some, avoid=[head]) for head, t, some, none, item in loops}
        reach = {bi: g.reach_from(t["to"]) for bi, t in ces}
        # N1 no ungated conversion after a condition was evaluated
        n_conv = 0
        for bi, t in sorted(g.calls(), key=lambda z: (z[1]["l"], z[0])):
            if not BLOCK_CONV.search(t.get("callee") or ""):
                continue
            n_conv += 1
            if any(bi in reach[e] for e, _ in ces):
                ck.ob("R6", "chain/%s/gated-conversion@%d" % (kind, n_conv), False, site(x, t["l"]),
                      "a nested statement block is lowered directly in the converter after a condition was evaluated, outside "
                      "Context::with_condition_domain(s): writes in that block are not checked against the condition's clock domain")
        wcs = [(bi, t) for bi, t in g.calls("^" + re.escape(WCD) + "s?$")]
        ck.ob("R6", "chain/%s/gates" % kind, bool(wcs), site(x), "%d with_condition_domain(s) calls" % len(wcs))
        n_sing = n_plur = 0
        for bi, t in wcs:
            plural = t["callee"].endswith("domains")
            reaching = [e for e, _ in ces if bi in reach[e]]
            in_loops = [h for h in body if bi in body[h] and any(e in body[h] for e, _ in ces)]
            if not plural:
                n_sing += 1
                ok = len(reaching) <= 1 and not in_loops
                ck.ob("R6", "chain/%s/single-condition-gate@%d" % (kind, n_sing), ok, site(x, t["l"]),
                      "with_condition_domain (one condition) is used where exactly one condition gates the branch" if ok else
                      "a branch reached after %d condition evaluations%s is lowered under one condition only: the earlier conditions of the "
                      "chain gate its writes as well and are not checked" % (len(reaching), " (inside the loop over the chain)" if in_loops else ""))
                continue
            n_plur += 1
            V = _root_named(g, t["args"][1])
            if V is None:
                ck.ob("R6", "chain/%s/gate-list@%d" % (kind, n_plur), None, site(x, t["l"]), "cannot resolve the condition list passed to with_condition_domains")
                continue
            pushes = [(pb, pt) for pb, pt in g.calls(VPUSH) if _root_named(g, pt["args"][0]) == V]
            for e, et in ces:
                if bi not in reach[e]:
                    continue
                tn = taint.Taint(g, seed_call=lambda tt, et=et: tt is et, pure=PUREX)
                same_loop = [h for h in body if e in body[h] and bi in body[h]]
                if same_loop:
                    gates = [pb for pb, pt in pushes if tn.op_tainted(pt["args"][1])]
                    esc = flow.escapes(g, et["to"], gates, stops=[bi] + same_loop)
                    ok = bi not in esc
                    ck.ob("R6", "chain/%s/gate-list@%d/has-own-condition" % (kind, n_plur), ok, site(x, t["l"]),
                          "the condition evaluated in this iteration is pushed onto `%s` on every path to the branch's lowering" % g.name(V) if ok else
                          "the branch can be lowered without its own condition (evaluated at line %s) having been pushed onto `%s`" % (et["l"], g.name(V)))
                elif not any(e in body[h] for h in body):
                    # evaluated before the chain loop (the first `if`): it must be in the list from the start or be pushed
                    ok = any(tn.op_tainted(pt["args"][1]) for pb, pt in pushes) or _init_holds(g, V, tn)
                    ck.ob("R6", "chain/%s/gate-list@%d/has-first-condition" % (kind, n_plur), ok, site(x, t["l"]),
                          "the condition evaluated before the chain (line %s) is in `%s`" % (et["l"], g.name(V)) if ok else
                          "`%s` never receives the condition evaluated at line %s, which gates this branch too" % (g.name(V), et["l"]))
                # evaluated in the loop, lowered after it (final else / default): same list as inside the loop, checked below
            inner = [g.name(_root_named(g, t2["args"][1]) or -1) for b2, t2 in wcs if t2["callee"].endswith("domains")]
            ck.ob("R6", "chain/%s/gate-list@%d/one-list" % (kind, n_plur), len(set(inner)) == 1, site(x, t["l"]),
                  "every branch of the chain is lowered under the same accumulating list (%s)" % sorted(set(map(str, inner))))
            # N4 the list only grows
            bad = []
            for b2, t2 in g.calls():
                if VEC_SHRINK.search(t2.get("callee") or "") and t2["args"] and _root_named(g, t2["args"][0]) == V:
                    bad.append("%s at line %s" % (t2["callee"].split("::")[-1], t2["l"]))
            ndef = [d for d in g.defs.get(V, []) if any(d[1] in body[h] and any(e in body[h] for e, _ in ces) for h in body)]
            if ndef:
                bad.append("re-initialised inside the loop")
            ck.ob("R6", "chain/%s/gate-list@%d/only-grows" % (kind, n_plur), not bad, site(x, t["l"]),
                  "`%s` is never shrunk or re-initialised inside the chain" % g.name(V) if not bad else "`%s` loses earlier conditions: %s" % (g.name(V), bad))
    ck.floor("R6", "chain converters", len([k for k in CHAINS if CONV_PRE % k in w.fns]), 4)


def _init_holds(g, V, tn):
    """`let V = vec![x]` with x tainted: the array written into the box that becomes V"""
    roots = set()
    for bi, t in g.calls(r"box_assume_init_into_vec_unsafe$|slice::<impl \[T\]>::into_vec$|Vec::<T>::from_elem$|from_iter$"):
        if t["dst"][0] == V and not t["dst"][1]:
            if "from_elem" in t["callee"] or "from_iter" in t["callee"]:
                if any(tn.op_tainted(a) for a in t["args"]):
                    return True
            for a in t["args"]:
                if a[0] != "k":
                    roots |= _local_roots(g, a[1][0])
    for b in g.blocks:
        if b.get("cu"):
            continue
        for st in b["s"]:
            if st[0] == "=" and st[2][0] == "agg" and st[2][1] == "array" and "*" in st[1][1]:
                if _local_roots(g, st[1][0]) & roots and any(tn.op_tainted(o) for o in st[2][2]):
                    return True
    return False


def _local_roots(g, l, depth=8):
    out = {l}
    for _ in range(depth):
        d = g.def_of(l)
        if d is None or d[0] != "s":
            break
        rv = g.rvalue_at(d)
        if rv[0] == "use" and rv[1][0] != "k":
            l = rv[1][1][0]
        elif rv[0] == "cast" and rv[2][0] != "k":
            l = rv[2][1][0]
        elif rv[0] in ("ref", "ptr"):
            l = rv[2][0]
        else:
            break
        out.add(l)
    return out


# ---------------- R7 the representative of a callee clock domain carries a domain ----------------------------------------------------
def _representative(ck, w):
    p = [q for q in MUST_CALL if "InstDeclaration" in q][0]
    if p not in w.fns:
        return
    x = w.fns[p]
    g = Fn(w.mir(p))
    ins = []
    for bi, t in g.calls(r"HashMap<.*>::insert$|hash::map::HashMap.*::insert$"):
        V = _root_named(g, t["args"][0])
        if V is not None and g.name(V) == "clock_domain_table":
            ins.append((bi, t))
    ck.ob("R7", "inst-connect/representative-table", bool(ins), site(x), "%d insertions into clock_domain_table" % len(ins))
    # comparisons of an expression's clock_domain with the constant ClockDomain::None
    cmps = []
    for cb, ct in g.calls(r"PartialEq(<.*>)?>?::(ne|eq)$"):
        if not any(flow.access_path(g, a)[1][-1:] == ("clock_domain",) for a in ct["args"]):
            continue
        none = False
        for a in ct["args"]:
            pi = _promoted_idx(g, a)
            pr = w.promoted(p, pi) if pi is not None else None
            if pr and _promoted_variant(pr) == "None":
                none = True
        sw = g.blocks[ct["to"]]["t"]
        if none and sw["t"] == "sw" and sw["on"][0] != "k" and sw["on"][1][0] == ct["dst"][0] and len(sw["vals"]) == 1 and sw["vals"][0][0] == "0":
            ne = ct["callee"].endswith("::ne")
            cmps.append((ct["to"], sw["else"] if ne else sw["vals"][0][1], sw["vals"][0][1] if ne else sw["else"], ct))
    for k, (bi, t) in enumerate(ins):
        ok = False
        for swb, differs, same, ct in cmps:
            # the insertion is reached over the `differs` edge and cannot be reached over the other one
            if bi in g.reach_from(differs, avoid=[swb]) and bi not in g.reach_from(same, avoid=[swb]):
                # and it is the inserted expression's domain that was compared
                va = _root_named(g, t["args"][2]) if len(t["args"]) > 2 else None
                ca = [_root_named(g, a) for a in ct["args"]]
                if va is None or va in ca:
                    ok = True
        ck.ob("R7", "inst-connect/representative-has-domain@%d" % (k + 1), ok, site(x, t["l"]),
              "an expression becomes the representative of a callee clock domain only where its clock_domain was compared with ClockDomain::None and differs" if ok else
              "an expression whose clock domain may be None (a constant) becomes the representative of a callee clock domain: None is compatible "
              "with everything, so every later connection to that domain is accepted")


# ---------------- R6b the condition stack only grows inside with_condition_domain(s) and is cut back to its old length ------------------
def _condition_stack(ck, w):
    CX = "veryl_analyzer::conv::context::Context::"
    n = 0
    for p, sm in sorted(w.fns.items()):
        if not p.startswith(CX + "with_condition_domain") or sm.get("alias_of") or "{" in p[len(CX):]:
            continue
        n += 1
        g = Fn(w.mir(p))
        bad = []
        grow = shrink = 0
        for bi, t in g.calls():
            c = t.get("callee") or ""
            if not t["args"] or t["args"][0][0] == "k":
                continue
            try:
                r, pth = flow.access_path(g, t["args"][0])
            except Exception:
                continue
            on_stack = any(flow.access_path(g, a)[1][-1:] == ("condition_domains",) for a in t["args"] if a[0] != "k")
            if not on_stack:
                continue
            last = c.split("::")[-1]
            if last in ("push", "extend_from_slice", "extend"):
                grow += 1
            elif last in ("truncate", "pop"):
                shrink += 1
            elif last in ("len", "deref", "deref_mut", "as_slice"):
                pass
            else:
                bad.append("%s at line %s" % (last, t["l"]))
        for bi, si, st in flow.field_writes(g, r"conv::context::Context$", "condition_domains"):
            bad.append("the stack is assigned as a whole at line %s" % st[3])
        ok = not bad and grow >= 1 and shrink >= 1
        ck.ob("R6", "condition-stack-discipline:" + p.split("::")[-1].split("<")[0], ok, site(sm),
              "the conditions are pushed on top of the enclosing ones and cut back afterwards" if ok else
              "the condition stack is %s: while the branch is lowered the conditions of the enclosing statements are not on it, so a foreign-domain "
              "condition further out is not checked" % (bad or "not grown and shrunk symmetrically (grow %d, shrink %d)" % (grow, shrink)))
    ck.floor("R6", "with_condition_domain(s) helpers", n, 2)


# ---------------- R2c compatible() says true only for None operands, equal ids, or two id-less domains --------------------------------
def _compatible_paths(ck, w):
    P = CD + "::compatible"
    if P not in w.fns:
        ck.missing("R2", P)
        return
    sm = w.fns[P]
    g = Fn(w.mir(P))
    try:
        paths = flow.enumerate_paths(g, 0, g.returns(), limit=5000)
    except OverflowError:
        ck.ob("R2", "compatible/true-only-when-same-or-none", None, site(sm), "too many paths")
        return
    bad = []
    n_true = 0
    for path in paths:
        blocks = [b for b, _ in path] + ([path[-1][1]] if path else [0])
        ret_const = None
        for b in blocks:
            for st in g.blocks[b]["s"]:
                if st[0] == "=" and st[1] == [0, []]:
                    rv = st[2]
                    ret_const = rv[1][1].get("int") if rv[0] == "use" and rv[1][0] == "k" and isinstance(rv[1][1], dict) else "expr"
        if ret_const != "1":
            continue
        n_true += 1
        fx = flow.path_facts(g, path)
        if flow.contradictory(fx):
            continue
        txt = repr(fx)
        none_operand = any(x[0] == "isvariant" and x[2] == "None" and "domain_id" not in repr(x[1]) for x in fx)
        ids = [x for x in fx if x[0] == "isvariant" and "domain_id" in repr(x[1])]
        some = [x for x in ids if x[2] == "Some"]
        none = [x for x in ids if x[2] == "None"]
        if none_operand:
            continue
        if len(none) >= 2 and not some:
            continue
        bad.append("Some/None ids: %d/%d" % (len(some), len(none)))
    ck.ob("R2", "compatible/true-only-when-same-or-none", n_true > 0 and not bad, site(sm),
          "compatible() returns the constant true only where an operand is ClockDomain::None or neither domain has an id (%d such paths); with two "
          "ids it returns their comparison" % n_true if n_true and not bad else
          "compatible() returns true on a path where one domain has an id and the other has none (%s): an implicit, not yet inferred domain is "
          "accepted against any concrete one" % bad[:2])


# ---------------- R7b whether a connection is checked does not depend on the port's direction -----------------------------------------------
def _connect_check_independent_of_direction(ck, w):
    import taint
    p = [q for q in MUST_CALL if "InstDeclaration" in q][0]
    if p not in w.fns:
        return
    sm = w.fns[p]
    g = Fn(w.mir(p))
    checks = [bi for bi, t in g.calls("^" + re.escape(K) + "$")]
    tn = taint.Taint(g, seed_place=lambda pl: any(isinstance(q, list) and q[0] == "f" and q[2] == "kind" and (q[3] or "").endswith("ir::variable::Variable") for q in pl[1]),
                     pure=re.compile(r"PartialEq.*::(eq|ne)$"))
    dep = []
    # loop heads = targets of DFS back edges (covers every loop form, not only the `for` loops flow.loops_over recognises)
    backs, state, stack = [], {0: 1}, [(0, iter(g.succ[0]))]
    while stack:
        n, it = stack[-1]
        for m in it:
            if g.blocks[m].get("cu"):
                continue
            if state.get(m) == 1:
                backs.append((n, m))
            elif m not in state:
                state[m] = 1
                stack.append((m, iter(g.succ[m])))
                break
        else:
            state[n] = 2
            stack.pop()
    for snk in tn.sinks():
        if snk[0] != "switch":
            continue
        b = _matches_join(g, snk[1])
        # b is inside the natural loop of back edge n->h iff b reaches n without passing h
        heads = sorted({h for n, h in backs if b != h and (n == b or n in g.reach_from(b, avoid=[h]))})
        succ = [x for x in g.succ[b] if not g.blocks[x].get("cu")]
        reach = [g.reach_from(x, avoid=heads + [b]) for x in succ]
        hits = [any(cb in r for cb in checks) for r in reach]
        if any(hits) and not all(hits):
            dep.append(g.blocks[b]["t"].get("l"))
    ck.ob("R7", "inst-connect/check-independent-of-port-direction", bool(checks) and not dep, site(sm),
          "the clock-domain check of a connection is not control dependent on the port's kind" if checks and not dep else
          "whether a connection is checked depends on the callee port's kind (branch at line %s): connections of the other kinds (inout, ...) cross "
          "domains unchecked" % sorted(set(dep)))


def _assign_inference(ck, w):
    """R8: a variable without a domain of its own must adopt the domain of what is assigned to it. Module variables are Implicit and
    become Inferred at their first assignment; the `let` / `var` of an always block is created with ClockDomain::None, which is compatible
    with everything - if the inference in check_assign_clock_domain is reserved to Implicit destinations, a crossing routed through such
    a local (`let t = i_a; o_b = t;`) is never seen."""
    if KA not in w.fns:
        return
    sm = w.fns[KA]
    g = Fn(w.mir(KA))
    ws = []
    for bi, si, st in flow.field_writes(g, r"ir::comptime::Comptime$|ir::Comptime$", "clock_domain"):
        rv = st[2]
        d = repr(g.describe(rv[1], 4)) if rv[0] == "use" and rv[1][0] != "k" else repr(rv)
        if re.search(r"ClockDomain', 'Inferred'|'variant': 'Inferred'", d):
            ws.append((bi, st))
    ck.ob("R8", "assign/inference-writes", len(ws) >= 2, site(sm), "%d writes of ClockDomain::Inferred (destination and its var_paths entry; counted by hand: 2)" % len(ws))
    cmps = []
    for cb, ct in g.calls(r"PartialEq(<.*>)?>?::(ne|eq)$"):
        if not any(flow.access_path(g, a)[1][-1:] == ("clock_domain",) for a in ct["args"]):
            continue
        var = None
        for a in ct["args"]:
            pi = _promoted_idx(g, a)
            pr = w.promoted(KA, pi) if pi is not None else None
            if pr:
                var = _promoted_variant(pr)
        sw = g.blocks[ct["to"]]["t"]
        if var == "Implicit" and sw["t"] == "sw" and sw["on"][0] != "k" and sw["on"][1][0] == ct["dst"][0] and len(sw["vals"]) == 1 and sw["vals"][0][0] == "0":
            ne = ct["callee"].endswith("::ne")
            cmps.append((ct["to"], sw["else"] if ne else sw["vals"][0][1], sw["vals"][0][1] if ne else sw["else"], ct))
    if not cmps or not ws:
        ck.ob("R8", "assign/inference-not-only-for-implicit", None if ws else False, site(sm),
              "no comparison of the destination's clock_domain with ClockDomain::Implicit found: cannot decide where the inference applies")
        return
    for k, (swb, differs, same, ct) in enumerate(cmps):
        r_other = g.reach_from(differs, avoid=[swb])
        ok = all(bi in r_other for bi, _ in ws)
        ck.ob("R8", "assign/inference-not-only-for-implicit@%d" % (k + 1), ok, site(sm, ct["l"]),
              "the destination's domain is inferred also where it is not Implicit (a block local created with ClockDomain::None adopts the "
              "domain of the clock / of the assigned value)" if ok else
              "the destination's domain is inferred only where it is ClockDomain::Implicit: a `let` / `var` declared inside an always block "
              "has ClockDomain::None, keeps it, and None is compatible with every domain - a value of one domain copied into such a local "
              "and from there to a signal of another domain crosses unreported")


def _function_result_domain(ck, w):
    """R9: function_call starts from `func.r#type` and merges the argument domains; what the body reads besides its arguments (a signal of
    the enclosing module) reaches the caller only if the converter of the function declaration copies the return variable's inferred
    domain into `r#type` (the return statement itself is in the must-call table of R5)."""
    import taint
    P = "veryl_analyzer::conv::declaration::conv_function"
    if P not in w.fns:
        ck.missing("R9", P)
        return
    sm = w.fns[P]
    g = Fn(w.mir(P))
    ws = []
    for bi, si, st in flow.field_writes(g, r"ir::comptime::Comptime$|ir::Comptime$", "clock_domain"):
        rv = st[2]
        if rv[0] == "use" and rv[1][0] != "k" and any(x[0] == "call" and (x[1] or "").endswith("Context::block") for x in g.prov(rv[1], depth=16)):
            ws.append(st)
    ck.ob("R9", "function/result-domain-written", bool(ws), site(sm, ws[0][3] if ws else None),
          "the function's result type receives a clock domain computed while its body was converted" if ws else
          "conv_function never writes the clock_domain of the function's result type from the body conversion: the result is ClockDomain::None "
          "whatever the body returns, and `assign o_b = h();` with `h` returning a signal of another domain is accepted")
    ok = False
    where = None
    for q, x in sorted(w.fns.items()):
        if not q.startswith(P + "::{closure") or x.get("alias_of"):
            continue
        if not any((c["c"] or "").endswith("Context::find_path") for c in x["calls"]) or not any((c["c"] or "").endswith("get_return_str") for c in x["calls"]):
            continue
        gq = Fn(w.mir(q))
        tn = taint.Taint(gq, seed_call=lambda t: (t.get("callee") or "").endswith("Context::find_path"),
                         pure=re.compile(r"Option::<T>::map$|Try>::branch$|Clone>::clone$"))
        for bi, b in enumerate(gq.blocks):
            for st in b["s"]:
                if st[0] == "=" and st[1][0] == 0:
                    ops = [o for o in st[2][1:] if isinstance(o, list) and o and o[0] in ("c", "m")]
                    if st[2][0] == "agg":
                        ops = [o for o in st[2][2] if isinstance(o, list) and o and o[0] in ("c", "m")]
                    if any(tn.op_tainted(o) for o in ops):
                        ok = True
                        where = (x, st[3])
    ck.ob("R9", "function/result-domain-from-return-variable", ok, site(*where) if where else site(sm),
          "the body conversion returns the domain found in the return variable's path entry (Context::find_path(get_return_str()))" if ok else
          "no closure of conv_function hands the return variable's domain (Context::find_path of get_return_str()) back to the converter")


def _function_output_domain(ck, w):
    """R9b: the same for output arguments: conv_function's body closure refreshes the clock_domain of every argument member from its
    path entry after the body was converted, and function_call checks each output destination against that member's comptime."""
    P = "veryl_analyzer::conv::declaration::conv_function"
    FC = "veryl_analyzer::conv::utils::function_call"
    ok_w = False
    where = None
    for q, x in sorted(w.fns.items()):
        if not q.startswith(P + "::{closure") or x.get("alias_of"):
            continue
        gq = Fn(w.mir(q))
        for bi, si, st in flow.field_writes(gq, r"ir::comptime::Comptime$|ir::Comptime$", "clock_domain"):
            rv = st[2]
            if rv[0] == "use" and rv[1][0] != "k" and any(y[0] == "call" and (y[1] or "").endswith("Context::find_path") for y in gq.prov(rv[1], depth=16)):
                ok_w = True
                where = (x, st[3])
    ck.ob("R9", "function/output-argument-domain-refreshed", ok_w, site(*where) if where else (site(w.fns[P]) if P in w.fns else ""),
          "after the body was converted the argument members take the clock_domain found in their path entries" if ok_w else
          "conv_function never refreshes the argument members' clock_domain from the converted body: an output argument written from a "
          "module signal (`function g(r: output logic) { r = i_a; }`) reaches the caller without its domain")
    ok_c = False
    where = None
    for q, x in sorted(w.fns.items()):
        if not (q == FC or q.startswith(FC + "::{closure")) or x.get("alias_of"):
            continue
        gq = Fn(w.mir(q))
        for bi, t in gq.calls("^" + re.escape(K) + "$"):
            d = repr(gq.describe(t["args"][2], 10))
            if "Iterator::find" in d and ("members" in d or "flat_map" in d):
                ok_c = True
                where = (x, t["l"])
    ck.ob("R9", "function/output-destination-checked-against-member", ok_c, site(*where) if where else (site(w.fns[FC]) if FC in w.fns else ""),
          "function_call checks every output destination against the callee-side member found for that argument" if ok_c else
          "function_call checks output destinations against the merged input domains only")


def _matches_join(g, b):
    """`matches!(x, A | B)` lowers to a switch whose arms only set a bool and join at a switch on that bool: the decision is the join"""
    ss = [x for x in g.succ[b] if not g.blocks[x].get("cu")]
    if len(ss) < 2:
        return b
    tgt, loc = set(), set()
    for x in ss:
        st, t = g.blocks[x].get("s") or [], g.blocks[x]["t"]
        if t.get("t") != "goto" or len(st) != 1 or st[0][0] != "=" or st[0][2][0] != "use" or st[0][2][1][0] != "k" or st[0][2][1][1].get("ty") != "bool":
            return b
        tgt.add(t["to"])
        loc.add(st[0][1][0])
    if len(tgt) != 1 or len(loc) != 1:
        return b
    j = tgt.pop()
    jt = g.blocks[j]["t"]
    if jt.get("t") == "sw" and jt["on"][0] in ("m", "c") and jt["on"][1][0] == loc.pop():
        return j
    return b


def _short(p):
    m = re.search(r"Conv<\(?&[^>]*::([A-Za-z]+)(, bool\))?> for", p)
    if m:
        return "conv<" + m.group(1) + ">"
    return "::".join(p.split("::")[-2:])


def _ordinal(g, bi):
    order = sorted(g.calls(r"PartialEq.*::(eq|ne)$"), key=lambda x: (x[1]["l"], x[0]))
    for i, (b, _) in enumerate(order):
        if b == bi:
            return i + 1
    return 0


def _promoted_idx(g, op):
    if op[0] == "k":
        return op[1].get("promoted")
    l = op[1][0]
    for _ in range(5):
        d = g.def_of(l)
        if not d or d[0] != "s":
            return None
        rv = g.rvalue_at(d)
        if rv[0] == "use" and rv[1][0] == "k":
            return rv[1][1].get("promoted")
        if rv[0] == "use":
            l = rv[1][1][0]
        elif rv[0] in ("ref", "ptr"):
            l = rv[2][0]
        else:
            return None
    return None


def _promoted_variant(pr):
    for b in pr["blocks"]:
        for s in b["s"]:
            if s[0] == "=" and s[2][0] == "agg" and isinstance(s[2][1], dict) and (s[2][1].get("adt") or "").endswith("ClockDomain"):
                return s[2][1].get("variant")
    return None


def _propagation(ck, w, g, sm, short, ops, need_call_merge=False):
    """the function writes dst.clock_domain from a merge over all operands' domains"""
    ws = flow.field_writes(g, r"ir::comptime::Comptime$|ir::Comptime$", "clock_domain")
    if not ws:
        ck.ob("R4", short + "/propagates-domain", False, site(sm), "the result's clock_domain is never written: downstream checks see no domain")
        return
    covered = set()
    merged = False
    for bi, si, st in ws:
        rv = st[2]
        o = rv[1] if rv[0] == "use" else None
        if o is None:
            continue
        pv = g.prov(o, depth=20)
        if any(x[0] == "call" and (x[1] or "").endswith("ClockDomain::merge") for x in pv):
            merged = True
        for x in pv:
            if x[0] == "arg" and any(p[0] == "f" and p[1] == "clock_domain" for p in x[2]):
                covered.add(g.name(x[1]))
            if x[0] == "call" and re.search(r"Iterator>::next$", x[1] or ""):
                # a loop variable over an array literal of operands: `for branch in [y, z] { dst = dst.merge(&branch.clock_domain) }`
                nt = g.blocks[x[2]]["t"]
                rr, pp = flow.access_path(g, nt["args"][0])
                if rr[0] == "agg" and rr[1] == "array":
                    for o in g.blocks[rr[2]]["s"][rr[3]][2][2]:
                        ro, po = flow.access_path(g, o)
                        if ro[0] == "arg":
                            covered.add(g.name(ro[1]))
    if need_call_merge:
        ck.ob("R4", short + "/propagates-domain", merged, site(sm, ws[0][2][3]), "the accumulated result domain is merged with each element's domain")
        return
    for o in ops:
        ck.ob("R4", "%s/propagates:%s" % (short, o), o in covered and merged, site(sm, ws[0][2][3]),
              "the result's clock_domain merges %s.clock_domain" % o if o in covered and merged else
              "the result's clock_domain ignores operand %s: a value derived from it loses its domain and later crossings go unreported" % o)
