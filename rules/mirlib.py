"""MIR helpers shared by the rules: CFG, must-facts (P2/P3), provenance (P8), call graph (P1)."""
import re
from collections import defaultdict, deque

TOP = None  # universe for implication sets


def place_key(pl):
    """Hashable key of a place: (local, (proj...))."""
    out = []
    for p in pl[1]:
        if isinstance(p, list):
            if p[0] == "f":
                out.append(("f", p[2], p[3]))
            elif p[0] == "v":
                out.append(("v", p[1]))
            elif p[0] == "i":
                out.append(("i",))
            else:
                out.append((p[0],))
        else:
            out.append((p,))
    return (pl[0], tuple(out))


def place_fields(pl):
    """List of (adt, field) along the place."""
    return [(p[3], p[2]) for p in pl[1] if isinstance(p, list) and p[0] == "f"]


class Fn:
    def __init__(self, rec):
        self.rec = rec
        self.path = rec["path"]
        self.blocks = rec["blocks"]
        self.locals = rec["locals"]
        self.nargs = rec.get("nargs", 0)
        self.n = len(self.blocks)
        self.succ = [self._succ(b) for b in self.blocks]
        self.pred = [[] for _ in self.blocks]
        for i, ss in enumerate(self.succ):
            for s in ss:
                self.pred[s].append(i)
        # definitions of whole locals
        self.defs = defaultdict(list)
        for bi, b in enumerate(self.blocks):
            if b.get("cu"):
                continue
            for si, s in enumerate(b["s"]):
                if s[0] == "=" and not s[1][1]:
                    self.defs[s[1][0]].append(("s", bi, si))
            t = b["t"]
            if t["t"] == "call" and not t["dst"][1]:
                self.defs[t["dst"][0]].append(("c", bi))
        self._reach = None

    @staticmethod
    def _succ(b):
        t = b["t"]
        k = t["t"]
        if k == "goto":
            return [t["to"]]
        if k == "sw":
            out = [v[1] for v in t["vals"]]
            out.append(t["else"])
            return list(dict.fromkeys(out))
        if k in ("call", "drop", "assert"):
            return [t["to"]] if t.get("to") is not None else []
        return []

    def name(self, l):
        return self.locals[l][1]

    def ty(self, l):
        return self.locals[l][0]

    def local_named(self, name):
        return [i for i, l in enumerate(self.locals) if l[1] == name]

    def reachable(self):
        if self._reach is None:
            seen = {0}
            dq = deque([0])
            while dq:
                b = dq.popleft()
                for s in self.succ[b]:
                    if s not in seen:
                        seen.add(s)
                        dq.append(s)
            self._reach = seen
        return self._reach

    def calls(self, pat=None):
        """[(bb, terminator)] of call terminators on normal (non-cleanup) blocks, optionally filtered by regex on callee."""
        out = []
        for bi, b in enumerate(self.blocks):
            if b.get("cu"):
                continue
            t = b["t"]
            if t["t"] == "call":
                c = t.get("callee") or ""
                if pat is None or re.search(pat, c):
                    out.append((bi, t))
        return out

    def returns(self):
        return [i for i, b in enumerate(self.blocks) if b["t"]["t"] == "ret" and not b.get("cu")]

    # ---- single-definition chains -------------------------------------------------
    def def_of(self, l):
        d = self.defs.get(l, [])
        if len(d) == 1:
            return d[0]
        return None

    def rvalue_at(self, d):
        if d[0] == "s":
            return self.blocks[d[1]]["s"][d[2]][2]
        return None

    def describe(self, op, depth=8):
        """Expression tree of an operand through single-def temporaries."""
        if op[0] == "k":
            k = op[1]
            if "fn" in k:
                return ("fnref", k["fn"])
            if "str" in k:
                return ("const", k["str"])
            if "const" in k:
                if k.get("promoted") is not None:
                    return ("promoted", k["const"], k["promoted"])
                return ("named", k["const"], k.get("int"))
            if "int" in k:
                return ("const", int(k["int"]))
            return ("const", k.get("v"))
        return self.describe_place(op[1], depth)

    def describe_place(self, pl, depth=8):
        l, proj = pl[0], pl[1]
        base = self.describe_local(l, depth)
        if not proj:
            return base
        return ("proj", base, place_key(pl)[1])

    def describe_local(self, l, depth=8):
        if 1 <= l <= self.nargs:
            return ("arg", l, self.name(l))
        if depth <= 0:
            return ("local", l)
        ds = self.defs.get(l, [])
        if len(ds) == 0:
            return ("local", l)
        outs = []
        for d in ds[:6]:
            outs.append(self._describe_def(d, depth))
        if len(outs) == 1:
            return outs[0]
        return ("phi", tuple(outs))

    def _describe_def(self, d, depth):
        if d[0] == "c":
            t = self.blocks[d[1]]["t"]
            return ("call", t.get("callee"), tuple(self.describe(a, depth - 1) for a in t["args"]), d[1])
        rv = self.rvalue_at(d)
        k = rv[0]
        if k == "use":
            return self.describe(rv[1], depth - 1)
        if k in ("ref", "ptr"):
            inner = self.describe_place(rv[2], depth - 1)
            return inner  # references are transparent
        if k == "cast":
            return self.describe(rv[2], depth - 1)
        if k == "bin":
            return ("bin", rv[1], self.describe(rv[2], depth - 1), self.describe(rv[3], depth - 1))
        if k == "un":
            return ("un", rv[1], self.describe(rv[2], depth - 1))
        if k == "discr":
            return ("discr", self.describe_place(rv[1], depth - 1))
        if k == "agg":
            kind = rv[1]
            kk = kind if isinstance(kind, str) else (kind.get("adt") or ("closure:" + kind.get("closure", "")), kind.get("variant"))
            return ("agg", kk, tuple(self.describe(o, depth - 1) for o in rv[2]))
        if k == "rep":
            return ("rep", self.describe(rv[1], depth - 1))
        if k == "tlref":
            return ("tls", rv[1])
        return ("other", k)

    # ---- provenance (P8) -----------------------------------------------------------
    def prov(self, op, depth=12, through_calls=True):
        """Set of leaf sources an operand may derive from (flow-insensitive over all defs)."""
        out = set()
        seen = set()

        def place_src(pl, d):
            l = pl[0]
            proj = place_key(pl)[1]
            if 1 <= l <= self.nargs:
                out.add(("arg", l, proj))
                return
            fields = tuple(p for p in proj if p[0] == "f")
            if fields:
                out.add(("field",) + fields[-1][1:])
            local_src(l, d)

        def op_src(o, d):
            if o[0] == "k":
                k = o[1]
                if "fn" in k:
                    out.add(("fnref", k["fn"]))
                elif "const" in k:
                    out.add(("named", k["const"], k.get("promoted")))
                elif "str" in k:
                    out.add(("const", k["str"]))
                elif "int" in k:
                    out.add(("const", int(k["int"])))
                else:
                    out.add(("const", k.get("v")))
            else:
                place_src(o[1], d)

        def local_src(l, d):
            if (l, ) in seen:
                return
            seen.add((l,))
            if 1 <= l <= self.nargs:
                out.add(("arg", l, ()))
                return
            if d <= 0:
                out.add(("unknown", l))
                return
            ds = self.defs.get(l, [])
            if not ds:
                # defined only through projections (struct built field by field) or never
                out.add(("local", l))
            for df in ds:
                if df[0] == "c":
                    t = self.blocks[df[1]]["t"]
                    out.add(("call", t.get("callee"), df[1]))
                    if through_calls:
                        for a in t["args"]:
                            op_src(a, d - 1)
                else:
                    rv = self.rvalue_at(df)
                    k = rv[0]
                    if k in ("use", "rep"):
                        op_src(rv[1], d - 1)
                    elif k in ("ref", "ptr"):
                        place_src(rv[2], d - 1)
                    elif k == "cast":
                        op_src(rv[2], d - 1)
                    elif k == "bin":
                        out.add(("op", rv[1]))
                        op_src(rv[2], d - 1)
                        op_src(rv[3], d - 1)
                    elif k == "un":
                        out.add(("op", rv[1]))
                        op_src(rv[2], d - 1)
                    elif k == "discr":
                        place_src(rv[1], d - 1)
                    elif k == "agg":
                        for o in rv[2]:
                            op_src(o, d - 1)
                    elif k == "tlref":
                        out.add(("tls", rv[1]))
                    else:
                        out.add(("unknown", l))
            # also field-wise / deref writes into this local: `l.f = x`, `(*l) = x`
            for bi, b in enumerate(self.blocks):
                if b.get("cu"):
                    continue
                for s in b["s"]:
                    if s[0] == "=" and s[1][0] == l and s[1][1]:
                        rv = s[2]
                        if rv[0] in ("use", "rep"):
                            op_src(rv[1], d - 1)
                        elif rv[0] in ("ref", "ptr"):
                            place_src(rv[2], d - 1)
                        elif rv[0] == "cast":
                            op_src(rv[2], d - 1)
                        elif rv[0] == "bin":
                            out.add(("op", rv[1]))
                            op_src(rv[2], d - 1); op_src(rv[3], d - 1)
                        elif rv[0] == "agg":
                            for o in rv[2]:
                                op_src(o, d - 1)
                t = b["t"]
                if t["t"] == "call" and t["dst"][0] == l and t["dst"][1]:
                    out.add(("call", t.get("callee"), bi))
                    if through_calls:
                        for a in t["args"]:
                            op_src(a, d - 1)

        op_src(op, depth)
        return out

    # ---- dominators ---------------------------------------------------------------
    def dominators(self):
        reach = self.reachable()
        order = [b for b in range(self.n) if b in reach]
        dom = {b: set(order) for b in order}
        dom[0] = {0}
        changed = True
        while changed:
            changed = False
            for b in order:
                if b == 0:
                    continue
                ps = [p for p in self.pred[b] if p in reach]
                if not ps:
                    continue
                new = set.intersection(*(dom[p] for p in ps)) | {b}
                if new != dom[b]:
                    dom[b] = new
                    changed = True
        return dom

    def reaches(self, a, b, avoid=()):
        """Is block b reachable from block a (through >= 0 edges) without entering blocks in avoid?"""
        if a in avoid:
            return False
        seen = {a}
        dq = deque([a])
        while dq:
            x = dq.popleft()
            if x == b:
                return True
            for s in self.succ[x]:
                if s not in seen and s not in avoid:
                    seen.add(s)
                    dq.append(s)
        return False

    def reach_from(self, a, avoid=()):
        seen = set()
        dq = deque([a])
        while dq:
            x = dq.popleft()
            if x in seen or x in avoid:
                continue
            seen.add(x)
            dq.extend(self.succ[x])
        return seen


# -------------------------------------------------------------------------------------
# Must-facts (P2 / P3)


class MustFacts:
    """Forward must-analysis. Atoms:
       ("val", local, bool)                 a bool local has this value
       ("variant", place_key, name)         enum place currently holds this variant
       ("notvariant", place_key, names)     ... none of these variants
       ("br", bb, label)                    the last execution of switch bb took edge label
       ("called", callee)                   a call to callee returned normally on every path
       ("calledbb", bb)                     the call terminator of bb returned normally on every path
       ("int", local, value)                an integer switch local equals value
    """

    def __init__(self, fn: Fn, avoid=(), entry=0):
        self.fn = fn
        self.avoid = set(avoid)
        self.entry = entry
        self.IN = {}
        self._before_term = {}
        self._run()

    # state = (frozenset facts, tuple(sorted imp items)) with imp: local -> (Tset|TOP, Fset|TOP)
    def _kill_local(self, F, imp, l):
        F2 = set()
        for a in F:
            if a[0] in ("val", "int") and a[1] == l:
                continue
            if a[0] in ("variant", "notvariant") and a[1][0] == l:
                continue
            F2.add(a)
        imp2 = {}
        for k, (t, f) in imp.items():
            if k == l:
                continue
            imp2[k] = (self._strip(t, l), self._strip(f, l))
        return F2, imp2

    @staticmethod
    def _strip(s, l):
        if s is TOP:
            return TOP
        return frozenset(a for a in s if not ((a[0] in ("val", "int") and a[1] == l) or (a[0] in ("variant", "notvariant") and a[1][0] == l)))

    def _transfer_stmt(self, F, imp, s):
        fn = self.fn
        if s[0] != "=":
            if s[0] == "setd":
                F, imp = self._kill_local(F, imp, s[1][0])
            return F, imp
        dst, rv = s[1], s[2]
        l = dst[0]
        if dst[1]:
            # write through a projection: kill facts about that root
            if any(p == "*" for p in dst[1]):
                return F, imp  # write through a pointer: we do not track aliased state
            F, imp = self._kill_local(F, imp, l)
            return F, imp
        is_bool = fn.ty(l) == "bool"
        new_imp = None
        if is_bool:
            if rv[0] == "use" and rv[1][0] == "k" and "int" in rv[1][1]:
                v = rv[1][1]["int"] not in ("0", 0)
                cur = frozenset(F)
                new_imp = (cur, TOP) if v else (TOP, cur)
            elif rv[0] == "use" and rv[1][0] in ("c", "m") and not rv[1][1][1] and fn.ty(rv[1][1][0]) == "bool":
                m = rv[1][1][0]
                if m in imp:
                    t, f = imp[m]
                    cur = frozenset(F)
                    new_imp = (TOP if t is TOP else t | cur, TOP if f is TOP else f | cur)
                else:
                    cur = frozenset(F)
                    new_imp = (cur | {("val", m, True)}, cur | {("val", m, False)})
            elif rv[0] == "un" and rv[1] == "Not" and rv[2][0] in ("c", "m") and not rv[2][1][1]:
                m = rv[2][1][0]
                cur = frozenset(F)
                if m in imp:
                    t, f = imp[m]
                    new_imp = (TOP if f is TOP else f | cur, TOP if t is TOP else t | cur)
                else:
                    new_imp = (cur | {("val", m, False)}, cur | {("val", m, True)})
            elif self._cur is not None:
                bi, si = self._cur
                cur = frozenset(a for a in F if not (a[0] == "def" and a[1] == bi and a[2] == si))
                new_imp = (cur | {("def", bi, si, True)}, cur | {("def", bi, si, False)})
        F, imp = self._kill_local(F, imp, l)
        if new_imp is not None:
            t, f = new_imp
            imp = dict(imp)
            imp[l] = (self._strip(t, l), self._strip(f, l))
        return F, imp

    def _edge_states(self, bi, F, imp):
        """Yield (succ, F', imp') for each normal out-edge of block bi given state before terminator."""
        fn = self.fn
        b = fn.blocks[bi]
        t = b["t"]
        k = t["t"]
        if k == "goto":
            yield t["to"], F, imp
        elif k == "drop" or k == "assert":
            if t.get("to") is not None:
                if k == "assert" and t["cond"][0] in ("c", "m") and not t["cond"][1][1]:
                    F = set(F) | {("val", t["cond"][1][0], bool(t["exp"]))}
                yield t["to"], F, imp
        elif k == "call":
            if t.get("to") is None:
                return
            dl = t["dst"][0]
            if t["dst"][1]:
                F2, imp2 = self._kill_local(F, imp, dl) if not any(p == "*" for p in t["dst"][1]) else (set(F), imp)
            else:
                F2, imp2 = self._kill_local(F, imp, dl)
            F2 = set(a for a in F2 if not (a[0] == "ret" and a[1] == bi))
            imp2 = {kk: (self._stripret(tt, bi), self._stripret(ff, bi)) for kk, (tt, ff) in imp2.items()}
            if t.get("callee"):
                F2.add(("called", t["callee"]))
            F2.add(("calledbb", bi))
            if not t["dst"][1] and fn.ty(dl) == "bool":
                cur = frozenset(F2)
                imp2[dl] = (cur | {("ret", bi, True)}, cur | {("ret", bi, False)})
            # calls taking &mut of a local invalidate facts about it
            yield t["to"], F2, imp2
        elif k == "sw":
            on = t["on"]
            base = set(a for a in F if not (a[0] == "br" and a[1] == bi))
            imp_b = {kk: (self._stripbr(tt, bi), self._stripbr(ff, bi)) for kk, (tt, ff) in imp.items()}
            l = on[1][0] if on[0] in ("c", "m") and not on[1][1] else None
            is_bool = t.get("ty") == "bool"
            en = t.get("enum")
            pk = place_key(t["of"]) if en else None
            targets = defaultdict(list)
            for v, tgt, vn in t["vals"]:
                targets[tgt].append((v, vn))
            listed = [vn for v, tgt, vn in t["vals"]]
            else_t = t["else"]
            all_succ = list(dict.fromkeys([v[1] for v in t["vals"]] + [else_t]))
            for s in all_succ:
                labels = targets.get(s, [])
                is_else = (s == else_t)
                F2 = set(base)
                feasible = True
                lab = "else" if is_else and not labels else ",".join(v for v, _ in labels) + ("|else" if is_else else "")
                F2.add(("br", bi, lab))
                if is_bool and l is not None:
                    # vals [["0", x]] else y
                    if is_else and not labels:
                        val = True
                    elif len(labels) == 1 and not is_else:
                        val = labels[0][0] not in ("0",)
                    else:
                        val = None
                    if val is not None:
                        if l in imp_b:
                            st = imp_b[l][0 if val else 1]
                            if st is TOP:
                                feasible = False
                            else:
                                F2 |= st
                        F2.add(("val", l, val))
                elif en and pk is not None:
                    if len(labels) == 1 and not is_else:
                        F2.add(("variant", pk, labels[0][1]))
                    elif is_else and not labels:
                        rest = [v for v in t.get("variants", []) if v not in listed]
                        if len(rest) == 1:
                            F2.add(("variant", pk, rest[0]))
                        elif len(rest) == 0:
                            feasible = False
                        else:
                            F2.add(("notvariant", pk, tuple(sorted(x for x in listed if x))))
                    elif labels and not is_else:
                        rest = [v for v in t.get("variants", []) if v not in [x[1] for x in labels]]
                        F2.add(("notvariant", pk, tuple(sorted(rest))))
                elif l is not None and len(labels) == 1 and not is_else:
                    F2.add(("int", l, labels[0][0]))
                if feasible:
                    yield s, F2, imp_b

    @staticmethod
    def _stripret(s, bi):
        if s is TOP:
            return TOP
        return frozenset(a for a in s if not (a[0] == "ret" and a[1] == bi))

    @staticmethod
    def _stripbr(s, bi):
        if s is TOP:
            return TOP
        return frozenset(a for a in s if not (a[0] == "br" and a[1] == bi))

    @staticmethod
    def _meet(a, b):
        Fa, ia = a
        Fb, ib = b
        F = Fa & Fb
        imp = {}
        for k in ia.keys() & ib.keys():
            ta, fa = ia[k]
            tb, fb = ib[k]
            t = tb if ta is TOP else (ta if tb is TOP else ta & tb)
            f = fb if fa is TOP else (fa if fb is TOP else fa & fb)
            imp[k] = (t, f)
        return (F, imp)

    def _run(self):
        fn = self.fn
        e0 = self.entry
        IN = {e0: (frozenset(), {})}
        work = deque([e0])
        inq = {e0}
        iters = 0
        self.EDGE = {}
        while work:
            bi = work.popleft()
            inq.discard(bi)
            iters += 1
            if iters > 200000:
                raise RuntimeError("must-facts did not converge: " + fn.path)
            F, imp = IN[bi]
            F = set(F)
            imp = dict(imp)
            b = fn.blocks[bi]
            for si, s in enumerate(b["s"]):
                self._cur = (bi, si)
                F, imp = self._transfer_stmt(F, imp, s)
            self._cur = None
            self._before_term[bi] = (frozenset(F), dict(imp))
            for s, F2, imp2 in self._edge_states(bi, F, imp):
                if s in self.avoid:
                    continue
                st = (frozenset(F2), imp2)
                self.EDGE[(bi, s)] = st
                # meet over all currently known incoming edges
                acc = None
                for p in fn.pred[s]:
                    e = self.EDGE.get((p, s))
                    if e is None:
                        continue
                    acc = e if acc is None else self._meet(acc, e)
                if s == e0:
                    acc = self._meet(acc, (frozenset(), {})) if acc else (frozenset(), {})
                if s not in IN or not self._same(IN[s], acc):
                    IN[s] = acc
                    if s not in inq:
                        work.append(s)
                        inq.add(s)
            # edges that became infeasible must be removed
            live = {s for s, _, _ in self._edge_states(bi, F, imp) if s not in self.avoid}
            for s in fn.succ[bi]:
                if s not in live and (bi, s) in self.EDGE:
                    del self.EDGE[(bi, s)]
        self.IN = IN

    @staticmethod
    def _same(a, b):
        if a[0] != b[0]:
            return False
        return a[1] == b[1]

    # ---- queries -------------------------------------------------------------------
    def at_entry(self, bb):
        """Facts at block entry, or None if the block is unreachable."""
        st = self.IN.get(bb)
        return None if st is None else st[0]

    def before_term(self, bb):
        st = self._before_term.get(bb)
        return None if st is None else st[0]

    def on_edge(self, a, b):
        st = self.EDGE.get((a, b))
        return None if st is None else st[0]

    def feasible_blocks(self):
        return set(self.IN)

    def state_at(self, bb, si):
        """(facts, imp) just before statement si of block bb (si == len(stmts): before terminator)."""
        st = self.IN.get(bb)
        if st is None:
            return None
        F, imp = set(st[0]), dict(st[1])
        for i, s in enumerate(self.fn.blocks[bb]["s"][:si]):
            self._cur = (bb, i)
            F, imp = self._transfer_stmt(F, imp, s)
        self._cur = None
        return frozenset(F), imp

    def bool_value(self, bb, si, l):
        """Constant value a bool local must have at this point: True/False, or None if not known."""
        st = self.state_at(bb, si)
        if st is None:
            return None
        F, imp = st
        if ("val", l, True) in F:
            return True
        if ("val", l, False) in F:
            return False
        if l in imp:
            t, f = imp[l]
            if t is TOP and f is not TOP:
                return False
            if f is TOP and t is not TOP:
                return True
        return None

    def implied(self, bb, si, l, v):
        """Atoms that hold whenever bool local l == v at this point (None = l cannot be v / unknown)."""
        st = self.state_at(bb, si)
        if st is None:
            return None
        F, imp = st
        if l in imp:
            x = imp[l][0 if v else 1]
            return None if x is TOP else frozenset(F | x)
        return frozenset(F)


# -------------------------------------------------------------------------------------
# semantic view of atoms


class Sem:
    """Interprets ("val", local, v) / ("variant", place, V) atoms through single-def chains."""

    def __init__(self, fn: Fn, depth=10):
        self.fn = fn
        self.depth = depth

    def expr(self, l):
        return self.fn.describe_local(l, self.depth)

    def facts(self, atoms):
        """Translate atoms to semantic tuples:
           ("call", callee, value, args)      callee(args) returned `value`
           ("cmp", op, a, b, value)
           ("isvariant", expr_of_place, variant)
           ("flag", expr, value)              bool-typed place (arg/field) has value
        """
        out = set()
        for a in atoms or ():
            if a[0] == "val":
                self._val(self.expr(a[1]), a[2], out, 0)
            elif a[0] == "variant":
                l, proj = a[1]
                out.add(("isvariant", self._wrap(self.expr(l), proj), a[2]))
            elif a[0] == "notvariant":
                l, proj = a[1]
                out.add(("notvariant", self._wrap(self.expr(l), proj), a[2]))
            elif a[0] == "called":
                out.add(a)
            elif a[0] == "ret":
                t = self.fn.blocks[a[1]]["t"]
                e = ("call", t.get("callee"), tuple(self.fn.describe(x, self.depth - 1) for x in t["args"]), a[1])
                self._val(e, a[2], out, 0)
            elif a[0] == "def":
                e = self.fn._describe_def(("s", a[1], a[2]), self.depth - 1)
                self._val(e, a[3], out, 0)
        return out

    @staticmethod
    def _wrap(e, proj):
        return e if not proj else ("proj", e, proj)

    def _val(self, e, v, out, depth):
        if depth > 8:
            return
        k = e[0]
        if k == "call":
            out.add(("call", e[1], v, e[2]))
            c = e[1] or ""
            # transparent boolean wrappers
            if re.search(r"core::ops::(bit::)?Not::not$|<bool as core::ops::bit::Not>::not", c) and e[2]:
                self._val(e[2][0], not v, out, depth + 1)
        elif k == "bin":
            out.add(("cmp", e[1], e[2], e[3], v))
            neg = {"Eq": "Ne", "Ne": "Eq", "Lt": "Ge", "Ge": "Lt", "Gt": "Le", "Le": "Gt"}
            if not v and e[1] in neg:
                out.add(("cmp", neg[e[1]], e[2], e[3], True))
            if v and e[1] in neg:
                out.add(("cmp", neg[e[1]], e[2], e[3], False))
        elif k == "un" and e[1] == "Not":
            self._val(e[2], not v, out, depth + 1)
        elif k == "phi":
            pass
        else:
            out.add(("flag", e, v))


# -------------------------------------------------------------------------------------
# call graph (P1)


_SERDE = {"serde", "serde_core", "postcard", "toml", "toml_edit", "serde_json", "bincode", "serde_yaml", "ron"}


def _first_seg(path):
    path = (path or "").lstrip("<&")
    return re.split(r"::|<| ", path, 1)[0]


def _crate_family(callee):
    c = _first_seg(callee)
    return "serde" if c in _SERDE else c


def _trait_family(impl_fn_path):
    """crate family of the trait in `<T as trait>::item` or `a::b::<impl trait for T>::item`"""
    m = re.search(r" as ([A-Za-z0-9_]+)::", impl_fn_path) or re.search(r"<impl ([A-Za-z0-9_]+)::", impl_fn_path)
    c = m.group(1) if m else ""
    return "serde" if c in _SERDE else c


def norm_callee(c):
    return c or "<unknown>"


class CallGraph:
    """May-call graph over summaries. dyn / unresolved trait calls fan out to all workspace impls."""

    def __init__(self, world):
        self.w = world
        self.edges = defaultdict(set)  # caller -> callee paths
        self.sites = defaultdict(list)  # (caller, callee) -> [line]
        self.by_trait_item = defaultdict(list)
        for p, s in world.fns.items():
            ti = s.get("trait_item")
            if ti:
                self.by_trait_item[ti].append(p)
        self.closure_children = defaultdict(list)
        for p, s in world.fns.items():
            if s["kind"] == "closure" and s.get("parent"):
                self.closure_children[s["parent"]].append(p)
        # workspace impls of third-party traits, by the ADT they are implemented for: a third-party callee that is handed such a
        # value may call these methods (parol's parser calling the generated semantic actions, serde visitors, ...)
        ext_impls = defaultdict(list)
        for im in world.impls:
            tr = im.get("trait") or ""
            if tr.lstrip("<").startswith(("veryl", "mdbook_veryl", "highlightgen", "core::", "alloc::", "std::")):
                continue
            adt = im.get("self_adt")
            if not adt:
                continue
            items = im.get("items")
            if isinstance(items, dict):
                paths = list(items.values())
            else:
                paths = ["<%s as %s>::%s" % (im.get("self"), im.get("tref") or tr, it) for it in (items or [])]
            ext_impls[adt].extend(paths)
        self._ext_impls = ext_impls
        # `x.into()` / `x.try_into()` resolve to core's blanket impls, whose bodies (calling the workspace From/TryFrom impl) are
        # not in the facts: connect them by the source type
        def _norm(t):
            t = re.sub(r"'[a-z_0-9]+\s*,?\s*", "", t or "")
            return t.replace("<>", "").replace(" ", "")
        from_index = defaultdict(list)
        for q in world.fns:
            m = re.match(r"^<(.+) as core::convert::(Try)?From<(.+)>>::(try_)?from$", q)
            if m:
                from_index[(bool(m.group(2)), _norm(m.group(3)))].append(q)
        for p, s in world.fns.items():
            for c in s["calls"]:
                cc = c["c"] or ""
                if cc in ("<T as core::convert::TryInto<U>>::try_into", "<T as core::convert::Into<U>>::into") and c.get("self"):
                    for q in from_index.get((cc.endswith("try_into"), _norm(c["self"])), ()):
                        self.edges[p].add(q)
        # unsizing a workspace value to `dyn Trait`: whoever receives the trait object may call the impl's methods
        by_adt_trait = defaultdict(list)
        for im in world.impls:
            adt = im.get("self_adt")
            items = im.get("items")
            if not adt or not items:
                continue
            tr = im.get("trait") or ""
            paths = list(items.values()) if isinstance(items, dict) else ["<%s as %s>::%s" % (im.get("self"), im.get("tref") or tr, it) for it in items]
            by_adt_trait[(adt, tr)].extend(paths)
        for p, s in world.fns.items():
            for src_ty, dst_ty in s.get("dyncasts", ()):
                for (adt, tr), paths in by_adt_trait.items():
                    if tr and tr in dst_ty and adt in src_ty:
                        for q in paths:
                            if q in world.fns:
                                self.edges[p].add(q)
        for p, s in world.fns.items():
            for c in s["calls"]:
                callee = c["c"]
                if callee is None:
                    continue
                for ty in c.get("at", ()):
                    fam = _crate_family(callee)
                    for adt, paths in ext_impls.items():
                        if adt in ty:
                            for q in paths:
                                # only traits of the callee's own crate family can be called back by it
                                if q in world.fns and _trait_family(q) == fam:
                                    self.edges[p].add(q)
                targets = [callee]
                if c["r"] in ("trait", "dyn") and c.get("tm"):
                    targets = list(self.by_trait_item.get(c["tm"], []))
                    if c["tm"] in world.fns:
                        targets.append(c["tm"])  # default body
                    if not targets:
                        targets = [callee]
                elif c.get("tm") and c["tm"] == callee and c["tm"] in world.fns:
                    # resolved to a default method: overrides cannot be excluded when Self is generic
                    targets = [callee]
                for t in targets:
                    self.edges[p].add(t)
                    self.sites[(p, t)].append(c["l"])
                for cl in c.get("cl", []):
                    self.edges[p].add(cl)
            # closures created here are assumed callable from here
            for cl in s.get("closures", []):
                self.edges[p].add(cl)
            # fn items taken as values (callbacks)
            for fr in s.get("fnrefs", []):
                self.edges[p].add(fr)

    def reachable(self, roots, stop=None):
        seen = set()
        dq = deque(roots)
        parent = {}
        while dq:
            x = dq.popleft()
            if x in seen:
                continue
            seen.add(x)
            if stop and stop(x):
                continue
            for y in self.edges.get(x, ()):
                if y not in seen:
                    parent.setdefault(y, x)
                    dq.append(y)
        self._parent = parent
        return seen

    def reachable_static(self, roots):
        """Under-approximate reachability: statically resolved calls and the caller's own closures only (no dyn / generic fan-out,
        no callbacks). The sound direction for "X does happen" claims."""
        w = self.w
        seen = set()
        dq = deque(roots)
        while dq:
            x = dq.popleft()
            if x in seen or x not in w.fns:
                continue
            seen.add(x)
            s = w.fns[x]
            for c in s["calls"]:
                if c["c"] and c["r"] == "static" and c["c"] in w.fns:
                    dq.append(c["c"])
                for cl in c.get("cl", []) or []:
                    dq.append(cl)
            for cl in s.get("closures", []):
                dq.append(cl)
        return seen

    def path_to(self, target):
        out = [target]
        while out[-1] in self._parent:
            out.append(self._parent[out[-1]])
        return list(reversed(out))

    def callers_of(self, pat):
        rx = re.compile(pat)
        out = defaultdict(list)
        for p, s in self.w.fns.items():
            for c in s["calls"]:
                if c["c"] and rx.search(c["c"]):
                    out[p].append(c)
        return out
