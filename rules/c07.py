"""C07 - language-server diagnostics depend only on the current buffers (drop_file coverage and re-analysis protocol).

Decided (DESIGN.md section 3 C07, section 8): the per-file state the analysis passes write is removed by
Analyzer::drop_file (or is in a reasoned exemption table), and every re-analysis in the language server drops the
file's previous state before it parses or restores it, and publishes only the changed file's diagnostics.
Not decided: equality with a freshly started server for every notification history (cross-file staleness held by other
files' symbols, ordering of background work).
"""
import re
from collections import defaultdict
from core import Check, site
from mirlib import Fn, MustFacts, CallGraph
import flow

RULE = (
    "R1 drop coverage: W = thread-locals written by code reachable (call graph, including callbacks through trait objects and "
    "From/TryFrom conversions) from Parser::parse, analyze_pass1, analyze_post_pass1, analyze_pass2, analyze_post_pass2; D = thread-locals "
    "written by code statically reachable (resolved calls and own closures only: the under-approximation is the sound direction here) from Analyzer::drop_file. Every key of W is in D or in the frozen exemption table (interning tables, "
    "monotonic id counters, tables keyed by the fresh TokenIds of a parse, pending lists drained by analyze_post_pass1); anything else is "
    "state of the file's earlier contents that survives an edit. R2 protocol: in Server::on_change, Server::background_analyze and "
    "LsIncremental::try_restore, Analyzer::drop_file has returned on every path to Parser::parse / fragment_cache::restore unless the file "
    "was never seen (get_path_id is None); a failed restore drops again; on_remove drops. R3 filtering: the diagnostics published by "
    "on_change pass a filter comparing AnalyzerError::token_source() with the changed file's path id. R4 drop_file calls "
    "symbol_table::drop before scope::drop_tokens (the stated precondition). R5 a language-server function that reads a source file from disk to "
    "analyse it does so only where document_map.contains_key(src) returned false. R6 in Server::serve the DidOpen and DidChange arms record "
    "the message's own (url, text, version) in latest_change on every path after the handler. R7 in code statically reachable from "
    "Analyzer::drop_file a match on the TokenSource of a Symbol's own token names File and Generated (both carry the file's path) together or not at all. R8 every field of scope::Scope (an arena element "
    "that survives a drop because scopes are interned by name) that the analysis passes fill is also edited by code statically reachable from "
    "drop_file; identity fields are exempt."
)

CRATES = ["veryl_parser", "veryl_analyzer", "veryl_metadata", "veryl_ls.bin", "veryl_cache", "veryl_path"]
A = "veryl_analyzer::analyzer::Analyzer::"
ROOTS = ["veryl_parser::parser::Parser::parse", A + "analyze_pass1", A + "analyze_post_pass1", A + "analyze_pass2", A + "analyze_post_pass2"]
DROP = A + "drop_file"
WRITE_RX = re.compile(r"RefCell::<T>::(borrow_mut|replace|swap|take|replace_with)$|Cell::<T>::(set|replace|take|swap|update)$|::borrow_mut$")
KEYWRITE_RX = re.compile(r"LocalKey::<.*>::(set|take|replace|with_borrow_mut)$")

EXEMPT = {
    "veryl_parser::resource_table::STRING_TABLE": "interning: append-only, a string resolves to the same id whatever was analysed before",
    "veryl_parser::resource_table::PATHBUF_TABLE": "interning of paths, same reason",
    "veryl_parser::resource_table::CANONICAL_CACHE": "memo of canonical string ids (interning)",
    "veryl_parser::resource_table::TOKEN_ID": "monotonic id counter: ids are never reused, so old ids cannot alias new tokens",
    "veryl_parser::text_table::TEXT_ID": "monotonic id counter",
    "veryl_analyzer::symbol::SYMBOL_ID": "monotonic id counter",
    "veryl_analyzer::definition_table::DEFINITION_ID": "monotonic id counter",
    "veryl_analyzer::literal_table::LITERAL_TABLE": "keyed by the TokenId of the literal: a re-parse allocates fresh ids, stale entries are unreachable (a leak, not staleness)",
    "veryl_analyzer::msb_table::MSB_TABLE": "keyed by TokenId, same reason",
    "veryl_analyzer::connect_operation_table::CONNECT_OPERATION_TABLE": "keyed by TokenId, same reason",
    "veryl_analyzer::resolved_type_table::RESOLVED_TYPE_TABLE": "keyed by TokenId, same reason",
    "veryl_analyzer::generic_inference_table::INFERRED": "keyed by TokenId, same reason",
    "veryl_analyzer::generic_inference_table::PENDING": "pending list drained by analyze_post_pass1 of the same analysis",
    "veryl_parser::fragment_codec::ENCODE": "encode session of the fragment codec: installed and removed around a single capture call, holds no per-file analysis state",
    "veryl_parser::fragment_codec::DECODE": "decode session of the fragment codec, same reason",
    "veryl_analyzer::fragment_codec::ENCODE": "analyzer-side codec session, same reason",
    "veryl_analyzer::fragment_codec::DECODE": "analyzer-side codec session, same reason",
    "veryl_analyzer::reference_table::REFERENCE_TABLE": "candidate list drained by analyze_post_pass1 (reference_table::apply)",
}
UNDECIDED = {
    "veryl_analyzer::type_dag::TYPE_DAG": "nodes and edges of dropped symbols are never removed; they carry old SymbolIds and are disconnected from the re-analysed "
                                          "file's new symbols, which may be harmless - not established",
    "veryl_analyzer::symbol_table::GENERIC_INSTANCE_INDEX": "still maps structural keys to dropped instance ids after a drop; re-analysis overwrites them - not established",
}


def tls_writes(w):
    acc = defaultdict(dict)
    for p, s in w.fns.items():
        for c in s["calls"]:
            if not c.get("tls"):
                continue
            mode = "r"
            if KEYWRITE_RX.search(c["c"] or ""):
                mode = "w"
            for cl in c.get("cl", []) or []:
                sub = [cl] + [q for q in w.fns if q.startswith(cl + "::{closure")]
                for q in sub:
                    if q in w.fns and any(WRITE_RX.search(cc["c"] or "") for cc in w.fns[q]["calls"]):
                        mode = "w"
            prev = acc[c["tls"]].get(p)
            acc[c["tls"]][p] = "w" if "w" in (prev, mode) else "r"
    return acc


def run(world, tier, info, only=None):
    ck = Check("C07", tier, "other", RULE, only)
    w = world
    for p in ROOTS + [DROP]:
        if p not in w.fns:
            ck.missing("anchors", p)
    if any(o["verdict"] == "violation" for o in ck.obs):
        return ck.finish(info)
    cg = CallGraph(w)
    acc = tls_writes(w)
    reach_w = cg.reachable(ROOTS)
    # what drop_file removes must really be removed: under-approximate reachability (static calls and own closures only)
    reach_d = cg.reachable_static([DROP])
    ck.floor("R1", "functions reachable from parse and the four passes", len(reach_w), 5000)
    ck.floor("R1", "functions statically reachable from drop_file", len(reach_d), 30)
    ck.assume("call graph: resolved calls, dyn / generic trait calls fanned out to every workspace impl, callbacks from third-party code through "
              "trait objects built in workspace code, and Into/TryInto calls connected to the workspace From/TryFrom impl of the source type")
    W = {k: sorted(p for p, m in fs.items() if m == "w" and p in reach_w) for k, fs in acc.items()}
    W = {k: v for k, v in W.items() if v}
    D = {k for k, fs in acc.items() if any(m == "w" and p in reach_d for p, m in fs.items())}
    ck.floor("R1", "thread-locals written by the analysis passes", len(W), 15)
    ck.floor("R1", "thread-locals written by drop_file", len(D), 6)
    for k in sorted(W):
        writers = [x.split("::")[-1] for x in W[k][:4]]
        if k in D:
            ck.ob("R1", "dropped:" + k, True, site(w.fns[DROP]), "written by %s; cleared per file by drop_file" % writers)
        elif k in EXEMPT:
            ck.ob("R1", "dropped:" + k, True, site(w.fns[DROP]), "written by %s; exempt: %s" % (writers, EXEMPT[k]))
        elif k in UNDECIDED:
            ck.ob("R1", "dropped:" + k, None, site(w.fns[DROP]), "written by %s; not dropped: %s" % (writers, UNDECIDED[k]))
        else:
            ck.ob("R1", "dropped:" + k, False, site(w.fns[DROP]),
                  "%s is written while a file is parsed / analysed (%s) but Analyzer::drop_file never removes the file's entries: after an edit the "
                  "state of the earlier contents is still consulted" % (k, writers))
    # ---------------- R4 ---------------------------------------------------------------------------------------
    f = Fn(w.mir(DROP))
    mf = MustFacts(f)
    for bi, t in f.calls(r"^veryl_analyzer::scope::drop_tokens$"):
        F = mf.at_entry(bi) or ()
        ck.ob("R4", "symbol_table-drop-before-drop_tokens", ("called", "veryl_analyzer::symbol_table::drop") in F, site(w.fns[DROP], t["l"]),
              "symbol_table::drop runs before scope::drop_tokens")
    ck.floor("R4", "scope::drop_tokens calls in drop_file", len(f.calls(r"^veryl_analyzer::scope::drop_tokens$")), 1)
    # ---------------- R2 protocol ------------------------------------------------------------------------------
    ls = [p for p, s in w.fns.items() if s["crate"] == "veryl_ls.bin" and not s.get("alias_of")]
    ck.floor("R2", "functions of the language server", len(ls), 100)
    PARSE = "veryl_parser::parser::Parser::parse"
    RESTORE = "veryl_analyzer::fragment_cache::restore"
    n_sites = 0
    for p in sorted(ls):
        s = w.fns[p]
        if not any(c["c"] in (PARSE, RESTORE) for c in s["calls"]):
            continue
        g = Fn(w.mir(p))
        drops = [b for b, t in g.calls("^" + re.escape(DROP) + "$")]
        for bi, t in g.calls("^(%s|%s)$" % (re.escape(PARSE), re.escape(RESTORE))):
            n_sites += 1
            what = t["callee"].split("::")[-1]
            try:
                paths = flow.enumerate_paths(g, 0, [bi], avoid=drops, limit=40000)
            except OverflowError:
                ck.ob("R2", "drop-before-%s:%s" % (what, _short(p)), None, site(s, t["l"]), "too many paths")
                continue
            bad = 0
            for path in paths:
                fx = flow.path_facts(g, path)
                if flow.contradictory(fx):
                    continue
                unseen = any(x[0] == "isvariant" and x[2] == "None" and "get_path_id" in repr(x[1]) for x in fx)
                if not unseen:
                    bad += 1
            ck.ob("R2", "drop-before-%s:%s" % (what, _short(p)), bad == 0, site(s, t["l"]),
                  "the file's previous state is dropped before %s on every path (or the file was never seen)" % what if bad == 0 else
                  "%s is reachable without Analyzer::drop_file on %d path(s) on which the file may have been analysed before: symbols, references "
                  "and errors of its earlier contents stay registered" % (what, bad))
    ck.floor("R2", "parse / restore sites in the language server", n_sites, 3)
    # a failed restore drops again
    TR = "veryl_ls::incremental::LsIncremental::try_restore"
    if TR in w.fns:
        g = Fn(w.mir(TR))
        mg = MustFacts(g)
        from mirlib import Sem
        sem = Sem(g, 14)
        okf = False
        for bi, t in g.calls("^" + re.escape(DROP) + "$"):
            fx = sem.facts(mg.at_entry(bi))
            if any(x[0] == "isvariant" and x[2] == "Err" and "fragment_cache::restore" in repr(x[1]) for x in fx):
                okf = True
        ck.ob("R2", "failed-restore-drops", okf, site(w.fns[TR]), "a failed fragment restore drops the partially registered state")
    else:
        ck.missing("R2", TR)
    OR = "veryl_ls::server::Server::on_remove"
    if OR in w.fns:
        ck.ob("R2", "on_remove-drops", any(c["c"] == DROP for c in w.fns[OR]["calls"]), site(w.fns[OR]), "closing/removing a file drops its state")
    else:
        ck.missing("R2", OR)
    # ---------------- R3 filtering -----------------------------------------------------------------------------
    OC = "veryl_ls::server::Server::on_change"
    if OC in w.fns:
        cls = [q for q in w.fns if q.startswith(OC + "::{closure")]
        okf = False
        for q in cls:
            g = Fn(w.mir(q))
            for bi, t in g.calls(r"PartialEq.*::(eq|ne)$"):
                pv = set()
                for a in t["args"]:
                    pv |= g.prov(a, depth=14)
                if any(x[0] == "call" and (x[1] or "").endswith("AnalyzerError::token_source") for x in pv) and any(x[0] == "arg" for x in pv):
                    okf = True
        pub = [c for c in w.fns[OC]["calls"] if re.search(r"publish_diagnostics$", c["c"] or "")]
        ck.ob("R3", "published-diagnostics-filtered-by-file", okf and bool(pub), site(w.fns[OC]), "diagnostics of other files are filtered out by token_source() == path id of the changed file")
    else:
        ck.missing("R3", OC)
    # ---------------- R5 open buffers are never re-read from disk ----------------------------------------------------
    S = "veryl_ls::server::Server::"
    n5 = 0
    for p in sorted(ls):
        sm = w.fns[p]
        if not p.startswith(S) or not any((c["c"] or "").endswith("fs::read_to_string") or (c["c"] or "").endswith("fs::read") for c in sm["calls"]):
            continue
        if not any(c["c"] in (PARSE, RESTORE, "veryl_ls::incremental::LsIncremental::try_restore") for c in sm["calls"]):
            continue   # reads that do not feed an analysis (configuration, manifests)
        g = Fn(w.mir(p))
        mg = MustFacts(g)
        guards = [bi for bi, t in g.calls(r"HashMap<.*>::contains_key$|hash::map::HashMap.*::contains_key$|DashMap.*::contains_key$|::contains_key$")
                  if flow.access_path(g, t["args"][0])[1][-1:] == ("document_map",)]
        for bi, t in g.calls(r"^std::fs::(read_to_string|read)$"):
            n5 += 1
            F = mg.at_entry(bi) or ()
            ok = any(a[0] == "ret" and a[1] in guards and a[2] is False for a in F)
            ck.ob("R5", "open-buffer-not-read-from-disk:%s" % _short(p), ok, site(sm, t["l"]),
                  "the file is read from disk only where document_map.contains_key(src) was false" if ok else
                  "a source file is read from disk for analysis without (only) testing that it is not open in the editor (document_map): the saved "
                  "contents of an open, edited file are analysed and its on-disk declarations replace the buffer's")
    ck.floor("R5", "disk reads feeding an analysis in the language server", n5, 1)
    # ---------------- R6 the re-publish after background analysis replays the latest buffer ------------------------------------
    SV = S + "serve"
    sv = [q for q in w.fns if q == SV or q.startswith(SV + "::{closure")]
    n6 = 0
    for q in sv:
        g = Fn(w.mir(q))
        heads = [h for h, t, some, none, item in flow.loops_over(g)] + list(getattr(g, "loop_heads", lambda: [])())
        lc = {bi for bi, si, st in flow.field_writes(g, r"server::Server$", "latest_change")}
        for bb, t in flow.enum_switches(g, r"MsgToServer$"):
            for v, tgt, vn in t["vals"]:
                if vn not in ("DidOpen", "DidChange"):
                    continue
                n6 += 1
                # from the arm, the handler call and then a write of latest_change happen before the loop goes on
                others = set()
                for v2, tgt2, vn2 in t["vals"]:
                    if tgt2 != tgt:
                        others |= g.reach_from(tgt2, avoid=[bb])
                hc = [bi for bi, tt in g.calls(r"server::Server::(did_open|did_change|on_change)$") if bi in g.reach_from(tgt, avoid=[bb]) and bi not in others]
                ok = bool(hc)
                for h in hc:
                    nxt = g.blocks[h]["t"].get("to")
                    esc = flow.escapes(g, nxt, sorted(lc), stops=[bb])
                    if esc:
                        ok = False
                # and what is stored is this message's own payload
                own = False
                for bi, si, st in flow.field_writes(g, r"server::Server$", "latest_change"):
                    if bi in g.reach_from(tgt, avoid=[bb]) and bi not in others:
                        d = repr(g.describe(st[2][1], 10)) if st[2][0] == "use" else repr(st[2])
                        own = own or (vn in d)
                ck.ob("R6", "latest-change-recorded:%s" % vn, ok and own, site(w.fns[q], t["l"]),
                      "after handling %s the server records this message's (url, text, version) as the latest change on every path" % vn if ok and own else
                      "the %s arm can finish without recording the message as the latest change: the re-publish after background analysis replays an "
                      "older text and version of the buffer" % vn)
    ck.floor("R6", "DidOpen / DidChange arms in Server::serve", n6, 2)
    # ---------------- R7 drop decisions treat every path-carrying token source alike ------------------------------------------
    n7 = 0
    for q in sorted(reach_d):
        sm = w.fns.get(q)
        if not sm or sm.get("alias_of") or not (q.startswith("veryl_analyzer::") or q.startswith("veryl_parser::") or q.startswith("<veryl_")):
            continue
        if sm["nblocks"] < 3:
            continue
        g = Fn(w.mir(q))
        for bb, t in flow.enum_switches(g, r"veryl_token::TokenSource$"):
            # only where the token is a symbol's own token: keyword tokens of declarations (Definition::get_path) are always read from a file
            root = t["of"][0] if t.get("of") else None
            try:
                r, pth = flow.access_path(g, ["c", t["of"]])
            except Exception:
                continue
            rl = r[1] if r[0] == "arg" else None
            if rl is None or "symbol::Symbol" not in g.ty(rl):
                continue
            n7 += 1
            tg = {vn: tgt for v, tgt, vn in t["vals"]}
            carrying = [vn for vn in ("File", "Generated")]
            explicit = [vn for vn in carrying if vn in tg]
            ok = len(explicit) in (0, 2)
            ck.ob("R7", "token-source-variants-alike:%s@%d" % (_short(q), n7), ok, site(sm, t["l"]),
                  "File and Generated (both carry the file's path) are both matched explicitly, or neither" if ok else
                  "%s has its own arm but %s falls into the wildcard arm: symbols or tokens whose source is the other path-carrying variant of the same "
                  "file are not dropped" % (explicit[0], [x for x in carrying if x not in explicit][0]))
    # ---------------- R8 arena elements that outlive a drop: every field the analysis fills is emptied by the drop ----------------
    ARENA = {"veryl_analyzer::scope::Scope": {"kind": "set once when the scope is interned: part of its structural identity, the same for every analysis of the file",
                                              "id": "identity", "parent": "identity", "name": "identity"}}
    for adt, exempt in sorted(ARENA.items()):
        def fields(reach):
            out = {}
            for q in reach:
                sm = w.fns.get(q)
                if not sm:
                    continue
                for key in ("fw", "fm"):
                    for a, fld in [tuple(x) for x in (sm.get(key) or [])]:
                        if a == adt:
                            out.setdefault(fld, set()).add(q.split("::")[-1])
            return out
        fa, fd = fields(reach_w), fields(reach_d)
        ck.floor("R8", "fields of %s filled during analysis" % adt.split("::")[-1], len(fa), 5)
        for fld in sorted(fa):
            if fld in exempt:
                ck.ob("R8", "arena-field-dropped:%s.%s" % (adt.split("::")[-1], fld), True, site(w.fns[DROP]), "exempt: " + exempt[fld])
                continue
            ok = fld in fd
            ck.ob("R8", "arena-field-dropped:%s.%s" % (adt.split("::")[-1], fld), ok, site(w.fns[DROP]),
                  "%s.%s (filled by %s) is edited by drop_file through %s" % (adt.split("::")[-1], fld, sorted(fa[fld])[:3], sorted(fd.get(fld, []))[:3]) if ok else
                  "%s.%s is filled while a file is analysed (%s) and nothing reachable from Analyzer::drop_file touches it: scopes are interned by name, so "
                  "the re-analysis of an edited file finds what its earlier contents put there (a deleted import keeps resolving)" % (
                      adt.split("::")[-1], fld, sorted(fa[fld])[:3]))
    ck.analysed = {"written": sorted(W), "dropped": sorted(D), "exempt": sorted(k for k in W if k in EXEMPT), "undecided": sorted(k for k in W if k in UNDECIDED)}
    return ck.finish(info)


def _short(p):
    return "::".join(p.split("::")[-2:])
