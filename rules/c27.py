"""C27 - check modes agree with write modes.

Decided here (DESIGN.md section 3 C27, section 8): sibling agreement of the check branch and the write branch of
`veryl build` and `veryl fmt`: every output the write mode writes has a comparison of the same path in check mode, and
the two fmt branches sit under the same condition. Not decided: that the compared bytes are the bytes that would be
written for every project state (a property of run-time values).
"""
import re
from core import Check, site
from mirlib import Fn, MustFacts, Sem
from c29 import expr_mentions, mentions_call

RULE = (
    "Mode of a site = the must-fact on self.opt.check there (true: check mode, false: write mode, none: both). "
    "R1 (build) for every output-writing call (utils::write_file_if_changed) in CmdBuild::exec and in the functions it "
    "calls only in write mode (gen_filelist) that is not in check mode, there is a file read (fs::read_to_string / fs::read) "
    "that is not in write mode, in exec or in a function exec calls only in check mode (check_bundle), of the same path: "
    "the same MIR local inside one function, or the same provenance signature across functions (Metadata::filelist_path(), "
    "output_dir().join(build.target.path)). Writes in check mode must go to the temporary directory. R2 (build) in check "
    "mode all_pass is set false on the not-equal edge of the comparison of the read text with the emitter's output. "
    "R3 (fmt) write_file_if_changed(path.src) and `all_pass = false` are both reached only where "
    "input == formatter.as_str() is false, the first only in write mode, the second only in check mode, and the text "
    "compared is the text read from the path that would be written."
)

CRATES = ["veryl", "veryl_metadata", "veryl_path"]

EXEC = "veryl::cmd_build::CmdBuild::exec"
GENFL = "veryl::cmd_build::CmdBuild::gen_filelist"
CHKB = "veryl::cmd_build::CmdBuild::check_bundle"
FMT = "veryl::cmd_fmt::CmdFmt::exec"
SPECIFIC = frozenset({"filelist_path", "build.target"})
WRITE = r"^veryl::utils::write_(file|output)_if_changed$"
READ = r"^std::fs::(read_to_string|read)$"


def is_check_field(e):
    def p(x):
        return isinstance(x, tuple) and len(x) == 3 and x[0] == "proj" and any(q[0] == "f" and q[1] == "check" for q in x[2])
    return expr_mentions(e, p)


def mode_at(sem, atoms):
    """True (check mode) / False (write mode) / None (both)."""
    if atoms is None:
        return "dead"
    for x in sem.facts(atoms):
        if x[0] == "flag" and is_check_field(x[1]):
            return x[2]
    return None


def root_local(f, op):
    """Named local a path operand is a reference/copy of."""
    if op[0] not in ("c", "m"):
        return None
    l = op[1][0]
    seen = set()
    while l not in seen:
        seen.add(l)
        if f.name(l):
            return l
        d = f.def_of(l)
        if d is None or d[0] != "s":
            return l
        rv = f.rvalue_at(d)
        if rv[0] in ("ref", "ptr") and all(p == "*" for p in rv[2][1]):
            l = rv[2][0]
        elif rv[0] == "use" and rv[1][0] in ("c", "m") and not rv[1][1][1]:
            l = rv[1][1][0]
        else:
            return l
    return l


def signature(f, op):
    """Cross-function identity of a path: the Metadata accessor calls and Metadata fields it derives from."""
    pv = f.prov(op, depth=14)
    sig = set()
    for x in pv:
        if x[0] == "call" and re.search(r"^veryl_metadata::metadata::Metadata::(filelist_path|output_dir)$", x[1] or ""):
            sig.add(x[1].split("::")[-1])
        if x[0] == "arg":
            fl = [q[1] for q in x[2] if q[0] == "f"]
            if fl[:2] == ["build", "target"]:
                sig.add("build.target")
        if x[0] == "call" and re.search(r"TempDir::path$", x[1] or ""):
            sig.add("tempdir")
    return frozenset(sig)


def run(world, tier, info, only=None):
    ck = Check("C27", tier, "other", RULE, only)
    w = world
    for p in (EXEC, GENFL, CHKB, FMT, "veryl::utils::write_file_if_changed"):
        if p not in w.fns:
            ck.missing("anchors", p)
    if any(p not in w.fns for p in (EXEC, GENFL, CHKB, FMT)):
        return ck.finish(info)
    ck.assume("utils::write_file_if_changed(path, data) changes the file iff its current content differs from data")
    ck.assume("`veryl build` and `veryl build --check` compute the same emitter output for the same project state")
    ex = Fn(w.mir(EXEC))
    mex = MustFacts(ex)
    sex = Sem(ex, depth=14)

    def callee_mode(fnpath):
        ms = set()
        for bi, t in ex.calls("^" + re.escape(fnpath) + "$"):
            ms.add(mode_at(sex, mex.at_entry(bi)))
        return ms

    gm = callee_mode(GENFL)
    cm = callee_mode(CHKB)
    ck.ob("R1", "gen_filelist-only-in-write-mode", gm == {False}, site(w.fns[EXEC]), "gen_filelist is called only where opt.check is false (got %r)" % gm)
    ck.ob("R1", "check_bundle-only-in-check-mode", cm == {True}, site(w.fns[EXEC]), "check_bundle is called only where opt.check is true (got %r)" % cm)

    # collect reads available in check mode
    reads = []  # (fn path, Fn, root local, signature, line)
    for bi, t in ex.calls(READ):
        m = mode_at(sex, mex.at_entry(bi))
        if m in (True, None):
            reads.append((EXEC, ex, root_local(ex, t["args"][0]), signature(ex, t["args"][0]), t["l"]))
    cb = Fn(w.mir(CHKB))
    for bi, t in cb.calls(READ):
        reads.append((CHKB, cb, root_local(cb, t["args"][0]), signature(cb, t["args"][0]), t["l"]))
    ck.floor("R1", "file reads available in check mode", len(reads), 2)

    # writes in write mode
    n_w = 0
    for fp, f, mf_, sm, fixed_mode in ((EXEC, ex, mex, sex, None), (GENFL, Fn(w.mir(GENFL)), None, None, False)):
        writes = f.calls(WRITE)
        for bi, t in sorted(writes, key=lambda x: (x[1]["l"], x[0])):
            m = fixed_mode if fixed_mode is not None else mode_at(sm, mf_.at_entry(bi))
            if m == "dead":
                continue
            rl = root_local(f, t["args"][0])
            sig = signature(f, t["args"][0])
            name = f.name(rl) or ("_%d" % rl)
            s0 = site(w.fns[fp], t["l"])
            if m is True:
                ck.ob("R1", "check-mode-write-to-tempdir:%s/%s" % (fp.split("::")[-1], name), "tempdir" in sig, s0,
                      "a write reached in check mode goes to the temporary staging directory, never to the project tree")
                continue
            n_w += 1
            same_fn = [r for r in reads if r[0] == fp and r[2] == rl]
            # across functions only a specific Metadata-derived identity counts (output_dir() alone is every output's prefix)
            spec = sig & SPECIFIC
            cross = [r for r in reads if r[0] != fp and spec and spec == (r[3] & SPECIFIC) and "tempdir" not in r[3]]
            ok = bool(same_fn or cross)
            ck.ob("R1", "write-has-check-counterpart:%s/%s" % (fp.split("::")[-1], name), ok, s0,
                  ("write mode writes `%s`; check mode reads it back at line %s" % (name, (same_fn or cross)[0][4])) if ok else
                  "write mode writes `%s` (%s) but no check-mode code reads that path: `build --check` passes although `build` "
                  "would create or change this file" % (name, ",".join(sorted(sig)) or "local path"))
    ck.floor("R1", "write-mode output writes in build", n_w, 3)

    # R2: all_pass = false in exec under check mode on a not-equal edge
    ap = [l for l in range(len(ex.locals)) if ex.name(l) == "all_pass"]
    n_ap = 0
    for bi, b in enumerate(ex.blocks):
        if b.get("cu"):
            continue
        for si, st in enumerate(b["s"]):
            if st[0] == "=" and st[1][0] in ap and not st[1][1] and st[2][0] == "use" and st[2][1][0] == "k" and st[2][1][1].get("int") in ("0", 0):
                S = mex.state_at(bi, si)
                if S is None:
                    continue
                n_ap += 1
                F = sex.facts(S[0])
                m = mode_at(sex, S[0])
                ck.ob("R2", "all_pass=false-only-in-check-mode@%d" % n_ap, m is True, site(w.fns[EXEC], st[3]), "all_pass is cleared only in check mode")
    ck.floor("R2", "all_pass = false sites in build exec", n_ap, 2)

    # R3: fmt
    fm = Fn(w.mir(FMT))
    mfm = MustFacts(fm)
    sfm = Sem(fm, depth=16)

    def ne_fact(atoms):
        for x in sfm.facts(atoms):
            if x[0] == "call" and re.search(r"PartialEq.*::(eq|ne)$", x[1] or "") and x[2] is (not x[1].endswith("::eq")):
                if len(x[3]) == 2 and any(mentions_call(a, r"Formatter::as_str$") for a in x[3]) and any(mentions_call(a, r"^std::fs::read_to_string$") for a in x[3]):
                    return True
        return False
    fw = fm.calls(WRITE)
    ck.floor("R3", "write sites in fmt exec", len(fw), 1)
    for bi, t in fw:
        A = mfm.at_entry(bi)
        ck.ob("R3", "fmt-write:only-when-different", ne_fact(A), site(w.fns[FMT], t["l"]), "fmt writes only where input == formatted is false")
        ck.ob("R3", "fmt-write:only-in-write-mode", mode_at(sfm, A) is False, site(w.fns[FMT], t["l"]), "fmt writes only where opt.check is false")
        # path written == path read
        rl = root_local(fm, t["args"][0])
        rd = [root_local(fm, r["args"][0]) for _, r in fm.calls(READ)]
        pw = {x for x in fm.prov(t["args"][0], depth=10) if x[0] == "field"}
        pr = set()
        for _, r in fm.calls(READ):
            pr |= {x for x in fm.prov(r["args"][0], depth=10) if x[0] == "field"}
        ck.ob("R3", "fmt-write:same-path-as-read", bool(pw) and pw <= pr and any(x[1] == "src" for x in pw), site(w.fns[FMT], t["l"]),
              "the path written is the path whose text was compared (path.src)")
    apf = [l for l in range(len(fm.locals)) if fm.name(l) == "all_pass"]
    n = 0
    for bi, b in enumerate(fm.blocks):
        if b.get("cu"):
            continue
        for si, st in enumerate(b["s"]):
            if st[0] == "=" and st[1][0] in apf and not st[1][1] and st[2][0] == "use" and st[2][1][0] == "k" and st[2][1][1].get("int") in ("0", 0):
                S = mfm.state_at(bi, si)
                if S is None:
                    continue
                n += 1
                ck.ob("R3", "fmt-fail:only-when-different@%d" % n, ne_fact(S[0]), site(w.fns[FMT], st[3]), "fmt --check fails only where input == formatted is false")
                ck.ob("R3", "fmt-fail:only-in-check-mode@%d" % n, mode_at(sfm, S[0]) is True, site(w.fns[FMT], st[3]), "all_pass is cleared only in check mode")
    ck.floor("R3", "all_pass = false sites in fmt exec", n, 1)
    # every path on which input != formatted reaches one of the two: the blocks where ne holds and mode is decided
    ck.analysed = {"functions": [EXEC, GENFL, CHKB, FMT], "write_mode_writes": n_w, "check_mode_reads": len(reads)}
    return ck.finish(info)
