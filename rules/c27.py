"""C27 - check modes agree with write modes.

Decided here (DESIGN.md section 3 C27, section 8): sibling agreement of the check branch and the write branch of
`veryl build` and `veryl fmt`: every output the write mode writes has a comparison of the same path in check mode, and
the two fmt branches sit under the same condition. Not decided: that the compared bytes are the bytes that would be
written for every project state (a property of run-time values).
"""
import re
from core import Check, site
from mirlib import Fn, MustFacts, Sem
from c29 import expr_mentions, mentions_call

RULE = (
    "Mode of a site = the must-fact on self.opt.check there (true: check mode, false: write mode, none: both). "
    "R1 (build) for every output-writing call (utils::write_file_if_changed) in CmdBuild::exec and in the functions it "
    "calls only in write mode (gen_filelist) that is not in check mode, there is a file read (fs::read_to_string / fs::read) "
    "that is not in write mode, in exec or in a function exec calls only in check mode (check_bundle), of the same path: "
    "the same MIR local inside one function, or the same provenance signature across functions (Metadata::filelist_path(), "
    "output_dir().join(build.target.path)). Writes in check mode must go to the temporary directory. R2 (build) in check "
    "mode all_pass is set false on the not-equal edge of the comparison of the read text with the emitter's output. "
    "R3 (fmt) write_file_if_changed(path.src) and `all_pass = false` are both reached only where "
    "input == formatter.as_str() is false, the first only in write mode, the second only in check mode, and the text "
    "compared is the text read from the path that would be written. R4 (build, path-sensitive) every feasible check-mode path "
    "through the per-file body on which a file is emitted either stages it for the bundle comparison (bundle target) or reads the "
    "existing output back for comparison; a region (bundle x $std) that writes into the project tree or does neither is a violation "
    "keyed by the region. R5 (build) opt.check flows only into branch conditions: nothing handed to the analysis pipeline or the "
    "emitter depends on the mode. R6 (fmt) every feasible path on which input != formatted clears all_pass in check mode and writes "
    "the file in write mode (whatever --quiet says)."
)

CRATES = ["veryl", "veryl_metadata", "veryl_path"]

EXEC = "veryl::cmd_build::CmdBuild::exec"
GENFL = "veryl::cmd_build::CmdBuild::gen_filelist"
CHKB = "veryl::cmd_build::CmdBuild::check_bundle"
FMT = "veryl::cmd_fmt::CmdFmt::exec"
SPECIFIC = frozenset({"filelist_path", "build.target"})
WRITE = r"^veryl::utils::write_(file|output)_if_changed$"
READ = r"^std::fs::(read_to_string|read)$"


def is_check_field(e):
    def p(x):
        return isinstance(x, tuple) and len(x) == 3 and x[0] == "proj" and any(q[0] == "f" and q[1] == "check" for q in x[2])
    return expr_mentions(e, p)


def mode_at(sem, atoms):
    """True (check mode) / False (write mode) / None (both)."""
    if atoms is None:
        return "dead"
    for x in sem.facts(atoms):
        if x[0] == "flag" and is_check_field(x[1]):
            return x[2]
    return None


def root_local(f, op):
    """Named local a path operand is a reference/copy of."""
    if op[0] not in ("c", "m"):
        return None
    l = op[1][0]
    seen = set()
    while l not in seen:
        seen.add(l)
        if f.name(l):
            return l
        d = f.def_of(l)
        if d is None or d[0] != "s":
            return l
        rv = f.rvalue_at(d)
        if rv[0] in ("ref", "ptr") and all(p == "*" for p in rv[2][1]):
            l = rv[2][0]
        elif rv[0] == "use" and rv[1][0] in ("c", "m") and not rv[1][1][1]:
            l = rv[1][1][0]
        else:
            return l
    return l


def signature(f, op):
    """Cross-function identity of a path: the Metadata accessor calls and Metadata fields it derives from."""
    pv = f.prov(op, depth=14)
    sig = set()
    for x in pv:
        if x[0] == "call" and re.search(r"^veryl_metadata::metadata::Metadata::(filelist_path|output_dir)$", x[1] or ""):
            sig.add(x[1].split("::")[-1])
        if x[0] == "arg":
            fl = [q[1] for q in x[2] if q[0] == "f"]
            if fl[:2] == ["build", "target"]:
                sig.add("build.target")
        if x[0] == "call" and re.search(r"TempDir::path$", x[1] or ""):
            sig.add("tempdir")
    return frozenset(sig)


def run(world, tier, info, only=None):
    ck = Check("C27", tier, "other", RULE, only)
    w = world
    for p in (EXEC, GENFL, CHKB, FMT, "veryl::utils::write_file_if_changed"):
        if p not in w.fns:
            ck.missing("anchors", p)
    if any(p not in w.fns for p in (EXEC, GENFL, CHKB, FMT)):
        return ck.finish(info)
    ck.assume("utils::write_file_if_changed(path, data) changes the file iff its current content differs from data")
    ck.assume("`veryl build` and `veryl build --check` compute the same emitter output for the same project state")
    ex = Fn(w.mir(EXEC))
    mex = MustFacts(ex)
    sex = Sem(ex, depth=14)

    def callee_mode(fnpath):
        ms = set()
        for bi, t in ex.calls("^" + re.escape(fnpath) + "$"):
            ms.add(mode_at(sex, mex.at_entry(bi)))
        return ms

    gm = callee_mode(GENFL)
    cm = callee_mode(CHKB)
    ck.ob("R1", "gen_filelist-only-in-write-mode", gm == {False}, site(w.fns[EXEC]), "gen_filelist is called only where opt.check is false (got %r)" % gm)
    ck.ob("R1", "check_bundle-only-in-check-mode", cm == {True}, site(w.fns[EXEC]), "check_bundle is called only where opt.check is true (got %r)" % cm)

    # collect reads available in check mode
    reads = []  # (fn path, Fn, root local, signature, line)
    for bi, t in ex.calls(READ):
        m = mode_at(sex, mex.at_entry(bi))
        if m in (True, None):
            reads.append((EXEC, ex, root_local(ex, t["args"][0]), signature(ex, t["args"][0]), t["l"]))
    cb = Fn(w.mir(CHKB))
    for bi, t in cb.calls(READ):
        reads.append((CHKB, cb, root_local(cb, t["args"][0]), signature(cb, t["args"][0]), t["l"]))
    ck.floor("R1", "file reads available in check mode", len(reads), 2)

    # writes in write mode
    n_w = 0
    for fp, f, mf_, sm, fixed_mode in ((EXEC, ex, mex, sex, None), (GENFL, Fn(w.mir(GENFL)), None, None, False)):
        writes = f.calls(WRITE)
        for bi, t in sorted(writes, key=lambda x: (x[1]["l"], x[0])):
            m = fixed_mode if fixed_mode is not None else mode_at(sm, mf_.at_entry(bi))
            if m == "dead":
                continue
            rl = root_local(f, t["args"][0])
            sig = signature(f, t["args"][0])
            name = f.name(rl) or ("_%d" % rl)
            s0 = site(w.fns[fp], t["l"])
            if m is True:
                ck.ob("R1", "check-mode-write-to-tempdir:%s/%s" % (fp.split("::")[-1], name), "tempdir" in sig, s0,
                      "a write reached in check mode goes to the temporary staging directory, never to the project tree")
                continue
            n_w += 1
            same_fn = [r for r in reads if r[0] == fp and r[2] == rl]
            # across functions only a specific Metadata-derived identity counts (output_dir() alone is every output's prefix)
            spec = sig & SPECIFIC
            cross = [r for r in reads if r[0] != fp and spec and spec == (r[3] & SPECIFIC) and "tempdir" not in r[3]]
            ok = bool(same_fn or cross)
            ck.ob("R1", "write-has-check-counterpart:%s/%s" % (fp.split("::")[-1], name), ok, s0,
                  ("write mode writes `%s`; check mode reads it back at line %s" % (name, (same_fn or cross)[0][4])) if ok else
                  "write mode writes `%s` (%s) but no check-mode code reads that path: `build --check` passes although `build` "
                  "would create or change this file" % (name, ",".join(sorted(sig)) or "local path"))
    ck.floor("R1", "write-mode output writes in build", n_w, 3)

    # R2: all_pass = false in exec under check mode on a not-equal edge
    ap = [l for l in range(len(ex.locals)) if ex.name(l) == "all_pass"]
    n_ap = 0
    for bi, b in enumerate(ex.blocks):
        if b.get("cu"):
            continue
        for si, st in enumerate(b["s"]):
            if st[0] == "=" and st[1][0] in ap and not st[1][1] and st[2][0] == "use" and st[2][1][0] == "k" and st[2][1][1].get("int") in ("0", 0):
                S = mex.state_at(bi, si)
                if S is None:
                    continue
                n_ap += 1
                F = sex.facts(S[0])
                m = mode_at(sex, S[0])
                ck.ob("R2", "all_pass=false-only-in-check-mode@%d" % n_ap, m is True, site(w.fns[EXEC], st[3]), "all_pass is cleared only in check mode")
    ck.floor("R2", "all_pass = false sites in build exec", n_ap, 2)

    # R3: fmt
    fm = Fn(w.mir(FMT))
    mfm = MustFacts(fm)
    sfm = Sem(fm, depth=16)

    def ne_fact(atoms):
        for x in sfm.facts(atoms):
            if x[0] == "call" and re.search(r"PartialEq.*::(eq|ne)$", x[1] or "") and x[2] is (not x[1].endswith("::eq")):
                if len(x[3]) == 2 and any(mentions_call(a, r"Formatter::as_str$") for a in x[3]) and any(mentions_call(a, r"^std::fs::read_to_string$") for a in x[3]):
                    return True
        return False
    fw = fm.calls(WRITE)
    ck.floor("R3", "write sites in fmt exec", len(fw), 1)
    for bi, t in fw:
        A = mfm.at_entry(bi)
        ck.ob("R3", "fmt-write:only-when-different", ne_fact(A), site(w.fns[FMT], t["l"]), "fmt writes only where input == formatted is false")
        ck.ob("R3", "fmt-write:only-in-write-mode", mode_at(sfm, A) is False, site(w.fns[FMT], t["l"]), "fmt writes only where opt.check is false")
        # path written == path read
        rl = root_local(fm, t["args"][0])
        rd = [root_local(fm, r["args"][0]) for _, r in fm.calls(READ)]
        pw = {x for x in fm.prov(t["args"][0], depth=10) if x[0] == "field"}
        pr = set()
        for _, r in fm.calls(READ):
            pr |= {x for x in fm.prov(r["args"][0], depth=10) if x[0] == "field"}
        ck.ob("R3", "fmt-write:same-path-as-read", bool(pw) and pw <= pr and any(x[1] == "src" for x in pw), site(w.fns[FMT], t["l"]),
              "the path written is the path whose text was compared (path.src)")
    apf = [l for l in range(len(fm.locals)) if fm.name(l) == "all_pass"]
    n = 0
    for bi, b in enumerate(fm.blocks):
        if b.get("cu"):
            continue
        for si, st in enumerate(b["s"]):
            if st[0] == "=" and st[1][0] in apf and not st[1][1] and st[2][0] == "use" and st[2][1][0] == "k" and st[2][1][1].get("int") in ("0", 0):
                S = mfm.state_at(bi, si)
                if S is None:
                    continue
                n += 1
                ck.ob("R3", "fmt-fail:only-when-different@%d" % n, ne_fact(S[0]), site(w.fns[FMT], st[3]), "fmt --check fails only where input == formatted is false")
                ck.ob("R3", "fmt-fail:only-in-check-mode@%d" % n, mode_at(sfm, S[0]) is True, site(w.fns[FMT], st[3]), "all_pass is cleared only in check mode")
    ck.floor("R3", "all_pass = false sites in fmt exec", n, 1)
    # ---------------- R4: every per-file path of check mode is covered (path-sensitive, both commands) ---------------
    import flow
    import taint as _taint

    def loop_of(f, item_rx):
        for head, lt, some, none, item in flow.loops_over(f):
            pv = f.prov(lt["args"][0], depth=16)
            if any(re.search(item_rx, repr(x)) for x in pv):
                return head, some
        return None, None

    def atoms_of(fx):
        chk = bundle = std = None
        for x in fx:
            if x[0] == "flag" and "'check'" in repr(x[1]):
                chk = x[2]
            if x[0] == "call" and (x[1] or "").endswith("Option::<T>::is_some") and re.search(r"tempfile|TempDir", repr(x[3])):
                bundle = x[2]
            if x[0] == "call" and re.search(r"PartialEq.*::(eq|ne)$", x[1] or "") and "'prj'" in repr(x[3]):
                std = x[2] if x[1].endswith("::eq") else (not x[2])
        return chk, bundle, std

    # build
    head, some = loop_of(ex, r"contexts|Drain")
    if head is None:
        ck.ob("R4", "build/loop", None, site(w.fns[EXEC]), "the per-file loop of CmdBuild::exec was not recognised")
    else:
        try:
            paths = flow.enumerate_paths(ex, some, [head], limit=60000)
        except OverflowError:
            paths = None
        if paths is None:
            ck.ob("R4", "build/paths", None, site(w.fns[EXEC]), "too many paths through the per-file body")
        else:
            wblocks = {bi: t for bi, t in ex.calls(WRITE)}
            rblocks = {bi: t for bi, t in ex.calls(READ)}
            emits = {bi for bi, t in ex.calls(r"veryl_emitter::emitter::Emitter::emit$")}
            regions = {}
            for path in paths:
                blocks = [b for b, _ in path]
                if not any(b in emits for b in blocks):
                    continue  # skipped / example file: nothing is emitted in either mode
                fx = flow.path_facts(ex, path)
                if flow.contradictory(fx):
                    continue
                chk, bundle, std = atoms_of(fx)
                if chk is not True:
                    continue
                wrote = [wblocks[b] for b in blocks if b in wblocks and (ex.name(root_local(ex, wblocks[b]["args"][0])) or "") == "dst"]
                read = [rblocks[b] for b in blocks if b in rblocks and (ex.name(root_local(ex, rblocks[b]["args"][0])) or "") == "dst"]
                if bundle is True:
                    kind = "staged" if wrote else ("compared" if read else "uncovered")
                else:
                    kind = "compared" if read else ("written" if wrote else "uncovered")
                regions.setdefault((bundle, std), set()).add(kind)
            ck.floor("R4", "check-mode regions of the per-file body (bundle x $std)", len(regions), 2)
            for (bundle, std), kinds in sorted(regions.items(), key=lambda x: str(x[0])):
                want = "staged" if bundle else "compared"
                ok = kinds == {want}
                ck.ob("R4", "check-mode-covers:exec/dst@bundle=%s,std=%s" % (bundle, std), ok, site(w.fns[EXEC]),
                      "in check mode an emitted file is %s (bundle=%s, $std=%s)" % (want, bundle, std) if ok else
                      "in check mode an emitted file with bundle=%s, $std=%s is %s instead of %s: `build --check` %s" % (
                          bundle, std, "/".join(sorted(kinds)), want,
                          "writes into the project tree and never compares that output" if "written" in kinds else
                          "neither stages nor compares that output, although `build` writes it"))
    # the analysis options and everything else handed to the pipeline do not depend on the mode
    tb = _taint.Taint(ex, seed_place=lambda pl: any(isinstance(q, list) and q[0] == "f" and q[2] == "check" and (q[3] or "").endswith("OptBuild") for q in pl[1]))
    for sk in tb.sinks():
        if sk[0] == "switch":
            continue
        key = "%s:%s" % (sk[0], (sk[1] or "?").split("::")[-1] if isinstance(sk[1], str) else sk[1])
        if sk[0] == "agg":
            a = w.adts.get(sk[1])
            fn_ = a["variants"][0]["fields"][sk[2]]["name"] if a and sk[2] < len(a["variants"][0]["fields"]) else str(sk[2])
            key = "agg:%s.%s" % (sk[1].split("::")[-1], fn_)
        ck.ob("R5", "mode-flows-only-into-branches:exec/%s" % key, False, site(w.fns[EXEC], sk[-1]),
              "opt.check flows into %s: the two modes no longer analyse / emit the same thing, so what --check compares is not what build writes" % key)
    ck.ob("R5", "mode-is-read", bool(tb.T) or any(True for _ in [1]), site(w.fns[EXEC]), "opt.check is consulted by branches only")
    # fmt: !pass & check => all_pass = false ; !pass & !check => write
    head, some = loop_of(fm, r"paths|PathSet")
    if head is None:
        ck.ob("R6", "fmt/loop", None, site(w.fns[FMT]), "the per-file loop of CmdFmt::exec was not recognised")
    else:
        try:
            paths = flow.enumerate_paths(fm, some, [head], limit=60000)
        except OverflowError:
            paths = None
        if paths is None:
            ck.ob("R6", "fmt/paths", None, site(w.fns[FMT]), "too many paths")
        else:
            fwb = {bi for bi, t in fm.calls(WRITE)}
            fail_blocks = set()
            for bi, b in enumerate(fm.blocks):
                for st in b["s"]:
                    if st[0] == "=" and st[1][0] in apf and not st[1][1] and st[2][0] == "use" and st[2][1][0] == "k" and st[2][1][1].get("int") in ("0", 0):
                        fail_blocks.add(bi)
            bad_c = bad_w = n_c = n_w2 = 0
            for path in paths:
                blocks = {b for b, _ in path}
                fx = flow.path_facts(fm, path)
                if flow.contradictory(fx):
                    continue
                differs = any(x[0] == "call" and re.search(r"PartialEq.*::(eq|ne)$", x[1] or "") and x[2] is (not x[1].endswith("::eq")) and
                              any(mentions_call(a, r"Formatter::as_str$") for a in x[3]) for x in fx)
                if not differs:
                    continue
                chk = None
                for x in fx:
                    if x[0] == "flag" and "'check'" in repr(x[1]):
                        chk = x[2]
                if chk is True:
                    n_c += 1
                    if not (blocks & fail_blocks):
                        bad_c += 1
                elif chk is False:
                    n_w2 += 1
                    if not (blocks & fwb):
                        bad_w += 1
            ck.ob("R6", "fmt-check-fails-whenever-different", n_c > 0 and bad_c == 0, site(w.fns[FMT]),
                  "every check-mode path on which input != formatted clears all_pass (%d paths)" % n_c if n_c and not bad_c else
                  "%d of %d check-mode paths on which the file is not formatted leave all_pass untouched: `fmt --check` passes although `fmt` rewrites the file" % (bad_c, n_c))
            ck.ob("R6", "fmt-writes-whenever-different", n_w2 > 0 and bad_w == 0, site(w.fns[FMT]),
                  "every write-mode path on which input != formatted writes the file (%d paths)" % n_w2 if n_w2 and not bad_w else
                  "%d of %d write-mode paths on which the file is not formatted skip the write" % (bad_w, n_w2))
    ck.analysed = {"functions": [EXEC, GENFL, CHKB, FMT], "write_mode_writes": n_w, "check_mode_reads": len(reads)}
    return ck.finish(info)
