"""Agreement of the comment splitter's regex with the scanner's comment terminal (used by C09 for the parser, C23 for the migrator).

The scanner (generated from <crate>/veryl.par) recognises a run of comments as one CommentsTerm token; split_comment_token cuts that
token's text into the individual comments with COMMENT_REGEX and drops whatever lies between two matches. A comment the scanner accepts
but the splitter's pattern does not match is therefore deleted by every tool that rewrites the file. Both patterns are constants of the
source: the rule extracts them (the Rust constant from the MIR facts, the terminal from veryl.par) and compares the languages of their
single-comment alternatives exhaustively on all strings up to a length bound over an alphabet that contains every character the
patterns distinguish (`/`, `*`, newline, carriage return, one other character)."""
import itertools
import os
import re
from core import site
from mirlib import Fn

ALPHABET = ["/", "*", "\n", "\r", "a"]
BOUND = 7


def _rust_to_py(pat):
    pat = re.sub(r"\\u\{([0-9a-fA-F]+)\}", lambda m: re.escape(chr(int(m.group(1), 16))), pat)
    # Rust allows flags in the middle of a group, `(?:(?ms)X)`; Python wants them scoped, `(?ms:X)`
    return re.sub(r"\(\?:\(\?([a-z]+)\)", r"(?\1:", pat)


def scanner_comment_pattern(repo, crate_dir):
    par = os.path.join(repo, "crates", crate_dir, "veryl.par")
    if not os.path.exists(par):
        return None
    for line in open(par, encoding="utf-8"):
        if line.startswith("CommentsTerm"):
            m = re.search(r'>\s*"(.*)"\s*:\s*Token;', line)
            if m:
                return m.group(1)
    return None


def check(ck, R, w, crate, crate_dir, repo):
    p = "%s::veryl_token::COMMENT_REGEX::{closure#0}" % crate
    if p not in w.fns:
        ck.missing(R, p)
        return
    g = Fn(w.mir(p))
    pat = None
    for b in g.blocks:
        for st in b["s"]:
            if st[0] == "=" and st[2][0] == "use" and st[2][1][0] == "k" and isinstance(st[2][1][1], dict) and "str" in st[2][1][1]:
                pat = st[2][1][1]["str"]
    sc = scanner_comment_pattern(repo, crate_dir)
    if pat is None or sc is None:
        ck.ob(R, "comment-regex-agrees-with-scanner:" + crate, None, site(w.fns[p]), "pattern constants not found (splitter %s, scanner %s)" % (pat is not None, sc is not None))
        return
    try:
        split_rx = re.compile(_rust_to_py(pat))
        # one scanner token = (comment \s*)+ ; a single comment = the alternation inside the repetition
        m = re.match(r"^\(\?:\((.*)\)\\s\*\)\+$", "(" + sc[3:] if sc.startswith("(?:(") else sc)
        inner = re.match(r"^\(\?:(\(\?:.*\))\\s\*\)\+$", sc)
        one = inner.group(1) if inner else None
        scan_rx = re.compile(_rust_to_py(one)) if one else None
        scan_tok = re.compile(_rust_to_py(sc))
    except re.error as e:
        ck.ob(R, "comment-regex-agrees-with-scanner:" + crate, None, site(w.fns[p]), "pattern not understood by the comparison (%s)" % e)
        return
    if scan_rx is None:
        ck.ob(R, "comment-regex-agrees-with-scanner:" + crate, None, site(w.fns[p]), "scanner terminal is not of the form (?:(<comment>)\\s*)+")
        return
    lost = []
    n = 0
    for k in range(2, BOUND + 1):
        for tup in itertools.product(ALPHABET, repeat=k):
            s = "".join(tup)
            if not (s.startswith("//") or s.startswith("/*")):
                continue
            if not scan_rx.fullmatch(s):
                continue
            n += 1
            # the scanner accepts s as one comment (followed by more text): the splitter must find it as one match covering it
            mm = split_rx.match(s)
            if not (mm and mm.end() == len(s)):
                lost.append(s)
    ok = not lost and n > 50
    ck.ob(R, "comment-regex-agrees-with-scanner:" + crate, ok, site(w.fns[p]),
          "every comment the scanner's CommentsTerm accepts (%d strings up to length %d over %r) is matched whole by COMMENT_REGEX" % (n, BOUND, "".join(ALPHABET)) if ok else
          "the scanner accepts comments that COMMENT_REGEX does not match whole, e.g. %r: split_comment_token drops them (the text between two matches is discarded), "
          "so the formatter / migrator delete them from the file" % lost[:3])
