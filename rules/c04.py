"""C04 - incremental builds produce exactly what a clean build produces.

Decided here (necessary conditions, DESIGN.md section 3, C04): R1 every project-configuration field that the
skipped work reads is folded into the store's global key; R4 the manifest is committed only after every output
of the build was written; R5 only clean pass-1 results are captured. ("Failure is a miss" is decided under C05 R4.)
Not decided: equality of outputs over edit histories, the miss-set closure, warning replay.
"""
import re
from core import Check, site
from mirlib import Fn, MustFacts, Sem
from c29 import mentions_call

RULE = (
    "R1 let R = (field, subfield) pairs of veryl_metadata::Metadata read by any function of the crates whose work a "
    "cache hit skips (veryl_analyzer, veryl_emitter, veryl_aligner, veryl_sourcemap, veryl_parser); let K = the pairs whose "
    "provenance reaches the `parts` argument of veryl_cache::global_key inside veryl::incremental::global_key (a field "
    "handed whole to toml::to_string counts as (field, *) provided its derived Serialize impl calls serialize_field once "
    "per field of the struct). Obligation: every pair of R is in K or in the frozen exemption table (one reason each). "
    "R4 in CmdBuild::exec and CmdCheck::exec no call that writes an output (write_file_if_changed, gen_filelist, "
    "fs::write, Metadata::save_build_info) is reachable in the CFG after Incremental::save; R5 the `cacheable` argument of "
    "Incremental::capture at every call site derives from Vec::is_empty() of the value returned by analyze_pass1."
)

CRATES = None  # whole workspace: R1 quantifies over every function of the consumer crates

MD = "veryl_metadata::metadata::Metadata"
CONSUMER_CRATES = ["veryl_analyzer", "veryl_emitter", "veryl_aligner", "veryl_sourcemap", "veryl_parser"]
KEYFN = "veryl::incremental::global_key"

# (field, subfield or "*") -> reason. Reads that need not be in the key.
EXEMPT = {
    ("metadata_path", "*"): "the project's location: the store itself lives under it (project_dot_build_path) and manifest entries are "
                            "keyed by absolute source path, so another location is another store",
    ("lockfile", "*"): "the resolved lock table is the parsed content of the file at lockfile_path, whose text is folded into the key "
                       "(checked: K contains lockfile_path and its read_to_string)",
}


# Candidates the rule found and that reading could neither confirm as a defect (no demonstration with the built
# binary yet) nor clear: reported as UNDECIDED on every run, never as a violation and never as discharged.
UNDECIDED = {
    ("components", "*"): "[[components]] and the component manifest files (built by cargo, outside the store's key) decide which "
                         "$comp symbols exist; pass 2 of a restored file is skipped, so a removed component would go unnoticed. "
                         "Not demonstrated against the binary: triage pending",
}


def md_places(fn):
    """All (field, sub) pairs for places that project through a Metadata field; sub='*' when the field is used whole."""
    out = {}

    def visit(pl, line):
        projs = [p for p in pl[1] if isinstance(p, list) and p[0] == "f"]
        for i, p in enumerate(projs):
            if p[3] == MD:
                sub = projs[i + 1][2] if i + 1 < len(projs) else "*"
                out.setdefault((p[2], sub), line)

    def op(o, line):
        if o[0] in ("c", "m"):
            visit(o[1], line)

    for b in fn.blocks:
        if b.get("cu"):
            continue
        for s in b["s"]:
            if s[0] == "=":
                visit(s[1], s[3])
                rv = s[2]
                k = rv[0]
                if k in ("use", "rep"):
                    op(rv[1], s[3])
                elif k in ("ref", "ptr"):
                    visit(rv[2], s[3])
                elif k == "cast":
                    op(rv[2], s[3])
                elif k == "bin":
                    op(rv[2], s[3]); op(rv[3], s[3])
                elif k == "un":
                    op(rv[2], s[3])
                elif k == "discr":
                    visit(rv[1], s[3])
                elif k == "agg":
                    for o in rv[2]:
                        op(o, s[3])
        t = b["t"]
        if t["t"] == "call":
            for a in t["args"]:
                op(a, t["l"])
            visit(t["dst"], t["l"])
        elif t["t"] == "sw":
            op(t["on"], t["l"])
    return out


def run(world, tier, info, only=None):
    ck = Check("C04", tier, "other", RULE, only)
    w = world
    need = [KEYFN, "veryl_cache::global_key", "veryl::cmd_build::CmdBuild::exec", "veryl::cmd_check::CmdCheck::exec",
            "veryl::incremental::Incremental::save", "veryl::incremental::Incremental::capture", "veryl::pipeline::analyze"]
    for p in need:
        if p not in w.fns:
            ck.missing("anchors", p)
    if MD not in w.adts:
        ck.missing("anchors", MD)
    if any(p not in w.fns for p in need) or MD not in w.adts:
        return ck.finish(info)
    md_fields = {f["name"]: f for f in w.adts[MD]["variants"][0]["fields"]}
    ck.assume("Analyzer::new / Emitter::new are the only entry points through which the skipped work obtains project "
              "configuration: R is computed over every function of the consumer crates, not over a call-graph slice")
    ck.assume("environment variables, the file system outside the project and the clock are not project configuration")

    # ---------------- R1: key coverage ------------------------------------------------------------
    kf = Fn(w.mir(KEYFN))
    gk = kf.calls(r"^veryl_cache::global_key$")
    ck.floor("R1", "veryl_cache::global_key calls in the build key function", len(gk), 1)
    K = {}
    whole_serialised = set()
    for bi, t in gk:
        pv = kf.prov(t["args"][0], depth=40)
        for x in pv:
            if x[0] == "arg" and kf.ty(x[1]).endswith(MD):
                projs = [q for q in x[2] if q[0] == "f"]
                for i, q in enumerate(projs):
                    if q[2] == MD:
                        sub = projs[i + 1][1] if i + 1 < len(projs) else "*"
                        K[(q[1], sub)] = "key part"
        # which parts went through toml::to_string
    for bi, t in kf.calls(r"^toml::ser::to_string"):
        pv = kf.prov(t["args"][0], depth=10)
        for x in pv:
            if x[0] == "arg":
                projs = [q for q in x[2] if q[0] == "f"]
                if projs and projs[-1][2] == MD:
                    # the result of this to_string must reach the key
                    dst = t["dst"][0]
                    whole_serialised.add((projs[-1][1], bi))
    # a serialised field counts only if the to_string result flows into the key parts
    keyprov_calls = set()
    for bi, t in gk:
        for x in kf.prov(t["args"][0], depth=40):
            if x[0] == "call":
                keyprov_calls.add(x[2])
    ser_fields = {f for f, bi in whole_serialised if bi in keyprov_calls}
    for (f, sub) in list(K):
        if sub == "*" and f not in ser_fields and md_fields.get(f, {}).get("adts", [""])[0].startswith("veryl_metadata::"):
            # passed whole but not serialised: we do not know which part is hashed
            K[(f, sub)] = "whole (not through toml::to_string)"
    ck.floor("R1", "(field, subfield) pairs folded into the key", len(K), 4)
    # Serialize completeness for whole-serialised struct fields
    for f in sorted(ser_fields):
        fld = md_fields.get(f)
        if not fld:
            continue
        adt = fld["adts"][0] if fld["adts"] else None
        if not adt or not adt.startswith("veryl_metadata::") or adt not in w.adts:
            continue  # std container (BTreeMap/Vec): serialises every element
        a = w.adts[adt]
        if a["kind"] != "struct":
            continue
        names = [x["name"] for x in a["variants"][0]["fields"]]
        sers = [p for p in w.fns if re.search(r"<impl serde_core::ser::Serialize for %s>::serialize$" % re.escape(adt), p)]
        if len(sers) != 1:
            ck.ob("R1", "serialize-impl:%s" % adt, None, "", "expected exactly one derived Serialize impl, found %d" % len(sers))
            continue
        got = [c["k"].get(1) for c in w.fns[sers[0]]["calls"]
               if c["c"] and c["c"].endswith("SerializeStruct::serialize_field") and c.get("k")]
        ck.ob("R1", "serialises-every-field:%s" % f, len(set(got)) >= len(names), site(w.fns[sers[0]]),
              "%s has %d fields and its Serialize impl emits %d (a skipped field would silently leave the key); missing by name: %s"
              % (adt, len(names), len(set(got)), sorted(set(names) - set(got))[:6]))
    # lockfile text
    rts = kf.calls(r"^std::fs::read_to_string$")
    lock_text = False
    for bi, t in rts:
        pv = kf.prov(t["args"][0], depth=10)
        if any(x[0] == "arg" and any(q[0] == "f" and q[1] == "lockfile_path" for q in x[2]) for x in pv) and bi in keyprov_calls:
            lock_text = True
    ck.ob("R1", "lockfile-text-in-key", lock_text, site(w.fns[KEYFN]), "the text of the file at metadata.lockfile_path is a key part")
    # consumers
    R = {}
    n_cons_fns = 0
    readers = set()
    for p, s in w.fns.items():
        if s["crate"] not in CONSUMER_CRATES:
            continue
        n_cons_fns += 1
        if not any(adt == MD for adt, _ in s["fr"] + s["fw"] + s["fm"]):
            continue
        readers.add(p)
        for pair, line in md_places(Fn(w.mir(p))).items():
            R.setdefault(pair, (p, line))
    # Metadata methods invoked by the consumers on the same object read fields on their behalf
    via = {}
    todo = []
    for p, s in w.fns.items():
        if s["crate"] in CONSUMER_CRATES:
            for c in s["calls"]:
                if c["c"] and c["c"].startswith(MD + "::") and c["c"] in w.fns:
                    todo.append((c["c"], p, c["l"]))
    seen_m = set()
    while todo:
        m, frm, line = todo.pop()
        if m in seen_m:
            continue
        seen_m.add(m)
        mf_ = Fn(w.mir(m))
        if not (mf_.nargs >= 1 and mf_.ty(1).endswith(MD)):
            continue
        for pair, l2 in md_places(mf_).items():
            R.setdefault(pair, (frm, line))
            via.setdefault(pair, m)
        for bi, t in mf_.calls(r"^" + re.escape(MD) + "::"):
            if t["callee"] in w.fns and t["args"] and any(x[0] == "arg" and x[1] == 1 for x in mf_.prov(t["args"][0], depth=6)):
                todo.append((t["callee"], frm, line))
    ck.floor("R1", "Metadata methods called by the skipped work", len(seen_m), 1)
    ck.floor("R1", "consumer functions reading Metadata fields", len(readers), 2)
    ck.floor("R1", "(field, subfield) pairs read by the skipped work", len(R), 4)
    for (f, sub), (p, line) in sorted(R.items()):
        covered = (f, sub) in K or ((f, "*") in K and K[(f, "*")] == "key part" and f in ser_fields) or \
                  ((f, "*") in K and not md_fields.get(f, {}).get("adts", [""])[0].startswith("veryl_metadata::"))
        why = "in the global key"
        if not covered and ((f, sub) in EXEMPT or (f, "*") in EXEMPT):
            if f == "lockfile" and not lock_text:
                covered = False
            else:
                covered = True
                why = "exempt: " + EXEMPT.get((f, sub), EXEMPT.get((f, "*")))
        if not covered and (f, sub) in UNDECIDED or (f, "*") in UNDECIDED and not covered:
            ck.ob("R1", "key-covers:Metadata.%s.%s" % (f, sub), None, site(w.fns[p], line),
                  "read through %s; not in the key; %s" % (via.get((f, sub), p), UNDECIDED.get((f, sub), UNDECIDED.get((f, "*")))))
            continue
        ck.ob("R1", "key-covers:Metadata.%s.%s" % (f, sub), covered, site(w.fns[p], line),
              ("read by %s; %s" % (p, why)) if covered else
              "read by %s (work that a cache hit skips) but not folded into the incremental cache key: changing it leaves stale outputs" % p)
    ck.analysed = {"consumer_crates": CONSUMER_CRATES, "consumer_functions": n_cons_fns, "metadata_readers": sorted(readers),
                   "key_pairs": sorted("%s.%s" % k for k in K), "read_pairs": sorted("%s.%s" % k for k in R)}

    commit_order(ck, w, "R4")
    # save_build_info (generated_files list) is written by main after exec
    # ---------------- R5: capture only clean pass 1 ---------------------------------------------------
    caps = []
    for p, s in w.fns.items():
        if s["crate"] not in ("veryl", "veryl.bin"):
            continue
        if any(c["c"] == "veryl::incremental::Incremental::capture" for c in s["calls"]):
            f = Fn(w.mir(p))
            for bi, t in f.calls(r"^veryl::incremental::Incremental::capture$"):
                caps.append((p, f, bi, t))
    ck.floor("R5", "Incremental::capture call sites", len(caps), 1)
    for p, f, bi, t in caps:
        e = f.describe(t["args"][4], 12)
        ok = mentions_call(e, r"Vec::<T, A>::is_empty$") and mentions_call(e, r"Analyzer::analyze_pass1$")
        ck.ob("R5", "cacheable=pass1-errors.is_empty:%s" % p, ok, site(w.fns[p], t["l"]),
              "the `cacheable` argument is analyze_pass1(..).is_empty() of the same iteration")
    return ck.finish(info)


def commit_order(ck, w, R):
    """the cache manifest is committed (Incremental::save) only after every output of the command was written"""
    WR = r"^veryl::utils::write_file_if_changed$|^veryl::cmd_build::CmdBuild::gen_filelist$|^std::fs::write$|^veryl_metadata::metadata::Metadata::save_build_info$|^veryl_path::atomic_write$"
    for cmd in ("veryl::cmd_build::CmdBuild::exec", "veryl::cmd_check::CmdCheck::exec"):
        if cmd not in w.fns:
            ck.missing(R, cmd)
            continue
        f = Fn(w.mir(cmd))
        saves = f.calls(r"^veryl::incremental::Incremental::save$")
        ck.floor(R, "Incremental::save calls in %s" % cmd.split("::")[-2], len(saves), 1)
        writes = f.calls(WR)
        if cmd.endswith("CmdBuild::exec"):
            ck.floor(R, "output-writing calls in CmdBuild::exec", len(writes), 2)
        for bi, t in saves:
            after = f.reach_from(t["to"]) if t.get("to") is not None else set()
            late = [(wb, wt) for wb, wt in writes if wb in after]
            ck.ob(R, "no-output-after-save:%s" % cmd.split("::")[-2], not late, site(w.fns[cmd], t["l"]),
                  "no output-writing call is reachable after the manifest is saved" if not late else
                  "output written after the manifest was committed: %s at line %s" % (late[0][1]["callee"], late[0][1]["l"]))
