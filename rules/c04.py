"""C04 - incremental builds produce exactly what a clean build produces.

Decided here (necessary conditions, DESIGN.md section 3, C04): R1 every project-configuration field that the
skipped work reads is folded into the store's global key; R4 the manifest is committed only after every output
of the build was written; R5 only clean pass-1 results are captured. ("Failure is a miss" is decided under C05 R4.)
Not decided: equality of outputs over edit histories, the miss-set closure, warning replay.
"""
import re
from core import Check, site
from mirlib import Fn, MustFacts, Sem
from c29 import mentions_call

RULE = (
    "R1 let R = (field, subfield) pairs of veryl_metadata::Metadata read by any function of the crates whose work a "
    "cache hit skips (veryl_analyzer, veryl_emitter, veryl_aligner, veryl_sourcemap, veryl_parser); let K = the pairs whose "
    "provenance reaches the `parts` argument of veryl_cache::global_key inside veryl::incremental::global_key (a field "
    "handed whole to toml::to_string counts as (field, *) provided its derived Serialize impl calls serialize_field once "
    "per field of the struct). Obligation: every pair of R is in K or in the frozen exemption table (one reason each). "
    "R4 in CmdBuild::exec and CmdCheck::exec no call that writes an output (write_file_if_changed, gen_filelist, "
    "fs::write, Metadata::save_build_info) is reachable in the CFG after Incremental::save; R5 the `cacheable` argument of "
    "Incremental::capture at every call site derives from Vec::is_empty() of the value returned by analyze_pass1. "
    "R6 miss-set construction in Incremental::open: the set is extended exactly once with FileEntry.dependents of its members, and no "
    "other addition to it is reachable after that collection started (a file added later would leave its dependents restored). "
    "R7 TypeDag::dependent_files, which feeds those saved dependents, closes them transitively (a full graph traversal started from "
    "every node), because open performs a single lookup per member. R8 = C29 R1: gc's referenced set covers every blob-bearing "
    "FileEntry field (a collected diagnostics blob silently drops the warm-run warning replay). R9 saved entries whose source is no "
    "longer part of the build (removed, renamed) are enumerated and seed the miss set before the closure. R10 collect_diagnosed stores "
    "every kind of Diag (fresh and replayed), since the blob it produces replaces the one carried over for a restored file. R11 in "
    "pipeline::analyze every site that sets context.skip = true (pass2 will not run) is followed on every path by "
    "Incremental::invalidate of that file unless no cache is open. R12 the comparison by which dst_is_stale lets a cache hit skip "
    "emission identifies the content the output was generated from (a hash), not a modification time: `veryl check` updates the cached "
    "hash without emitting, so mtime evidence is unsound for sources whose mtime is preserved (known finding F16)."
)

CRATES = None  # whole workspace: R1 quantifies over every function of the consumer crates

MD = "veryl_metadata::metadata::Metadata"
CONSUMER_CRATES = ["veryl_analyzer", "veryl_emitter", "veryl_aligner", "veryl_sourcemap", "veryl_parser"]
KEYFN = "veryl::incremental::global_key"

# (field, subfield or "*") -> reason. Reads that need not be in the key.
EXEMPT = {
    ("metadata_path", "*"): "the project's location: the store itself lives under it (project_dot_build_path) and manifest entries are "
                            "keyed by absolute source path, so another location is another store",
    ("lockfile", "*"): "the resolved lock table is the parsed content of the file at lockfile_path, whose text is folded into the key "
                       "(checked: K contains lockfile_path and its read_to_string)",
}


# Candidates the rule found and that reading could neither confirm as a defect (no demonstration with the built
# binary yet) nor clear: reported as UNDECIDED on every run, never as a violation and never as discharged.
UNDECIDED = {
    ("components", "*"): "[[components]] and the component manifest files (built by cargo, outside the store's key) decide which "
                         "$comp symbols exist; pass 2 of a restored file is skipped, so a removed component would go unnoticed. "
                         "Not demonstrated against the binary: triage pending",
}


def md_places(fn):
    """All (field, sub) pairs for places that project through a Metadata field; sub='*' when the field is used whole."""
    out = {}

    def visit(pl, line):
        projs = [p for p in pl[1] if isinstance(p, list) and p[0] == "f"]
        for i, p in enumerate(projs):
            if p[3] == MD:
                sub = projs[i + 1][2] if i + 1 < len(projs) else "*"
                out.setdefault((p[2], sub), line)

    def op(o, line):
        if o[0] in ("c", "m"):
            visit(o[1], line)

    for b in fn.blocks:
        if b.get("cu"):
            continue
        for s in b["s"]:
            if s[0] == "=":
                visit(s[1], s[3])
                rv = s[2]
                k = rv[0]
                if k in ("use", "rep"):
                    op(rv[1], s[3])
                elif k in ("ref", "ptr"):
                    visit(rv[2], s[3])
                elif k == "cast":
                    op(rv[2], s[3])
                elif k == "bin":
                    op(rv[2], s[3]); op(rv[3], s[3])
                elif k == "un":
                    op(rv[2], s[3])
                elif k == "discr":
                    visit(rv[1], s[3])
                elif k == "agg":
                    for o in rv[2]:
                        op(o, s[3])
        t = b["t"]
        if t["t"] == "call":
            for a in t["args"]:
                op(a, t["l"])
            visit(t["dst"], t["l"])
        elif t["t"] == "sw":
            op(t["on"], t["l"])
    return out


def run(world, tier, info, only=None):
    ck = Check("C04", tier, "other", RULE, only)
    w = world
    need = [KEYFN, "veryl_cache::global_key", "veryl::cmd_build::CmdBuild::exec", "veryl::cmd_check::CmdCheck::exec",
            "veryl::incremental::Incremental::save", "veryl::incremental::Incremental::capture", "veryl::pipeline::analyze"]
    for p in need:
        if p not in w.fns:
            ck.missing("anchors", p)
    if MD not in w.adts:
        ck.missing("anchors", MD)
    if any(p not in w.fns for p in need) or MD not in w.adts:
        return ck.finish(info)
    md_fields = {f["name"]: f for f in w.adts[MD]["variants"][0]["fields"]}
    ck.assume("Analyzer::new / Emitter::new are the only entry points through which the skipped work obtains project "
              "configuration: R is computed over every function of the consumer crates, not over a call-graph slice")
    ck.assume("environment variables, the file system outside the project and the clock are not project configuration")

    # ---------------- R1: key coverage ------------------------------------------------------------
    kf = Fn(w.mir(KEYFN))
    gk = kf.calls(r"^veryl_cache::global_key$")
    ck.floor("R1", "veryl_cache::global_key calls in the build key function", len(gk), 1)
    K = {}
    whole_serialised = set()
    for bi, t in gk:
        pv = kf.prov(t["args"][0], depth=40)
        for x in pv:
            if x[0] == "arg" and kf.ty(x[1]).endswith(MD):
                projs = [q for q in x[2] if q[0] == "f"]
                for i, q in enumerate(projs):
                    if q[2] == MD:
                        sub = projs[i + 1][1] if i + 1 < len(projs) else "*"
                        K[(q[1], sub)] = "key part"
        # which parts went through toml::to_string
    for bi, t in kf.calls(r"^toml::ser::to_string"):
        pv = kf.prov(t["args"][0], depth=10)
        for x in pv:
            if x[0] == "arg":
                projs = [q for q in x[2] if q[0] == "f"]
                if projs and projs[-1][2] == MD:
                    # the result of this to_string must reach the key
                    dst = t["dst"][0]
                    whole_serialised.add((projs[-1][1], bi))
    # a serialised field counts only if the to_string result flows into the key parts
    keyprov_calls = set()
    for bi, t in gk:
        for x in kf.prov(t["args"][0], depth=40):
            if x[0] == "call":
                keyprov_calls.add(x[2])
    ser_fields = {f for f, bi in whole_serialised if bi in keyprov_calls}
    for (f, sub) in list(K):
        if sub == "*" and f not in ser_fields and md_fields.get(f, {}).get("adts", [""])[0].startswith("veryl_metadata::"):
            # passed whole but not serialised: we do not know which part is hashed
            K[(f, sub)] = "whole (not through toml::to_string)"
    ck.floor("R1", "(field, subfield) pairs folded into the key", len(K), 4)
    # Serialize completeness for whole-serialised struct fields
    for f in sorted(ser_fields):
        fld = md_fields.get(f)
        if not fld:
            continue
        adt = fld["adts"][0] if fld["adts"] else None
        if not adt or not adt.startswith("veryl_metadata::") or adt not in w.adts:
            continue  # std container (BTreeMap/Vec): serialises every element
        a = w.adts[adt]
        if a["kind"] != "struct":
            continue
        names = [x["name"] for x in a["variants"][0]["fields"]]
        sers = [p for p in w.fns if re.search(r"<impl serde_core::ser::Serialize for %s>::serialize$" % re.escape(adt), p)]
        if len(sers) != 1:
            ck.ob("R1", "serialize-impl:%s" % adt, None, "", "expected exactly one derived Serialize impl, found %d" % len(sers))
            continue
        got = [c["k"].get(1) for c in w.fns[sers[0]]["calls"]
               if c["c"] and c["c"].endswith("SerializeStruct::serialize_field") and c.get("k")]
        ck.ob("R1", "serialises-every-field:%s" % f, len(set(got)) >= len(names), site(w.fns[sers[0]]),
              "%s has %d fields and its Serialize impl emits %d (a skipped field would silently leave the key); missing by name: %s"
              % (adt, len(names), len(set(got)), sorted(set(names) - set(got))[:6]))
    # lockfile text
    rts = kf.calls(r"^std::fs::read_to_string$")
    lock_text = False
    for bi, t in rts:
        pv = kf.prov(t["args"][0], depth=10)
        if any(x[0] == "arg" and any(q[0] == "f" and q[1] == "lockfile_path" for q in x[2]) for x in pv) and bi in keyprov_calls:
            lock_text = True
    ck.ob("R1", "lockfile-text-in-key", lock_text, site(w.fns[KEYFN]), "the text of the file at metadata.lockfile_path is a key part")
    # consumers
    R = {}
    n_cons_fns = 0
    readers = set()
    for p, s in w.fns.items():
        if s["crate"] not in CONSUMER_CRATES:
            continue
        n_cons_fns += 1
        if not any(adt == MD for adt, _ in s["fr"] + s["fw"] + s["fm"]):
            continue
        readers.add(p)
        for pair, line in md_places(Fn(w.mir(p))).items():
            R.setdefault(pair, (p, line))
    # Metadata methods invoked by the consumers on the same object read fields on their behalf
    via = {}
    todo = []
    for p, s in w.fns.items():
        if s["crate"] in CONSUMER_CRATES:
            for c in s["calls"]:
                if c["c"] and c["c"].startswith(MD + "::") and c["c"] in w.fns:
                    todo.append((c["c"], p, c["l"]))
    seen_m = set()
    while todo:
        m, frm, line = todo.pop()
        if m in seen_m:
            continue
        seen_m.add(m)
        mf_ = Fn(w.mir(m))
        if not (mf_.nargs >= 1 and mf_.ty(1).endswith(MD)):
            continue
        for pair, l2 in md_places(mf_).items():
            R.setdefault(pair, (frm, line))
            via.setdefault(pair, m)
        for bi, t in mf_.calls(r"^" + re.escape(MD) + "::"):
            if t["callee"] in w.fns and t["args"] and any(x[0] == "arg" and x[1] == 1 for x in mf_.prov(t["args"][0], depth=6)):
                todo.append((t["callee"], frm, line))
    ck.floor("R1", "Metadata methods called by the skipped work", len(seen_m), 1)
    ck.floor("R1", "consumer functions reading Metadata fields", len(readers), 2)
    ck.floor("R1", "(field, subfield) pairs read by the skipped work", len(R), 4)
    for (f, sub), (p, line) in sorted(R.items()):
        covered = (f, sub) in K or ((f, "*") in K and K[(f, "*")] == "key part" and f in ser_fields) or \
                  ((f, "*") in K and not md_fields.get(f, {}).get("adts", [""])[0].startswith("veryl_metadata::"))
        why = "in the global key"
        if not covered and ((f, sub) in EXEMPT or (f, "*") in EXEMPT):
            if f == "lockfile" and not lock_text:
                covered = False
            else:
                covered = True
                why = "exempt: " + EXEMPT.get((f, sub), EXEMPT.get((f, "*")))
        if not covered and (f, sub) in UNDECIDED or (f, "*") in UNDECIDED and not covered:
            ck.ob("R1", "key-covers:Metadata.%s.%s" % (f, sub), None, site(w.fns[p], line),
                  "read through %s; not in the key; %s" % (via.get((f, sub), p), UNDECIDED.get((f, sub), UNDECIDED.get((f, "*")))))
            continue
        ck.ob("R1", "key-covers:Metadata.%s.%s" % (f, sub), covered, site(w.fns[p], line),
              ("read by %s; %s" % (p, why)) if covered else
              "read by %s (work that a cache hit skips) but not folded into the incremental cache key: changing it leaves stale outputs" % p)
    ck.analysed = {"consumer_crates": CONSUMER_CRATES, "consumer_functions": n_cons_fns, "metadata_readers": sorted(readers),
                   "key_pairs": sorted("%s.%s" % k for k in K), "read_pairs": sorted("%s.%s" % k for k in R)}

    commit_order(ck, w, "R4")
    miss_set_rules(ck, w)
    diagnostics_rules(ck, w)
    gc_cross_listing(ck, w)
    # save_build_info (generated_files list) is written by main after exec
    # ---------------- R5: capture only clean pass 1 ---------------------------------------------------
    caps = []
    for p, s in w.fns.items():
        if s["crate"] not in ("veryl", "veryl.bin"):
            continue
        if any(c["c"] == "veryl::incremental::Incremental::capture" for c in s["calls"]):
            f = Fn(w.mir(p))
            for bi, t in f.calls(r"^veryl::incremental::Incremental::capture$"):
                caps.append((p, f, bi, t))
    ck.floor("R5", "Incremental::capture call sites", len(caps), 1)
    for p, f, bi, t in caps:
        e = f.describe(t["args"][4], 12)
        ok = mentions_call(e, r"Vec::<T, A>::is_empty$") and mentions_call(e, r"Analyzer::analyze_pass1$")
        ck.ob("R5", "cacheable=pass1-errors.is_empty:%s" % p, ok, site(w.fns[p], t["l"]),
              "the `cacheable` argument is analyze_pass1(..).is_empty() of the same iteration")
    return ck.finish(info)


def commit_order(ck, w, R):
    """the cache manifest is committed (Incremental::save) only after every output of the command was written"""
    WR = r"^veryl::utils::write_(file|output)_if_changed$|^veryl::cmd_build::CmdBuild::gen_filelist$|^std::fs::write$|^veryl_metadata::metadata::Metadata::save_build_info$|^veryl_path::atomic_write$"
    for cmd in ("veryl::cmd_build::CmdBuild::exec", "veryl::cmd_check::CmdCheck::exec"):
        if cmd not in w.fns:
            ck.missing(R, cmd)
            continue
        f = Fn(w.mir(cmd))
        saves = f.calls(r"^veryl::incremental::Incremental::save$")
        ck.floor(R, "Incremental::save calls in %s" % cmd.split("::")[-2], len(saves), 1)
        writes = f.calls(WR)
        if cmd.endswith("CmdBuild::exec"):
            ck.floor(R, "output-writing calls in CmdBuild::exec", len(writes), 2)
        for bi, t in saves:
            after = f.reach_from(t["to"]) if t.get("to") is not None else set()
            late = [(wb, wt) for wb, wt in writes if wb in after]
            ck.ob(R, "no-output-after-save:%s" % cmd.split("::")[-2], not late, site(w.fns[cmd], t["l"]),
                  "no output-writing call is reachable after the manifest is saved" if not late else
                  "output written after the manifest was committed: %s at line %s" % (late[0][1]["callee"], late[0][1]["l"]))


MISS_MUT = r"hash::set::HashSet::<T, S, A>::insert$|hash::set::HashSet<T, S, A> as core::iter::traits::collect::Extend<T>>::extend$"
OPEN = "veryl::incremental::Incremental::open"


def _named(f, op):
    """debug name of the local behind `&mut x` / `&x` / a copy"""
    if op[0] == "k":
        return None
    l = op[1][0]
    for _ in range(8):
        if f.name(l):
            return f.name(l)
        d = f.def_of(l)
        if not d or d[0] != "s":
            return None
        rv = f.rvalue_at(d)
        if rv[0] in ("ref", "ptr"):
            l = rv[2][0]
        elif rv[0] == "use" and rv[1][0] != "k":
            l = rv[1][1][0]
        else:
            return None
    return None


def miss_set_rules(ck, w):
    """R6-R9: construction of the miss set in Incremental::open and the closure of the dependents map."""
    import flow
    if OPEN not in w.fns:
        ck.missing("R6", OPEN)
        return
    so = w.fns[OPEN]
    f = Fn(w.mir(OPEN))
    muts = [(bi, t) for bi, t in f.calls(MISS_MUT) if _named(f, t["args"][0]) == "miss"]
    ck.floor("R6", "mutations of `miss` in Incremental::open", len(muts), 3)
    # the closure step: miss.extend(<values derived from entry.dependents>)
    closure = []
    for bi, t in muts:
        if t["callee"].endswith("::extend"):
            nm = _named(f, t["args"][1])
            pv = f.prov(t["args"][1], depth=20)
            if nm == "dependents" or any(x[0] == "field" and x[1] == "dependents" for x in pv):
                closure.append((bi, t))
    ck.ob("R6", "closure-step-exists", len(closure) == 1, site(so), "the miss set is extended once with the saved dependents of its members (found %d such steps)" % len(closure))
    if len(closure) == 1:
        cb, ct = closure[0]
        # the dependents are collected by a loop over `miss` that looks each member up in the store
        dep_fill = [(bi, t) for bi, t in f.calls(r"Extend<.*>>::extend$|HashSet::<T, S, A>::insert$") if _named(f, t["args"][0]) == "dependents"]
        ok_src = False
        for bi, t in dep_fill:
            pv = f.prov(t["args"][1], depth=24)
            if any(x[0] == "field" and x[1] == "dependents" and x[2].endswith("FileEntry") for x in pv):
                ok_src = True
        ck.ob("R6", "closure-reads-saved-dependents", ok_src, site(so, ct["l"]), "the closure step adds FileEntry.dependents of the store's saved entries")
        # no seed is added after the closure step was computed: every other mutation of miss precedes the first read of miss by the closure loop
        first_read = None
        for head, lt, some, none, item in flow.loops_over(f):
            if _named(f, lt["args"][0]) == "miss" or "miss" == _iter_source_name(f, lt["args"][0]):
                if any(b == fb for fb, _ in dep_fill for b in f.reach_from(some, avoid=[head])):
                    first_read = head
        if first_read is None:
            ck.ob("R6", "closure-loop", None, site(so), "the loop that walks `miss` to collect dependents was not recognised")
        else:
            late = [(bi, t) for bi, t in muts if bi != cb and f.reaches(first_read, bi)]
            ck.ob("R6", "no-seed-after-closure", not late, site(so, ct["l"]),
                  "every other addition to the miss set happens before its dependents are collected" if not late else
                  "a file is added to the miss set at line %s after the dependents of the miss set were collected: its dependents are restored "
                  "although what they resolved against is re-analysed" % late[0][1]["l"])
    # R9 removed / renamed files
    enumerators = []
    for p, s in w.fns.items():
        if s["crate"] != "veryl_cache" or not p.startswith("veryl_cache::Store::") or s.get("alias_of"):
            continue
        if ["veryl_cache::Manifest", "files"] in [list(x) for x in s["fr"]] and any(re.search(r"BTreeMap::<K, V, A>::(keys|iter|values|into_keys)$|HashMap::<K, V, S, A>::(keys|iter|values)$", c["c"] or "") for c in s["calls"]):
            if not re.search(r"::(gc|save|open_with_lock)$", p):
                enumerators.append(p)
    used = [(bi, t) for bi, t in f.calls() if t.get("callee") in enumerators]
    ok9 = False
    for bi, t in used:
        # some mutation of miss is inside a loop over this enumerator's result and precedes the closure
        for head, lt, some, none, item in flow.loops_over(f):
            r, pth = flow.access_path(f, lt["args"][0], extra_transparent=re.compile(r"Iterator::(map|filter|filter_map|cloned|copied)$"))
            if r[0] == "call" and r[1] in enumerators:
                body = f.reach_from(some, avoid=[head])
                if any(mb in body for mb, _ in muts):
                    ok9 = True
    ck.ob("R9", "removed-files-seed-the-miss-set", ok9, site(so),
          "saved entries whose source is no longer part of the build are added to the miss set (enumerated through %s)" % [e.split("::")[-1] for e in enumerators] if ok9 else
          "Incremental::open never enumerates the saved entries (store enumerators available: %s): the dependents of a removed or renamed file are "
          "restored from the cache" % [e.split("::")[-1] for e in enumerators])
    # R12 the evidence that lets a hit skip emission must identify the *content* the output was generated from
    DS = "veryl::incremental::Incremental::dst_is_stale"
    if DS in w.fns:
        sd = w.fns[DS]
        g = Fn(w.mir(DS))
        cmps = g.calls(r"PartialOrd(<.*>)?(>)?::(gt|lt|ge|le)$|PartialEq(<.*>)?(>)?::(eq|ne)$")
        n12 = 0
        for bi, t in cmps:
            if t["dst"] != [0, []] and g.ty(t["dst"][0]) != "bool":
                continue
            pv = set()
            for a in t["args"]:
                pv |= g.prov(a, depth=24)
            timey = sorted({x[1].split("::")[-1] for x in pv if x[0] == "call" and re.search(r"fs::metadata$|Metadata::modified$|SystemTime::now$", x[1] or "")})
            contenty = [x for x in pv if x[0] == "call" and re.search(r"content_hash$|blake3|Hasher", x[1] or "")]
            if not timey and not contenty:
                continue
            n12 += 1
            ck.ob("R12", "output-freshness-is-content-based", bool(contenty) and not timey, site(sd, t["l"]),
                  "dst_is_stale compares a content identity of the source with the one the output was generated from" if contenty and not timey else
                  "dst_is_stale trusts an output when mtime(source) <= time of generation (%s): `veryl check` stores a changed source's hash without "
                  "emitting, so a changed source carrying an old mtime (cp -p, rsync -t, tar x) is restored as a hit and the output of the OLD "
                  "source is kept" % timey)
        ck.floor("R12", "freshness comparisons in dst_is_stale", n12, 1)
    else:
        ck.missing("R12", DS)
    # R7 transitive closure of the dependents map
    DF = "veryl_analyzer::type_dag::TypeDag::dependent_files"
    if DF not in w.fns:
        ck.missing("R7", DF)
        return
    sd = w.fns[DF]
    g = Fn(w.mir(DF))
    trav = g.calls(r"petgraph::visit::(traversal::)?(Dfs|Bfs|DfsPostOrder)::<.*>::(next|new)$")
    direct = g.calls(r"::(children|parents|neighbors|neighbors_directed|edges|edges_directed)$")
    nexts = [t for _, t in trav if (t.get("callee") or "").endswith("::next")]
    # the traversal is drained (its next() sits on a cycle) and started once per node (its new() sits inside a loop over the nodes)
    in_loop = any(g.reaches(t["to"], bi) for bi, t in trav if t["callee"].endswith("::next") and t.get("to") is not None)
    per_node = False
    for head, lt, some, none, item in flow.loops_over(g):
        body = g.reach_from(some, avoid=[head])
        if any(bi in body for bi, t in trav if t["callee"].endswith("::new")):
            per_node = True
    in_loop = in_loop and per_node
    if nexts and in_loop:
        ck.ob("R7", "dependents-map-transitively-closed", True, site(sd), "dependent_files walks the file graph with a full traversal (%s) from every node" % nexts[0]["callee"].split("::")[-2])
    elif direct and not nexts:
        ck.ob("R7", "dependents-map-transitively-closed", False, site(sd, direct[0][1]["l"]),
              "dependent_files records direct %s only, while Incremental::open extends the miss set by one lookup per member: files two or more "
              "dependency steps away from an edit are restored" % direct[0][1]["callee"].split("::")[-1])
    else:
        ck.ob("R7", "dependents-map-transitively-closed", None, site(sd), "traversal shape not recognised")


def _iter_source_name(f, op):
    import flow
    if op[0] == "k":
        return None
    l = op[1][0]
    for _ in range(10):
        if f.name(l) and f.name(l) != "iter":
            return f.name(l)
        d = f.def_of(l)
        if not d:
            return None
        if d[0] == "c":
            t = f.blocks[d[1]]["t"]
            if t["args"] and t["args"][0][0] != "k":
                l = t["args"][0][1][0]
                continue
            return None
        rv = f.rvalue_at(d)
        if rv[0] in ("ref", "ptr"):
            l = rv[2][0]
        elif rv[0] == "use" and rv[1][0] != "k":
            l = rv[1][1][0]
        else:
            return None
    return None


def diagnostics_rules(ck, w):
    """R10 every kind of reported diagnostic is stored for the warm run; R11 a file whose pass2 is skipped keeps no fragment."""
    import flow
    CD = "veryl::pipeline::collect_diagnosed"
    AN = "veryl::pipeline::analyze"
    if CD not in w.fns:
        ck.missing("R10", CD)
    else:
        s = w.fns[CD]
        f = Fn(w.mir(CD))
        sws = flow.enum_switches(f, r"veryl::pipeline::Diag$")
        pushes = [bi for bi, t in f.calls(r"alloc::vec::Vec::<T, A>::push$")]
        if not sws:
            # no classification of Diag at all: every diagnostic takes the same path
            ck.ob("R10", "every-diag-kind-stored", bool(pushes), site(s), "collect_diagnosed stores diagnostics without telling kinds apart")
        for bb, t in sws[:1]:
            arm, wc = flow.arms(f, t)
            for v in t.get("variants", []):
                tg = arm.get(v)
                reach = tg is not None and any(f.reaches(tg, pb, avoid=_loop_heads(f, flow)) for pb in pushes)
                ck.ob("R10", "diag-kind-stored:" + v, bool(reach), site(s, t["l"]),
                      "a Diag::%s reaches the push into the per-file list" % v if reach else
                      "Diag::%s diagnostics are dropped when a file's diagnostics are stored: after a warm run replaces the blob they are never "
                      "reported again" % v)
    if AN not in w.fns:
        ck.missing("R11", AN)
        return
    s = w.fns[AN]
    f = Fn(w.mir(AN))
    writes = [(bi, si, st) for bi, si, st in flow.field_writes(f, r"context::Context$", "skip")
              if st[2][0] == "use" and st[2][1][0] == "k" and str(st[2][1][1].get("int")) in ("1", "true")]
    ck.floor("R11", "sites that mark a file's pass2 as skipped", len(writes), 1)
    inv = [bi for bi, t in f.calls(r"^veryl::incremental::Incremental::invalidate$")]
    heads = _loop_heads(f, flow)
    for n, (bi, si, st) in enumerate(writes):
        try:
            paths = flow.enumerate_paths(f, bi, [h for h in heads] + f.returns(), avoid=inv)
        except OverflowError:
            ck.ob("R11", "skip-drops-fragment@%d" % (n + 1), None, site(s, st[3]), "too many paths")
            continue
        bad = 0
        for path in paths:
            fx = flow.path_facts(f, path)
            none_inc = any(x[0] == "isvariant" and x[2] == "None" and "incremental" in repr(x[1]) for x in fx)
            if not none_inc:
                bad += 1
        ck.ob("R11", "skip-drops-fragment@%d" % (n + 1), bad == 0, site(s, st[3]),
              "a file whose pass2 is skipped has its captured fragment invalidated (unless no cache is open)" if bad == 0 else
              "context.skip = true is not followed by Incremental::invalidate on %d path(s): the pass1 fragment of a file nobody ran pass2 on "
              "is saved and restored by the next warm run" % bad)


def _loop_heads(f, flow):
    return [h for h, *_ in flow.loops_over(f)]


def gc_cross_listing(ck, w):
    """R8 = C29 R1 (gc's referenced set covers every blob-bearing field): losing a referenced diagnostics blob makes the next
    warm run silently drop the warnings replay, which is an incremental != clean difference."""
    import c29
    import core
    got = []

    class Cap(core.Check):
        def finish(self, *a, **k):
            got.append(self)
            return 0
    old = c29.Check
    c29.Check = Cap
    try:
        c29.run(w, ck.tier, {}, None)
    finally:
        c29.Check = old
    n = 0
    for sub in got:
        for o in sub.obs:
            if o["rule"] == "R1":
                n += 1
                ck.obs.append({"rule": "R8", "key": o["key"].replace("C29.R1/", "C04.R8/"), "site": o["site"], "verdict": o["verdict"], "detail": o["detail"]})
    ck.floor("R8", "gc coverage obligations shared with C29 R1", n, 2)
