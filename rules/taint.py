"""Forward value-flow (taint) and control dependence on one MIR body (used by C26, C01, C32).

Flow-insensitive over locals: sound as a may-analysis (a value *may* derive from a seed). Control dependence is the
classical one (Ferrante/Ottenstein/Warren) computed from post-dominators on the normal-edge CFG.
"""
import re
from collections import deque

PURE = re.compile(
    r"core::num::<impl [a-z0-9]+>::(saturating_(sub|add|mul)|wrapping_(sub|add)|checked_(sub|add)|min|max|div_ceil|pow|abs|clamp|is_multiple_of|next_multiple_of)$"
    r"|core::cmp::(Ord|PartialOrd|PartialEq)(<.*>)?(>)?::(max|min|cmp|partial_cmp|eq|ne|lt|le|gt|ge|clamp)$"
    r"|core::cmp::impls::<impl core::cmp::(PartialEq|PartialOrd|Ord)(<.*>)? for .*>::(eq|ne|lt|le|gt|ge|cmp|partial_cmp|max|min)$"
    r"|core::clone::Clone>::clone$|core::ops::deref::Deref>::deref$|core::convert::(Into|From)(<.*>)?(>)?::(into|from)$"
    r"|core::option::Option::<T>::(unwrap|expect|unwrap_or|unwrap_or_default|copied|cloned|is_some|is_none)$"
    r"|core::str::traits::<impl core::cmp::PartialEq for str>::(eq|ne)$|<str as core::cmp::PartialEq>::(eq|ne)$"
    r"|core::ops::bit::Not>::not$|core::ops::arith::(Add|Sub|Mul|Div)(<.*>)?>::(add|sub|mul|div)$")


CONTAINER_ADD = re.compile(r"::(insert|push|push_back|push_front|extend|append|entry|push_str)$")


def _ops_of(rv):
    k = rv[0]
    if k in ("use", "rep"):
        return [rv[1]]
    if k == "cast":
        return [rv[2]]
    if k in ("ref", "ptr"):
        return [["c", rv[2]]]
    if k == "bin":
        return [rv[2], rv[3]]
    if k == "un":
        return [rv[2]]
    if k == "discr":
        return [["c", rv[1]]]
    if k == "agg":
        return list(rv[2])
    return []


class Taint:
    def __init__(self, fn, seed_place=None, seed_call=None, pure=None, seed_locals=(), containers=False):
        """seed_place(place)->bool : reading this place yields a tainted value
           seed_call(terminator)->bool : the result of this call is tainted
           pure: regex of additional value-propagating callees"""
        self.fn = fn
        self.seed_place = seed_place or (lambda pl: False)
        self.seed_call = seed_call or (lambda t: False)
        self.pure = pure
        self.containers = containers   # a collection that receives a tainted element (insert / push / extend) becomes tainted itself
        self.T = set(seed_locals)
        self._run()

    def op_tainted(self, op):
        if op[0] == "k":
            return False
        pl = op[1]
        return self.seed_place(pl) or pl[0] in self.T

    def _is_pure(self, c):
        return bool(c and (PURE.search(c) or (self.pure and self.pure.search(c))))

    def _run(self):
        fn = self.fn
        changed = True
        while changed:
            changed = False
            for b in fn.blocks:
                if b.get("cu"):
                    continue
                for s in b["s"]:
                    if s[0] != "=":
                        continue
                    if s[1][0] in self.T:
                        continue
                    if s[1][1]:
                        continue  # a write into a field / through a pointer is a sink ("fieldwrite"), the container is not the value
                    rv = s[2]
                    if rv[0] == "agg" and isinstance(rv[1], dict) and rv[1].get("adt") and not re.search(
                            r"^core::ops::range::|^core::option::Option$|^core::result::Result$", rv[1]["adt"]):
                        continue  # a struct holding the value is a sink ("agg"), not the value itself (field-insensitive otherwise)
                    if any(self.op_tainted(o) for o in _ops_of(rv) if isinstance(o, list)):
                        self.T.add(s[1][0])
                        changed = True
                t = b["t"]
                if t["t"] == "call" and t["dst"][0] not in self.T:
                    if self.seed_call(t) or (self._is_pure(t.get("callee")) and any(self.op_tainted(a) for a in t["args"])):
                        self.T.add(t["dst"][0])
                        changed = True
                if self.containers and t["t"] == "call" and len(t["args"]) >= 2 and CONTAINER_ADD.search(t.get("callee") or "") and \
                        any(self.op_tainted(a) for a in t["args"][1:]) and t["args"][0][0] != "k":
                    l = t["args"][0][1][0]
                    for _ in range(6):
                        if l not in self.T:
                            self.T.add(l)
                            changed = True
                        d = fn.def_of(l)
                        if d is None or d[0] != "s":
                            break
                        rv = fn.rvalue_at(d)
                        if rv[0] in ("ref", "ptr"):
                            l = rv[2][0]
                        elif rv[0] == "use" and rv[1][0] != "k":
                            l = rv[1][1][0]
                        else:
                            break

    def sinks(self):
        """every place a tainted value is consumed other than by plain propagation:
           ("call", callee, argidx, bb, line) non-pure call receiving a tainted argument
           ("agg", adt, field_index, bb, line) aggregate built with a tainted operand
           ("fieldwrite", adt, field, bb, line)
           ("switch", bb, line) branch on a tainted value
           ("ret", bb, line) the function's return place is assigned a tainted value"""
        fn = self.fn
        out = []
        for bi, b in enumerate(fn.blocks):
            if b.get("cu"):
                continue
            for s in b["s"]:
                if s[0] != "=":
                    continue
                ops = [o for o in _ops_of(s[2]) if isinstance(o, list)]
                tainted = [i for i, o in enumerate(ops) if self.op_tainted(o)]
                if not tainted:
                    continue
                rv = s[2]
                if rv[0] == "agg" and isinstance(rv[1], dict) and rv[1].get("adt"):
                    for i in tainted:
                        out.append(("agg", rv[1]["adt"], i, bi, s[3]))
                fields = [p for p in s[1][1] if isinstance(p, list) and p[0] == "f"]
                if fields:
                    out.append(("fieldwrite", fields[-1][3], fields[-1][2], bi, s[3]))
                is_struct = rv[0] == "agg" and isinstance(rv[1], dict) and rv[1].get("adt") and not re.search(
                    r"^core::ops::range::|^core::option::Option$|^core::result::Result$", rv[1]["adt"])
                if s[1][0] == 0 and not s[1][1] and not is_struct:
                    out.append(("ret", bi, s[3]))
            t = b["t"]
            if t["t"] == "call":
                for i, a in enumerate(t["args"]):
                    if self.op_tainted(a) and not self._is_pure(t.get("callee")):
                        out.append(("call", t.get("callee"), i, bi, t["l"]))
                if t["dst"][0] == 0 and (t["dst"][0] in self.T):
                    out.append(("ret", bi, t["l"]))
            elif t["t"] == "sw":
                if self.op_tainted(t["on"]):
                    out.append(("switch", bi, t["l"]))
        return out


# ---------------------------------------------------------------------------------------------
# control dependence


def postdominators(fn):
    """pdom[b] = set of blocks that post-dominate b (normal edges; exits = blocks without normal successors)."""
    nodes = [i for i in range(fn.n) if not fn.blocks[i].get("cu") and i in fn.reachable()]
    EXIT = -1
    succ = {}
    for b in nodes:
        ss = [s for s in fn.succ[b] if not fn.blocks[s].get("cu")]
        succ[b] = ss if ss else [EXIT]
    allset = set(nodes) | {EXIT}
    pdom = {b: set(allset) for b in nodes}
    pdom[EXIT] = {EXIT}
    changed = True
    while changed:
        changed = False
        for b in reversed(nodes):
            new = set.intersection(*(pdom[s] for s in succ[b])) | {b}
            if new != pdom[b]:
                pdom[b] = new
                changed = True
    return pdom


def control_dependents(fn, branch_bb, pdom=None):
    """{succ: set(blocks control dependent on the edge branch_bb -> succ)}"""
    pdom = pdom or postdominators(fn)
    out = {}
    for s in fn.succ[branch_bb]:
        if fn.blocks[s].get("cu"):
            continue
        dep = set()
        # X is control dependent on (B -> s) iff X postdominates s (or X == s) and X does not strictly postdominate B
        for x in pdom.get(s, ()):
            if x == -1:
                continue
            if x in pdom[branch_bb] and x != branch_bb:
                continue
            dep.add(x)
        out[s] = dep
    return out


def effects(fn, blocks, ignore_calls=None):
    """observable effects inside a set of blocks: non-trivial calls, field writes (through any pointer / self), returns"""
    ig = ignore_calls
    calls = []
    writes = []
    for b in sorted(blocks):
        blk = fn.blocks[b]
        for s in blk["s"]:
            if s[0] == "=":
                fields = [p for p in s[1][1] if isinstance(p, list) and p[0] == "f"]
                if fields and ("*" in s[1][1] or 1 <= s[1][0] <= fn.nargs):
                    writes.append((fields[0][3], fields[0][2], s[3]))
        t = blk["t"]
        if t["t"] == "call":
            c = t.get("callee") or "?"
            if ig is not None and ig.search(c):
                continue
            calls.append((c, t["l"]))
        elif t["t"] == "drop":
            fields = [p for p in t["p"][1] if isinstance(p, list) and p[0] == "f"]
            # dropping the old value of a field before overwriting it belongs to the write
    return calls, writes
