"""C31 - dependency resolution is deterministic and picks the best version.

Decided here (DESIGN.md section 3 C31, section 8): the determinism sources of veryl_metadata::lockfile and the decision
*structure* of version resolution (lock first, highest matching release first). Not decided: "best version" over all
release histories, save/reload equality.
"""
import re
from core import Check, site
from mirlib import Fn, MustFacts, Sem
from c29 import expr_mentions, mentions_call, mentions_field
import c24

RULE = (
    "R1 (determinism sources) no function of veryl_metadata::lockfile calls a time, random, process-id or Uuid::new_v4 "
    "source (ids come from Uuid::new_v5 of deterministic strings), and every iteration over a RandomState HashMap/HashSet "
    "in those functions is order-insensitive, sorted before use, or a triaged entry of C24's table (same classifier). "
    "R2 (lock first) in Lockfile::resolve_version every call of resolve_version_from_latest carries the must-fact "
    "`resolve_version_from_lockfile(..) is None` or `self.force_update`; in resolve_version_from_lockfile the Some(..) "
    "return carries the must-facts `x.project == project` and `version_req.matches(&x.version)`. R3 (highest first) in "
    "resolve_version_from_latest a slice sort_by on pubfile.releases has returned on every path to the first-match loop, "
    "its comparator closure is Ord::cmp(&b.version, &a.version) (descending), the Ok(..) return carries the must-fact "
    "version_req.matches(&release.version) and the loop iterates the sorted pubfile.releases. R4 (distinct names) in gen_locks the "
    "value reserved by name_table.insert and the name stored in the Lock are the same local (the possibly suffixed name), reserved on "
    "every path before the Lock is built. R5 (locked release first) in every caller of gen_locks (new, update) self.lock_table is not "
    "cleared, taken or modified before gen_locks runs: resolve_version_from_lockfile reads it. R6 (table sorted) every Lockfile function "
    "that inserts into self.lock_table reaches its return only through sort_table, whose comparator is cmp(b.source, a.source): the first "
    "matching lock resolve_version_from_lockfile returns is the highest locked release. R7 (lock identity) every value Lock::uuid returns "
    "is computed by Lockfile::gen_uuid with the lock's own properties."
)

CRATES = ["veryl_metadata", "veryl_path"]

LF = "veryl_metadata::lockfile::"
RV = LF + "Lockfile::resolve_version"
RVL = LF + "Lockfile::resolve_version_from_lockfile"
RVT = LF + "Lockfile::resolve_version_from_latest"
NONDET = re.compile(r"^uuid::.*::new_v4$|^uuid::.*::now_v\d$|^uuid::.*::new_v[167]$|^std::time::(SystemTime|Instant)::now$|^rand::|^rand_core::|^getrandom::|^std::process::id$"
                    r"|^std::thread::current$|^fastrand::|RandomState::new$")


def run(world, tier, info, only=None):
    ck = Check("C31", tier, "other", RULE, only)
    w = world
    for p in (RV, RVL, RVT, LF + "Lockfile::gen_locks", LF + "Lockfile::gen_uuid"):
        if p not in w.fns:
            ck.missing("anchors", p)
    if any(p not in w.fns for p in (RV, RVL, RVT)):
        return ck.finish(info)
    ck.assume("semver::Version's Ord is the semver precedence order; VersionReq::matches is the semver requirement test")
    ck.assume("git fetch/checkout of the resolve/ clone yields the same Veryl.pub for the same remote state (outside the tool)")
    lf_fns = sorted(p for p, s in w.fns.items() if p.startswith(LF) and not s.get("derived") and not s.get("alias_of"))
    ck.floor("R1", "functions of veryl_metadata::lockfile", len(lf_fns), 30)
    # ---------------- R1 ------------------------------------------------------------------------------
    n_v5 = 0
    for p in lf_fns:
        for c in w.fns[p]["calls"]:
            cal = c["c"] or ""
            if re.search(r"^uuid::.*::new_v5$", cal):
                n_v5 += 1
            if NONDET.search(cal):
                ck.ob("R1", "nondeterministic-source:%s/%s" % (p, cal), False, site(w.fns[p], c["l"]),
                      "%s is a run-dependent value source inside dependency resolution" % cal)
    ck.floor("R1", "Uuid::new_v5 call sites (positive example of the source matcher)", n_v5, 1)
    ck.ob("R1", "no-nondeterministic-source", True, "", "scanned %d functions for time/random/pid/new_v4 sources" % len(lf_fns))
    n_sites = 0
    for p in lf_fns:
        s = w.fns[p]
        if not any(c24.ITER.search(c["c"] or "") for c in s["calls"]):
            continue
        fn = Fn(w.mir(p))
        seen = {}
        for bi, t in fn.calls():
            if not c24.ITER.search(t.get("callee") or ""):
                continue
            a = t["args"][0]
            ty = fn.ty(a[1][0]) if a[0] in ("c", "m") else "?"
            if "Fx" in ty or "BuildHasherDefault" in ty:
                continue
            n_sites += 1
            owner = p
            while owner in w.fns and w.fns[owner]["kind"] == "closure" and w.fns[owner].get("parent"):
                owner = w.fns[owner]["parent"]
            method = (t["callee"] or "").split("::")[-1]
            kind, why = c24.classify(fn, bi, t)
            names = c24.receiver_name(fn, t)
            base = "%s/%s(%s)" % (p, method, ",".join(sorted(names)))
            n = seen.get(base, 0)
            seen[base] = n + 1
            key = base if n == 0 else "%s#%d" % (base, n + 1)
            ok = kind in ("insensitive", "sorted")
            detail = "order-%s: %s" % (kind, why)
            if not ok:
                tri = None
                for nm in list(names) + ["*"]:
                    tri = c24.TRIAGE.get((owner, method, nm))
                    if tri:
                        break
                if tri and tri[0] == "benign":
                    ok, detail = True, "order-sensitive in form (%s); triaged benign: %s" % (why, tri[1])
                elif tri and tri[0] == "sorted-before":
                    sorts = {b for b, _ in fn.calls(tri[1])}
                    sinks = [b for b, _ in fn.calls(tri[2])]
                    ok = bool(sorts) and bool(sinks) and not any(fn.reaches(t["to"], sb, avoid=sorts) for sb in sinks)
                    detail = "order-sensitive (%s); %s; sort separates it from %s: %s" % (why, tri[3], tri[2], ok)
                elif tri and tri[0] == "undecided":
                    ok, detail = None, "order-sensitive (%s); %s" % (why, tri[1])
                else:
                    detail = "order-sensitive (%s): dependency resolution takes an order from a RandomState table" % why
            ck.ob("R1", "site:" + key, ok, site(s, t["l"]), detail)
    ck.floor("R1", "RandomState iteration sites in veryl_metadata::lockfile", n_sites, 6)

    # ---------------- R2 ------------------------------------------------------------------------------
    f = Fn(w.mir(RV))
    mf = MustFacts(f)
    sem = Sem(f, depth=16)
    latest = f.calls("^" + re.escape(RVT) + "$")
    ck.floor("R2", "resolve_version_from_latest calls in resolve_version", len(latest), 1)
    for i, (bi, t) in enumerate(sorted(latest, key=lambda x: (x[1]["l"], x[0]))):
        F = sem.facts(mf.at_entry(bi))
        none = any(x[0] == "isvariant" and x[2] == "None" and mentions_call(x[1], "^" + re.escape(RVL) + "$") for x in F)
        force = any(x[0] == "flag" and x[2] is True and mentions_field(x[1], LF + "Lockfile", "force_update") for x in F)
        ck.ob("R2", "latest-only-if-unlocked-or-forced@%d" % (i + 1), none or force, site(w.fns[RV], t["l"]),
              "resolve_version_from_latest is called only where the lockfile has no matching lock (%s) or force_update is set (%s)" % (none, force))
    g = Fn(w.mir(RVL))
    mg = MustFacts(g)
    sg = Sem(g, depth=16)
    n_some = 0
    for bi, b in enumerate(g.blocks):
        if b.get("cu"):
            continue
        for si, st in enumerate(b["s"]):
            if st[0] == "=" and st[2][0] == "agg" and isinstance(st[2][1], dict) and st[2][1].get("adt") == "core::option::Option" \
                    and st[2][1].get("variant") == "Some":
                S = mg.state_at(bi, si)
                if S is None:
                    continue
                n_some += 1
                F = sg.facts(S[0])
                m = any(x[0] == "call" and re.search(r"VersionReq::matches$", x[1] or "") and x[2] is True for x in F)
                pj = any(x[0] == "call" and re.search(r"PartialEq.*::eq$", x[1] or "") and x[2] is True and
                         any(expr_mentions(a, lambda y: isinstance(y, tuple) and len(y) == 3 and y[0] == "proj" and any(q[0] == "f" and q[1] == "project" for q in y[2])) for a in x[3])
                         for x in F)
                ck.ob("R2", "locked-release:matches@%d" % n_some, m, site(w.fns[RVL], st[3]), "a locked release is reused only where version_req.matches(&x.version)")
                ck.ob("R2", "locked-release:same-project@%d" % n_some, pj, site(w.fns[RVL], st[3]), "a locked release is reused only where x.project == project")
    ck.floor("R2", "Some(..) constructions in resolve_version_from_lockfile", n_some, 1)

    # ---------------- R3 ------------------------------------------------------------------------------
    h = Fn(w.mir(RVT))
    mh = MustFacts(h)
    sh = Sem(h, depth=16)
    sorts = h.calls(r"slice::<impl \[T\]>::sort_by$")
    ck.floor("R3", "sort_by calls in resolve_version_from_latest", len(sorts), 1)
    desc = False
    for bi, t in sorts:
        pv = h.prov(t["args"][0], depth=10)
        on_releases = any(x[0] == "field" and x[1] == "releases" for x in pv)
        cl = None
        for c in w.fns[RVT].get("closures", []):
            if c in w.fns:
                cf = Fn(w.mir(c))
                if cf.nargs == 3 and cf.ty(0) == "core::cmp::Ordering":
                    cl = (c, cf)
        ck.ob("R3", "sort-on-releases", on_releases, site(w.fns[RVT], t["l"]), "the sort is applied to pubfile.releases")
        if cl is None:
            ck.ob("R3", "comparator-found", None, site(w.fns[RVT], t["l"]), "comparator closure not recognised")
            continue
        c, cf = cl
        cmps = cf.calls(r"as core::cmp::Ord>::cmp$|as core::cmp::PartialOrd>::partial_cmp$")
        rev = cf.calls(r"Ordering::reverse$")
        if len(cmps) != 1 or len(cf.calls()) - len(rev) != 1:
            ck.ob("R3", "comparator-descending", None, site(w.fns[c]), "comparator is not a single cmp call: idiom not recognised")
            continue
        _, ct = cmps[0]
        p0 = cf.prov(ct["args"][0], depth=8)
        p1 = cf.prov(ct["args"][1], depth=8)

        def from_arg(pv, n):
            return any(x[0] == "arg" and x[1] == n and any(q[0] == "f" and q[1] == "version" for q in x[2]) for x in pv)
        b_first = from_arg(p0, 3) and from_arg(p1, 2)
        a_first = from_arg(p0, 2) and from_arg(p1, 3)
        desc = (b_first and not rev) or (a_first and bool(rev))
        ck.ob("R3", "comparator-descending", desc if (b_first or a_first) else None, site(w.fns[c]),
              "comparator is %s: releases are tried from the highest version down" % ("b.version.cmp(&a.version)" if b_first else "a.version.cmp(&b.version)" + (".reverse()" if rev else " (ascending!)")))
    matches = h.calls(r"VersionReq::matches$")
    ck.floor("R3", "VersionReq::matches calls in resolve_version_from_latest", len(matches), 1)
    for bi, t in matches:
        F = mh.at_entry(bi) or frozenset()
        ck.ob("R3", "sorted-before-first-match", any(x[0] == "called" and re.search(r"slice::<impl \[T\]>::sort_by$", x[1]) for x in F),
              site(w.fns[RVT], t["l"]), "sort_by has returned on every path to the first-match test")
        pv = h.prov(t["args"][1], depth=14)
        ck.ob("R3", "loop-over-sorted-releases", any(x[0] == "field" and x[1] == "releases" for x in pv) and any(x[0] == "field" and x[1] == "version" for x in pv),
              site(w.fns[RVT], t["l"]), "the version tested is release.version of an element of pubfile.releases")
    n_ok = 0
    for bi, b in enumerate(h.blocks):
        if b.get("cu"):
            continue
        for si, st in enumerate(b["s"]):
            if st[0] == "=" and st[1][0] == 0 and st[2][0] == "agg" and isinstance(st[2][1], dict) and st[2][1].get("variant") == "Ok":
                S = mh.state_at(bi, si)
                if S is None:
                    continue
                n_ok += 1
                F = sh.facts(S[0])
                ck.ob("R3", "returned-release-matches@%d" % n_ok, any(x[0] == "call" and re.search(r"VersionReq::matches$", x[1] or "") and x[2] is True for x in F),
                      site(w.fns[RVT], st[3]), "Ok(release) is returned only where version_req.matches(&release.version)")
    ck.floor("R3", "Ok(..) returns in resolve_version_from_latest", n_ok, 1)
    ck.analysed = {"lockfile_functions": len(lf_fns), "hash_iteration_sites": n_sites, "functions_with_cfg": [RV, RVL, RVT]}
    # ---------------- R4 distinct names -----------------------------------------------------------------
    import flow
    GL = LF + "Lockfile::gen_locks"
    g = Fn(w.mir(GL))
    mg = MustFacts(g)
    sg = w.fns[GL]

    def root_local(op):
        """the named local an operand is a clone / reference / copy of"""
        if op[0] == "k":
            return None
        l = op[1][0]
        for _ in range(10):
            if g.name(l):
                return l
            d = g.def_of(l)
            if not d:
                return None
            if d[0] == "c":
                t = g.blocks[d[1]]["t"]
                if t["args"] and t["args"][0][0] != "k" and flow.TRANSPARENT.search(t.get("callee") or ""):
                    l = t["args"][0][1][0]
                    continue
                return None
            rv = g.rvalue_at(d)
            if rv[0] in ("ref", "ptr"):
                if rv[2][1] and [q for q in rv[2][1] if q != "*"]:
                    return ("proj", rv[2][0], tuple(str(q) for q in rv[2][1]))
                l = rv[2][0]
            elif rv[0] == "use" and rv[1][0] != "k":
                if rv[1][1][1] and [q for q in rv[1][1][1] if q != "*"]:
                    return ("proj", rv[1][1][0], tuple(str(q) for q in rv[1][1][1]))
                l = rv[1][1][0]
            else:
                return None
        return None
    inserts = [(bi, t) for bi, t in g.calls(r"hash::set::HashSet::<T, S, A>::insert$") if (g.name(_rl(g, t["args"][0])) or "") == "name_table"]
    ck.floor("R4", "name_table.insert calls in gen_locks", len(inserts), 1)
    lock_aggs = []
    for bi, b in enumerate(g.blocks):
        if b.get("cu"):
            continue
        for si, st in enumerate(b["s"]):
            if st[0] == "=" and st[2][0] == "agg" and isinstance(st[2][1], dict) and (st[2][1].get("adt") or "").endswith("lockfile::Lock"):
                lock_aggs.append((bi, si, st))
    ck.floor("R4", "Lock constructions in gen_locks", len(lock_aggs), 1)
    fl = [x["name"] for x in w.adts[LF + "Lock"]["variants"][0]["fields"]] if LF + "Lock" in w.adts else []
    for bi, si, st in lock_aggs:
        ops = dict(zip(fl, st[2][2]))
        nm_root = root_local(ops["name"]) if "name" in ops else None
        ins_roots = [root_local(t["args"][1]) for _, t in inserts]
        same = nm_root is not None and nm_root in ins_roots
        ck.ob("R4", "reserved-name-is-lock-name", same, site(sg, st[3]),
              "the name reserved in name_table is the name given to the Lock (same local `%s`)" % (g.name(nm_root) if isinstance(nm_root, int) else nm_root) if same else
              "name_table reserves %s but the Lock is named from %s: a suffixed name is never reserved, so a third project with the same declared name "
              "gets the same suffix" % ([g.name(r) if isinstance(r, int) else r for r in ins_roots], g.name(nm_root) if isinstance(nm_root, int) else nm_root))
        F = mg.at_entry(bi) or ()
        ck.ob("R4", "name-reserved-before-lock", any(("calledbb", ib) in F for ib, _ in inserts), site(sg, st[3]), "the name is reserved on every path before the Lock is built")
        # every value the name can take is reserved: from each definition of the name there is no path to the Lock that avoids
        # name_table.insert (a suffixed name chosen after the reservation is not in the table: the next same-named project gets it again)
        if isinstance(nm_root, int):
            ins_blocks = [ib for ib, t in inserts if root_local(t["args"][1]) == nm_root]
            for k, d in enumerate(sorted(g.defs.get(nm_root, []), key=lambda d: (d[1], d[2] if d[0] == "s" else 10 ** 6))):
                start = d[1] if d[0] == "s" else g.blocks[d[1]]["t"].get("to")
                if start is None:
                    continue
                if d[0] == "s" and d[1] in ins_blocks:
                    esc = []
                else:
                    esc = flow.escapes(g, start, ins_blocks, stops=[bi])
                line = g.blocks[d[1]]["s"][d[2]][3] if d[0] == "s" else g.blocks[d[1]]["t"]["l"]
                ck.ob("R4", "every-name-reserved@%d" % (k + 1), bi not in esc, site(sg, line),
                      "the name assigned here is inserted into name_table on every path to the Lock" if bi not in esc else
                      "the name assigned here reaches the Lock without being inserted into name_table: a suffixed name that is never reserved "
                      "is handed out again to the next project with the same declared name, and two dependencies share one output directory")
    # ---------------- R5 resolution sees the lock table as loaded ------------------------------------------------------
    callers = sorted(p for p, sm in w.fns.items() if p.startswith(LF) and not sm.get("alias_of") and p != GL and any(c["c"] == GL for c in sm["calls"]))
    ck.floor("R5", "callers of gen_locks", len(callers), 2)
    MUTL = r"HashMap::<K, V, S, A>::(clear|insert|remove|drain|retain|entry)$|^core::mem::(take|replace|swap)$"
    for p in callers:
        sm = w.fns[p]
        f = Fn(w.mir(p))
        gls = f.calls("^" + re.escape(GL) + "$")
        muts = []
        for bi, t in f.calls(MUTL):
            r, pth = flow.access_path(f, t["args"][0])
            if pth[-1:] == ("lock_table",) and r[0] == "arg":
                muts.append((bi, t))
        for bi, b in enumerate(f.blocks):
            if b.get("cu"):
                continue
            for st in b["s"]:
                if st[0] == "=" and [q for q in st[1][1] if isinstance(q, list) and q[0] == "f"][-1:] and [q for q in st[1][1] if isinstance(q, list) and q[0] == "f"][-1][2] == "lock_table" and 1 <= st[1][0] <= f.nargs:
                    muts.append((bi, {"l": st[3], "callee": "assignment", "to": None}))
        early = []
        for gb, gt in gls:
            for mb, mt in muts:
                if mb != gb and f.reaches(mb, gb):
                    early.append((mt.get("callee", "?").split("::")[-1], mt["l"]))
        ck.ob("R5", "lock-table-intact-before-resolution:%s" % p.split("::")[-1], not early, site(sm, gls[0][1]["l"] if gls else None),
              "self.lock_table is not modified before gen_locks consults it" if not early else
              "self.lock_table is modified (%s) before gen_locks runs: resolve_version_from_lockfile then finds no locked release and every "
              "dependency jumps to its latest matching release" % early[:2])
    _table_sorted_after_fill(ck, w)
    _lock_identity(ck, w)
    return ck.finish(info)


def _table_sorted_after_fill(ck, w):
    import flow
    """R6: resolve_version_from_lockfile returns the first lock of a url's list that matches, so "the best version" relies on every list
    being sorted from the highest release down. Every function that adds locks to self.lock_table (HashMap::entry / insert with the
    table as receiver) must call Lockfile::sort_table on every path from the insertion to its return, and sort_table's comparator is
    cmp(b.source, a.source)."""
    ST = LF + "Lockfile::sort_table"
    ADD = re.compile(r"hash::map::HashMap::<K, V, S(, A)?>::(entry|insert|extend)$")
    n = 0
    for p, x in sorted(w.fns.items()):
        if not p.startswith(LF + "Lockfile::") or "{" in p[len(LF):] or x.get("alias_of") or p == ST:
            continue
        if not any(c["c"] and ADD.search(c["c"]) for c in x["calls"]):
            continue
        g = Fn(w.mir(p))
        adds = []
        for bi, t in g.calls():
            if not ADD.search(t.get("callee") or "") or not t["args"]:
                continue
            r, pth = flow.access_path(g, t["args"][0])
            if "lock_table" in pth:
                adds.append((bi, t))
        if not adds:
            continue
        n += 1
        gates = [bi for bi, t in g.calls("^" + re.escape(ST) + "$")]
        bad = []
        for bi, t in adds:
            nxt = t.get("to")
            if nxt is not None and flow.escapes(g, nxt, gates):
                bad.append(t["l"])
        short = p.split("::")[-1]
        ck.ob("R6", "sorted-after-fill:" + short, not bad, site(x, bad[0] if bad else None),
              "every path from an insertion into lock_table to the return of %s passes through sort_table" % short if not bad else
              "%s adds locks to lock_table (line %s) and can return without sort_table: resolve_version_from_lockfile takes the first "
              "matching lock of a list, which is then not the highest locked release" % (short, sorted(set(bad))))
    ck.floor("R6", "functions that fill lock_table", n, 3)
    if ST not in w.fns:
        ck.missing("R6", ST)
        return
    sm = w.fns[ST]
    desc = None
    for c in sm.get("closures", []):
        if c not in w.fns:
            continue
        cf = Fn(w.mir(c))
        if cf.nargs == 3 and cf.ty(0) == "core::cmp::Ordering":
            cmps = cf.calls(r"as core::cmp::Ord>::cmp$|as core::cmp::PartialOrd>::partial_cmp$")
            rev = cf.calls(r"Ordering::reverse$")
            if len(cmps) != 1:
                continue
            _, ct = cmps[0]
            p0 = cf.prov(ct["args"][0], depth=8)
            p1 = cf.prov(ct["args"][1], depth=8)

            def from_arg(pv, k):
                return any(y[0] == "arg" and y[1] == k and any(q[0] == "f" and q[1] == "source" for q in y[2]) for y in pv)
            b_first = from_arg(p0, 3) and from_arg(p1, 2)
            a_first = from_arg(p0, 2) and from_arg(p1, 3)
            if b_first or a_first:
                desc = (b_first and not rev) or (a_first and bool(rev))
    ck.ob("R6", "sort_table/descending", desc, site(sm),
          "sort_table orders every list by cmp(b.source, a.source): highest release first" if desc else
          ("sort_table's comparator is ascending: the first matching lock is the lowest locked release" if desc is False else "sort_table's comparator not recognised"))



def _rl(g, op):
    if op[0] == "k":
        return 0
    l = op[1][0]
    for _ in range(8):
        if g.name(l):
            return l
        d = g.def_of(l)
        if not d or d[0] != "s":
            return l
        rv = g.rvalue_at(d)
        if rv[0] in ("ref", "ptr"):
            l = rv[2][0]
        elif rv[0] == "use" and rv[1][0] != "k":
            l = rv[1][1][0]
        else:
            return l
    return l


def _lock_identity(ck, w):
    """R7: two locks are the same dependency only if url, path, revision and the property overrides agree; gen_locks and the lock table
    tell locks apart by Lock::uuid(). Every value Lock::uuid returns must be the result of Lockfile::gen_uuid called with the lock's own
    `properties` (a stored uuid that was computed without them makes two differently configured uses of one release one lock)."""
    import flow
    P = LF + "Lock::uuid"
    GU = LF + "Lockfile::gen_uuid"
    if P not in w.fns:
        ck.missing("R7", P)
        return
    sm = w.fns[P]
    g = Fn(w.mir(P))
    gens = g.calls("^" + re.escape(GU) + "$")
    n = 0
    for bi, t in gens:
        n += 1
        paths = [flow.access_path(g, a) for a in t["args"]]
        ok = len(paths) >= 4 and paths[3][0] == ("arg", 1) and paths[3][1] == ("properties",)
        ck.ob("R7", "uuid/with-own-properties@%d" % n, ok, site(sm, t["l"]),
              "gen_uuid receives self.properties" if ok else "gen_uuid is called without the lock's own properties (%s)" % (paths[3:4],))
    # every definition of the return place is a gen_uuid result
    other = []
    for bi, b in enumerate(g.blocks):
        if b.get("cu"):
            continue
        for st in b["s"]:
            if st[0] == "=" and st[1][0] == 0:
                other.append(st[3])
        t = b["t"]
        if t["t"] == "call" and t.get("dst") and t["dst"][0] == 0 and (t.get("callee") or "") != GU:
            other.append(t.get("l"))
    ck.ob("R7", "uuid/only-computed", not other and bool(gens), site(sm, other[0] if other else None),
          "every uuid returned is computed by gen_uuid from url, path, revision and properties" if not other and gens else
          "Lock::uuid returns a value that is not computed by gen_uuid here (line %s): a stored uuid does not cover the property overrides, so two "
          "locks of one release with different properties get the same identity" % other)
    ck.floor("R7", "gen_uuid calls in Lock::uuid", n, 2)
