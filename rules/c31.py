"""C31 - dependency resolution is deterministic and picks the best version.

Decided here (DESIGN.md section 3 C31, section 8): the determinism sources of veryl_metadata::lockfile and the decision
*structure* of version resolution (lock first, highest matching release first). Not decided: "best version" over all
release histories, save/reload equality.
"""
import re
from core import Check, site
from mirlib import Fn, MustFacts, Sem
from c29 import expr_mentions, mentions_call, mentions_field
import c24

RULE = (
    "R1 (determinism sources) no function of veryl_metadata::lockfile calls a time, random, process-id or Uuid::new_v4 "
    "source (ids come from Uuid::new_v5 of deterministic strings), and every iteration over a RandomState HashMap/HashSet "
    "in those functions is order-insensitive, sorted before use, or a triaged entry of C24's table (same classifier). "
    "R2 (lock first) in Lockfile::resolve_version every call of resolve_version_from_latest carries the must-fact "
    "`resolve_version_from_lockfile(..) is None` or `self.force_update`; in resolve_version_from_lockfile the Some(..) "
    "return carries the must-facts `x.project == project` and `version_req.matches(&x.version)`. R3 (highest first) in "
    "resolve_version_from_latest a slice sort_by on pubfile.releases has returned on every path to the first-match loop, "
    "its comparator closure is Ord::cmp(&b.version, &a.version) (descending), the Ok(..) return carries the must-fact "
    "version_req.matches(&release.version) and the loop iterates the sorted pubfile.releases."
)

CRATES = ["veryl_metadata", "veryl_path"]

LF = "veryl_metadata::lockfile::"
RV = LF + "Lockfile::resolve_version"
RVL = LF + "Lockfile::resolve_version_from_lockfile"
RVT = LF + "Lockfile::resolve_version_from_latest"
NONDET = re.compile(r"^uuid::.*::new_v4$|^uuid::.*::now_v\d$|^uuid::.*::new_v[167]$|^std::time::(SystemTime|Instant)::now$|^rand::|^rand_core::|^getrandom::|^std::process::id$"
                    r"|^std::thread::current$|^fastrand::|RandomState::new$")


def run(world, tier, info, only=None):
    ck = Check("C31", tier, "other", RULE, only)
    w = world
    for p in (RV, RVL, RVT, LF + "Lockfile::gen_locks", LF + "Lockfile::gen_uuid"):
        if p not in w.fns:
            ck.missing("anchors", p)
    if any(p not in w.fns for p in (RV, RVL, RVT)):
        return ck.finish(info)
    ck.assume("semver::Version's Ord is the semver precedence order; VersionReq::matches is the semver requirement test")
    ck.assume("git fetch/checkout of the resolve/ clone yields the same Veryl.pub for the same remote state (outside the tool)")
    lf_fns = sorted(p for p, s in w.fns.items() if p.startswith(LF) and not s.get("derived") and not s.get("alias_of"))
    ck.floor("R1", "functions of veryl_metadata::lockfile", len(lf_fns), 30)
    # ---------------- R1 ------------------------------------------------------------------------------
    n_v5 = 0
    for p in lf_fns:
        for c in w.fns[p]["calls"]:
            cal = c["c"] or ""
            if re.search(r"^uuid::.*::new_v5$", cal):
                n_v5 += 1
            if NONDET.search(cal):
                ck.ob("R1", "nondeterministic-source:%s/%s" % (p, cal), False, site(w.fns[p], c["l"]),
                      "%s is a run-dependent value source inside dependency resolution" % cal)
    ck.floor("R1", "Uuid::new_v5 call sites (positive example of the source matcher)", n_v5, 1)
    ck.ob("R1", "no-nondeterministic-source", True, "", "scanned %d functions for time/random/pid/new_v4 sources" % len(lf_fns))
    n_sites = 0
    for p in lf_fns:
        s = w.fns[p]
        if not any(c24.ITER.search(c["c"] or "") for c in s["calls"]):
            continue
        fn = Fn(w.mir(p))
        seen = {}
        for bi, t in fn.calls():
            if not c24.ITER.search(t.get("callee") or ""):
                continue
            a = t["args"][0]
            ty = fn.ty(a[1][0]) if a[0] in ("c", "m") else "?"
            if "Fx" in ty or "BuildHasherDefault" in ty:
                continue
            n_sites += 1
            owner = p
            while owner in w.fns and w.fns[owner]["kind"] == "closure" and w.fns[owner].get("parent"):
                owner = w.fns[owner]["parent"]
            method = (t["callee"] or "").split("::")[-1]
            kind, why = c24.classify(fn, bi, t)
            names = c24.receiver_name(fn, t)
            base = "%s/%s(%s)" % (p, method, ",".join(sorted(names)))
            n = seen.get(base, 0)
            seen[base] = n + 1
            key = base if n == 0 else "%s#%d" % (base, n + 1)
            ok = kind in ("insensitive", "sorted")
            detail = "order-%s: %s" % (kind, why)
            if not ok:
                tri = None
                for nm in list(names) + ["*"]:
                    tri = c24.TRIAGE.get((owner, method, nm))
                    if tri:
                        break
                if tri and tri[0] == "benign":
                    ok, detail = True, "order-sensitive in form (%s); triaged benign: %s" % (why, tri[1])
                elif tri and tri[0] == "sorted-before":
                    sorts = {b for b, _ in fn.calls(tri[1])}
                    sinks = [b for b, _ in fn.calls(tri[2])]
                    ok = bool(sorts) and bool(sinks) and not any(fn.reaches(t["to"], sb, avoid=sorts) for sb in sinks)
                    detail = "order-sensitive (%s); %s; sort separates it from %s: %s" % (why, tri[3], tri[2], ok)
                elif tri and tri[0] == "undecided":
                    ok, detail = None, "order-sensitive (%s); %s" % (why, tri[1])
                else:
                    detail = "order-sensitive (%s): dependency resolution takes an order from a RandomState table" % why
            ck.ob("R1", "site:" + key, ok, site(s, t["l"]), detail)
    ck.floor("R1", "RandomState iteration sites in veryl_metadata::lockfile", n_sites, 6)

    # ---------------- R2 ------------------------------------------------------------------------------
    f = Fn(w.mir(RV))
    mf = MustFacts(f)
    sem = Sem(f, depth=16)
    latest = f.calls("^" + re.escape(RVT) + "$")
    ck.floor("R2", "resolve_version_from_latest calls in resolve_version", len(latest), 1)
    for i, (bi, t) in enumerate(sorted(latest, key=lambda x: (x[1]["l"], x[0]))):
        F = sem.facts(mf.at_entry(bi))
        none = any(x[0] == "isvariant" and x[2] == "None" and mentions_call(x[1], "^" + re.escape(RVL) + "$") for x in F)
        force = any(x[0] == "flag" and x[2] is True and mentions_field(x[1], LF + "Lockfile", "force_update") for x in F)
        ck.ob("R2", "latest-only-if-unlocked-or-forced@%d" % (i + 1), none or force, site(w.fns[RV], t["l"]),
              "resolve_version_from_latest is called only where the lockfile has no matching lock (%s) or force_update is set (%s)" % (none, force))
    g = Fn(w.mir(RVL))
    mg = MustFacts(g)
    sg = Sem(g, depth=16)
    n_some = 0
    for bi, b in enumerate(g.blocks):
        if b.get("cu"):
            continue
        for si, st in enumerate(b["s"]):
            if st[0] == "=" and st[2][0] == "agg" and isinstance(st[2][1], dict) and st[2][1].get("adt") == "core::option::Option" \
                    and st[2][1].get("variant") == "Some":
                S = mg.state_at(bi, si)
                if S is None:
                    continue
                n_some += 1
                F = sg.facts(S[0])
                m = any(x[0] == "call" and re.search(r"VersionReq::matches$", x[1] or "") and x[2] is True for x in F)
                pj = any(x[0] == "call" and re.search(r"PartialEq.*::eq$", x[1] or "") and x[2] is True and
                         any(expr_mentions(a, lambda y: isinstance(y, tuple) and len(y) == 3 and y[0] == "proj" and any(q[0] == "f" and q[1] == "project" for q in y[2])) for a in x[3])
                         for x in F)
                ck.ob("R2", "locked-release:matches@%d" % n_some, m, site(w.fns[RVL], st[3]), "a locked release is reused only where version_req.matches(&x.version)")
                ck.ob("R2", "locked-release:same-project@%d" % n_some, pj, site(w.fns[RVL], st[3]), "a locked release is reused only where x.project == project")
    ck.floor("R2", "Some(..) constructions in resolve_version_from_lockfile", n_some, 1)

    # ---------------- R3 ------------------------------------------------------------------------------
    h = Fn(w.mir(RVT))
    mh = MustFacts(h)
    sh = Sem(h, depth=16)
    sorts = h.calls(r"slice::<impl \[T\]>::sort_by$")
    ck.floor("R3", "sort_by calls in resolve_version_from_latest", len(sorts), 1)
    desc = False
    for bi, t in sorts:
        pv = h.prov(t["args"][0], depth=10)
        on_releases = any(x[0] == "field" and x[1] == "releases" for x in pv)
        cl = None
        for c in w.fns[RVT].get("closures", []):
            if c in w.fns:
                cf = Fn(w.mir(c))
                if cf.nargs == 3 and cf.ty(0) == "core::cmp::Ordering":
                    cl = (c, cf)
        ck.ob("R3", "sort-on-releases", on_releases, site(w.fns[RVT], t["l"]), "the sort is applied to pubfile.releases")
        if cl is None:
            ck.ob("R3", "comparator-found", None, site(w.fns[RVT], t["l"]), "comparator closure not recognised")
            continue
        c, cf = cl
        cmps = cf.calls(r"as core::cmp::Ord>::cmp$|as core::cmp::PartialOrd>::partial_cmp$")
        rev = cf.calls(r"Ordering::reverse$")
        if len(cmps) != 1 or len(cf.calls()) - len(rev) != 1:
            ck.ob("R3", "comparator-descending", None, site(w.fns[c]), "comparator is not a single cmp call: idiom not recognised")
            continue
        _, ct = cmps[0]
        p0 = cf.prov(ct["args"][0], depth=8)
        p1 = cf.prov(ct["args"][1], depth=8)

        def from_arg(pv, n):
            return any(x[0] == "arg" and x[1] == n and any(q[0] == "f" and q[1] == "version" for q in x[2]) for x in pv)
        b_first = from_arg(p0, 3) and from_arg(p1, 2)
        a_first = from_arg(p0, 2) and from_arg(p1, 3)
        desc = (b_first and not rev) or (a_first and bool(rev))
        ck.ob("R3", "comparator-descending", desc if (b_first or a_first) else None, site(w.fns[c]),
              "comparator is %s: releases are tried from the highest version down" % ("b.version.cmp(&a.version)" if b_first else "a.version.cmp(&b.version)" + (".reverse()" if rev else " (ascending!)")))
    matches = h.calls(r"VersionReq::matches$")
    ck.floor("R3", "VersionReq::matches calls in resolve_version_from_latest", len(matches), 1)
    for bi, t in matches:
        F = mh.at_entry(bi) or frozenset()
        ck.ob("R3", "sorted-before-first-match", any(x[0] == "called" and re.search(r"slice::<impl \[T\]>::sort_by$", x[1]) for x in F),
              site(w.fns[RVT], t["l"]), "sort_by has returned on every path to the first-match test")
        pv = h.prov(t["args"][1], depth=14)
        ck.ob("R3", "loop-over-sorted-releases", any(x[0] == "field" and x[1] == "releases" for x in pv) and any(x[0] == "field" and x[1] == "version" for x in pv),
              site(w.fns[RVT], t["l"]), "the version tested is release.version of an element of pubfile.releases")
    n_ok = 0
    for bi, b in enumerate(h.blocks):
        if b.get("cu"):
            continue
        for si, st in enumerate(b["s"]):
            if st[0] == "=" and st[1][0] == 0 and st[2][0] == "agg" and isinstance(st[2][1], dict) and st[2][1].get("variant") == "Ok":
                S = mh.state_at(bi, si)
                if S is None:
                    continue
                n_ok += 1
                F = sh.facts(S[0])
                ck.ob("R3", "returned-release-matches@%d" % n_ok, any(x[0] == "call" and re.search(r"VersionReq::matches$", x[1] or "") and x[2] is True for x in F),
                      site(w.fns[RVT], st[3]), "Ok(release) is returned only where version_req.matches(&release.version)")
    ck.floor("R3", "Ok(..) returns in resolve_version_from_latest", n_ok, 1)
    ck.analysed = {"lockfile_functions": len(lf_fns), "hash_iteration_sites": n_sites, "functions_with_cfg": [RV, RVL, RVT]}
    return ck.finish(info)
