"""C20 - synthesized netlists are well-formed and reports match them (report coverage clause only).

Decided (DESIGN.md section 3 C20, 8.4s): the area report is the sum it claims to be - AreaReport.total is exactly
combinational + sequential + memory; combinational accumulates library.info(cell.kind).area for every cell of module.cells;
sequential is module.ffs.len() x library.ff_area(); memory is the bit count of every RAM block x sram_model().bit_area - and the
power and timing reports read every component list of the netlist. Not decided: single-driver / in-range / acyclic netlists, and
that the reported depth is the longest combinational path (properties of run-time values).
"""
import re
from core import Check, site
from mirlib import Fn
import flow

RULE = (
    "veryl_synthesizer::analysis. R1 in compute_area the AreaReport is built with total = combinational + sequential + memory (the three "
    "operands of the sum are the values stored in those three fields, each once, nothing else added or scaled); combinational is an "
    "accumulator updated on every iteration of a loop over module.cells (no adapter that skips cells) by the `area` of "
    "library.info(<that cell>.kind); sequential is module.ffs.len() * library.ff_area(); memory is the sum over module.ram_blocks of bits() "
    "times library.sram_model().bit_area. R2 compute_power's leakage and dynamic totals depend on module.cells (info.leakage / "
    "info.internal_energy), module.ffs (ff_leakage / ff_internal_energy) and module.ram_blocks (bit_leakage, read / write energy). R3 every "
    "component list of GateModule (cells, ffs, ram_blocks; ports and nets are wiring) is read by compute_area, compute_power and "
    "compute_timing; a new Vec field of GateModule is reported undecided until it is classified. R4 (one necessary condition of 'only "
    "driven nets are referenced') a synthesizer function that rewrites net references in both module.ffs and module.ports - a module-wide "
    "rename - also rewrites the RAM ports (for_each_ram_input_net_mut or module.ram_blocks)."
)

CRATES = ["veryl_synthesizer"]
A = "veryl_synthesizer::analysis::"
GM = "veryl_synthesizer::ir::GateModule"
COMPONENTS = {"cells", "ffs", "ram_blocks"}
WIRING = {"ports": "interface of the module, no area", "nets": "wires, no area in this model", "name": "not a list"}


def _mentions(tree, pred):
    if isinstance(tree, tuple):
        try:
            if tree and pred(tree):
                return True
        except (IndexError, TypeError):
            pass
        return any(_mentions(x, pred) for x in tree)
    return False


def _sum_leaves(tree):
    """leaves of a tree of Add nodes"""
    if isinstance(tree, tuple) and tree and tree[0] == "bin" and tree[1] == "Add":
        return _sum_leaves(tree[2]) + _sum_leaves(tree[3])
    return [tree]


def _module_field(tree, fld):
    return _mentions(tree, lambda t: t[0] == "f" and len(t) > 2 and t[1] == fld and (t[2] or "").endswith("GateModule"))


def run(world, tier, info, only=None):
    ck = Check("C20", tier, "other", RULE, only)
    w = world
    for p in (A + "compute_area", A + "compute_power", A + "compute_timing"):
        if p not in w.fns:
            ck.missing("anchors", p)
    if GM not in w.adts or A + "AreaReport" not in w.adts:
        ck.missing("anchors", GM)
    if any(o["verdict"] == "violation" for o in ck.obs):
        return ck.finish(info)
    ck.assume("CellLibrary::info / ff_area / sram_model return the library's figures for the kind asked (library data is not checked)")
    # ---------------- R1 compute_area ------------------------------------------------------------------------------
    p = A + "compute_area"
    s = w.fns[p]
    g = Fn(w.mir(p))
    flds = [x["name"] for x in w.adts[A + "AreaReport"]["variants"][0]["fields"]]
    aggs = [(bi, st) for bi, b in enumerate(g.blocks) if not b.get("cu") for st in b["s"]
            if st[0] == "=" and st[2][0] == "agg" and isinstance(st[2][1], dict) and (st[2][1].get("adt") or "") == A + "AreaReport"]
    ck.ob("R1", "area/report-built-once", len(aggs) == 1, site(s), "compute_area builds one AreaReport (found %d)" % len(aggs))
    if len(aggs) == 1:
        bi, st = aggs[0]
        tr = {f: g.describe(o, 7) for f, o in zip(flds, st[2][2])}
        import c27
        ops = dict(zip(flds, st[2][2]))

        def summands(op, depth=0):
            """root locals of the leaves of the Add tree that defines op"""
            if op[0] == "k" or depth > 6:
                return [("const",)]
            l = op[1][0]
            if g.name(l):
                return [("local", l)]
            d = g.def_of(l)
            if d and d[0] == "s":
                rv = g.rvalue_at(d)
                if rv[0] == "bin" and rv[1] in ("Add", "AddWithOverflow"):
                    return summands(rv[2], depth + 1) + summands(rv[3], depth + 1)
                if rv[0] == "use":
                    return summands(rv[1], depth + 1)
                return [("other", rv[0], rv[1] if rv[0] == "bin" else None)]
            return [("local", l)]
        leaves = sorted(summands(ops["total"])) if "total" in ops else []
        want = sorted(("local", c27.root_local(g, ops[k])) for k in ("combinational", "sequential", "memory") if k in ops)
        ok = leaves == want and len(want) == 3
        ck.ob("R1", "area/total-is-the-sum-of-its-parts", ok, site(s, st[3]),
              "total = combinational + sequential + memory (the same three values, each once)" if ok else
              "AreaReport.total is not exactly the sum of the three parts the report shows (summands %s, parts %s)" % (
                  [g.name(x[1]) if x[0] == "local" else x for x in leaves], [g.name(x[1]) for x in want]))
        comb = tr.get("combinational")
        okc = _mentions(comb, lambda t: t[0] == "call" and (t[1] or "").endswith("CellLibrary::info")) and _mentions(comb, lambda t: t[0] == "f" and t[1] == "area")
        ck.ob("R1", "area/combinational-from-cell-area", okc, site(s, st[3]), "combinational accumulates library.info(..).area")
        seq = tr.get("sequential")
        oks = isinstance(seq, tuple) and seq[0] == "bin" and seq[1] == "Mul" and _module_field(seq, "ffs") and \
            _mentions(seq, lambda t: t[0] == "call" and (t[1] or "").endswith("Vec::<T, A>::len")) and _mentions(seq, lambda t: t[0] == "call" and (t[1] or "").endswith("CellLibrary::ff_area"))
        ck.ob("R1", "area/sequential-is-ff-count-times-ff-area", oks, site(s, st[3]), "sequential = module.ffs.len() * library.ff_area()")
        mem = tr.get("memory")
        okm = isinstance(mem, tuple) and mem[0] == "bin" and mem[1] == "Mul" and _mentions(mem, lambda t: t[0] == "call" and (t[1] or "").endswith("Iterator::sum")) and \
            _mentions(mem, lambda t: t[0] == "f" and t[1] == "bit_area") and _mentions(mem, lambda t: t[0] == "call" and (t[1] or "").endswith("CellLibrary::sram_model"))
        rb = any(flow.access_path(g, t["args"][0])[1][-1:] == ("ram_blocks",) for b2, t in g.calls(r"Iterator::map$|::iter$"))
        cl = [q for q in w.fns if q.startswith(p + "::{closure") and any((c["c"] or "").endswith("RamBlock::bits") for c in w.fns[q]["calls"])]
        ck.ob("R1", "area/memory-is-ram-bits-times-bit-area", okm and rb and bool(cl), site(s, st[3]),
              "memory = sum over module.ram_blocks of bits() * sram_model().bit_area")
    ADP = re.compile(r"Iterator::(rev|skip|take|step_by|filter|skip_while|take_while|enumerate|peekable|chain|zip)$")
    lp = [(h, t, some) for h, t, some, none, item in flow.loops_over(g) if flow.access_path(g, t["args"][0], extra_transparent=ADP) == (("arg", 1), ("cells",))]
    if len(lp) != 1:
        # the iterator form: module.cells.iter().map(|c| library.info(c.kind).area).sum()
        its = [(bi, t) for bi, t in g.calls(r"Iterator::(sum|fold)$") if any(flow.access_path(g, a, extra_transparent=re.compile(r"Iterator::(map|copied|cloned)$|::iter$"))[1][-1:] == ("cells",) for a in t["args"])]
        ad = []
        for bi, t in its:
            flow.access_path(g, t["args"][0], extra_transparent=re.compile(r"Iterator::(map|copied|cloned)$|::iter$"), adapters=ad)
        cl = [q for q in w.fns if q.startswith(p + "::{closure") and any((c["c"] or "").endswith("CellLibrary::info") for c in w.fns[q]["calls"])]
        skipping = [a for a in ad if re.search(r"skip|take|filter|step_by", a)]
        if its and cl and not skipping:
            ck.ob("R1", "area/every-cell", True, site(s), "module.cells is summed through an iterator chain without a skipping adapter")
        elif skipping or (lp and len(lp) > 1):
            ck.ob("R1", "area/loop-over-cells", False, site(s), "the walk over module.cells skips elements (%s) or is repeated (%d loops)" % (skipping, len(lp)))
        else:
            ck.ob("R1", "area/loop-over-cells", None, site(s), "no loop and no recognised iterator sum over module.cells: cannot tell how the cells are accumulated")
    else:
        h, t, some = lp[0]
        ad = []
        flow.access_path(g, t["args"][0], extra_transparent=ADP, adapters=ad)
        ad = [a for a in ad if re.search(r"skip|take|filter|step_by|chain|zip", a)]
        ck.ob("R1", "area/every-cell", not ad, site(s, t["l"]), "the loop visits every cell (adapters %s)" % ad)
        acc = [l for l in range(len(g.locals)) if g.ty(l) == "f64" and any(d[0] == "s" and d[1] in g.reach_from(some, avoid=[h]) for d in g.defs.get(l, []))
               and any(d[0] == "s" and d[1] not in g.reach_from(some, avoid=[h]) for d in g.defs.get(l, []))]
        upd = [d[1] for l in acc for d in g.defs.get(l, []) if d[0] == "s" and d[1] in g.reach_from(some, avoid=[h])]
        infos = [bi for bi, tt in g.calls(r"CellLibrary::info$") if bi in g.reach_from(some, avoid=[h]) and
                 flow.access_path(g, tt["args"][1])[0][:1] == ("call",) and flow.access_path(g, tt["args"][1])[1][-1:] == ("kind",)]
        esc = flow.escapes(g, some, upd, stops=[h]) if upd else [h]
        ck.ob("R1", "area/every-iteration-adds", bool(upd) and bool(infos) and not esc, site(s, t["l"]),
              "every iteration looks up the cell's own kind and adds to the accumulator (no path skips the update)")
    # ---------------- R2 compute_power ------------------------------------------------------------------------------
    p = A + "compute_power"
    s = w.fns[p]
    g = Fn(w.mir(p))
    pf = [x["name"] for x in w.adts[A + "PowerReport"]["variants"][0]["fields"]] if A + "PowerReport" in w.adts else []
    aggs = [(bi, st) for bi, b in enumerate(g.blocks) if not b.get("cu") for st in b["s"]
            if st[0] == "=" and st[2][0] == "agg" and isinstance(st[2][1], dict) and (st[2][1].get("adt") or "") == A + "PowerReport"]
    if len(aggs) == 1 and pf:
        bi, st = aggs[0]
        ops = dict(zip(pf, st[2][2]))
        need = {"leakage_mw": ["CellLibrary::info", "CellLibrary::ff_leakage", "CellLibrary::sram_model"],
                "dynamic_mw": ["CellLibrary::info", "CellLibrary::ff_internal_energy", "CellLibrary::sram_model"]}
        for fld, calls in need.items():
            if fld not in ops:
                ck.missing("R2", "PowerReport." + fld)
                continue
            pv = g.prov(ops[fld], depth=24)
            got = {x[1] for x in pv if x[0] == "call"}
            miss = [c for c in calls if not any((y or "").endswith(c) for y in got)]
            ck.ob("R2", "power/%s-covers-cells-ffs-rams" % fld, not miss, site(s, st[3]),
                  "%s depends on the cell, flip-flop and RAM figures of the library" % fld if not miss else
                  "%s does not depend on %s: a whole class of components contributes nothing to the reported power" % (fld, miss))
    else:
        ck.ob("R2", "power/report-built-once", False, site(s), "compute_power builds one PowerReport (found %d)" % len(aggs))
    # ---------------- R3 component lists ------------------------------------------------------------------------------
    vecs = [f["name"] for f in w.adts[GM]["variants"][0]["fields"] if (f.get("ty") or "").startswith("alloc::vec::Vec<")]
    for f in vecs:
        if f not in COMPONENTS and f not in WIRING:
            ck.ob("R3", "component-list-classified:" + f, None, site(w.fns[A + "compute_area"]),
                  "GateModule.%s is a new list: is it a component with area / power / delay? not classified" % f)
    for fn in ("compute_area", "compute_power", "compute_timing"):
        p = A + fn
        reach = [p] + [q for q in w.fns if q.startswith(p + "::{closure")]
        # helpers called with the module
        for c in w.fns[p]["calls"]:
            if (c["c"] or "").startswith("veryl_synthesizer::analysis::") and c["c"] in w.fns:
                reach.append(c["c"])
                reach += [q for q in w.fns if q.startswith(c["c"] + "::{closure")]
        read = set()
        for q in reach:
            for a, f in [tuple(x) for x in (w.fns[q].get("fr") or [])]:
                if a == GM:
                    read.add(f)
        for f in sorted(COMPONENTS):
            ck.ob("R3", "%s-reads-%s" % (fn, f), f in read, site(w.fns[p]),
                  "%s reads module.%s" % (fn, f) if f in read else "%s never looks at module.%s: those components are missing from the report" % (fn, f))
    # ---------------- R4 a module-wide net rename reaches every consumer list ------------------------------------------------------
    n4 = 0
    for p, sm in sorted(w.fns.items()):
        if sm.get("alias_of") or "::tests::" in p or not p.startswith("veryl_synthesizer::"):
            continue
        mut = {f for key in ("fw", "fm") for a, f in [tuple(x) for x in (sm.get(key) or [])] if a == GM}
        if not {"ffs", "ports"} <= mut:
            continue
        n4 += 1
        sub = [p] + [q for q in w.fns if q.startswith(p + "::{closure")]
        rams = any((c["c"] or "").endswith("GateModule::for_each_ram_input_net_mut") for q in sub for c in w.fns[q]["calls"]) or "ram_blocks" in mut
        ck.ob("R4", "net-rename-covers-ram-ports:" + p.split("::")[-1], rams, site(sm),
              "%s rewrites the nets of flip-flops and ports and also those of the RAM ports" % p.split("::")[-1] if rams else
              "%s rewrites net references in module.ffs and module.ports (a module-wide rename) but never touches the RAM ports: a RAM input that used a "
              "renamed net keeps reading the old, now undriven net" % p.split("::")[-1])
    ck.floor("R4", "module-wide net renaming passes", n4, 2)
    ck.analysed = {"functions": [A + "compute_area", A + "compute_power", A + "compute_timing"], "gate_module_lists": vecs}
    return ck.finish(info)
