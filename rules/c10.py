"""C10 - the parser terminates without crashing on every input (depth-cap guard and single entry only).

Decided (DESIGN.md section 3 C10, section 8): the mechanism the statement names exists on every parse entry of every
generated parser in the workspace. A weak but genuine necessary condition: without the cap, deeply nested input overflows
the native stack in the parser and again when the tree is dropped (shown for the migrator's parser, finding F17).
Not decided: termination and panic-freedom of the generated LL(k) parser and scanner on all inputs; span correctness.
"""
import re
from core import Check, site
from mirlib import Fn, MustFacts
import flow

RULE = (
    "R1 every function that drives a parol LLKParser (constructs LLKParser::new and calls LLKParser::parse_into) calls "
    "set_max_parsing_depth with an integer literal in 1..=4096 on every path before parse_into. R2 each generated parse entry "
    "(<crate>::generated::veryl_parser::parse) is called only from that crate's Parser::parse. R3 Parser::parse hands the parser the "
    "newline-terminated copy of the input: the buffer parsed derives from the String that received push('\\n') under "
    "!ends_with(\"\\n\"), not from the caller's `input`. R4 every panicking string slice (`&text[a..b]`) in hand-written code reachable from "
    "Parser::parse takes its bounds only from searches, regex matches and lengths of text (char boundaries), never from a parameter or another "
    "computed offset. R5 From<Location> for SourceSpan passes the scanner's start and len() through unchanged."
)

CRATES = ["veryl_parser", "veryl_migrator", "veryl_formatter", "veryl_analyzer", "veryl_emitter", "veryl", "veryl_ls.bin", "veryl_translator", "mdbook_veryl.bin", "veryl_tests"]


def _unsafe_bounds(g, tree, SAFE, seen, depth):
    """leaves of a slice-bound expression that are not char-boundary-safe offsets of a text"""
    if depth > 12 or not isinstance(tree, tuple) or not tree:
        return []
    k = tree[0]
    if k == "const" or k == "named" or k == "promoted":
        return []
    if k == "call":
        c = tree[1] or ""
        if re.search(r"Match.*::(start|end)$|<impl str>::(len)$|String::len$", c):
            return []
        if re.search(r"<impl str>::(find|rfind)$", c):
            return []
        if re.search(r"Option::<T>::(map_or|map|unwrap_or|unwrap|unwrap_or_default)$", c) and len(tree) > 2 and tree[2]:
            # the option's payload decides; the default and the adjusting closure (`|x| x + 1` after a one-byte pattern) are accepted
            return _unsafe_bounds(g, tree[2][0], SAFE, seen, depth + 1)
        return [c.split("::")[-1] + "()"]
    if k == "agg":
        out = []
        for x in tree[2]:
            out += _unsafe_bounds(g, x, SAFE, seen, depth + 1)
        return out
    if k == "phi":
        out = []
        for x in tree[1]:
            out += _unsafe_bounds(g, x, SAFE, seen, depth + 1)
        return out
    if k == "proj":
        return _unsafe_bounds(g, tree[1], SAFE, seen, depth + 1)
    if k in ("bin",):
        return _unsafe_bounds(g, tree[2], SAFE, seen, depth + 1) + _unsafe_bounds(g, tree[3], SAFE, seen, depth + 1)
    if k in ("cast", "un"):
        return _unsafe_bounds(g, tree[-1], SAFE, seen, depth + 1)
    if k == "local":
        l = tree[1]
        if l in seen:
            return []
        seen.add(l)
        if 1 <= l <= g.nargs:
            return ["parameter " + (g.name(l) or str(l))]
        out = []
        for d in g.defs.get(l, []):
            if d[0] == "s":
                rv = g.blocks[d[1]]["s"][d[2]][2]
                tmp = ["m", [l, []]]
                # describe the right-hand side of this particular definition
                out += _unsafe_bounds(g, g.describe_rvalue(rv, 8) if hasattr(g, "describe_rvalue") else _rv_tree(g, rv), SAFE, seen, depth + 1)
            else:
                t = g.blocks[d[1]]["t"]
                out += _unsafe_bounds(g, ("call", t.get("callee"), tuple(g.describe(a, 6) for a in t["args"])), SAFE, seen, depth + 1)
        return out
    if k == "arg":
        return ["parameter " + str(tree[2] if len(tree) > 2 else tree[1])]
    return []


def _rv_tree(g, rv):
    if rv[0] == "use":
        return g.describe(rv[1], 8)
    if rv[0] == "bin":
        return ("bin", rv[1], g.describe(rv[2], 8), g.describe(rv[3], 8))
    if rv[0] in ("cast",):
        return ("cast", g.describe(rv[2], 8))
    if rv[0] == "agg":
        return ("agg", rv[1], tuple(g.describe(o, 8) for o in rv[2]))
    if rv[0] in ("ref", "ptr"):
        return g.describe(["c", rv[2]], 8)
    return ("const", None)


def run(world, tier, info, only=None):
    ck = Check("C10", tier, "other", RULE, only)
    w = world
    drivers = []
    for p, s in sorted(w.fns.items()):
        if s.get("alias_of"):
            continue
        cs = [c["c"] or "" for c in s["calls"]]
        if any(c.endswith("LLKParser::<'t>::new") or re.search(r"LLKParser(::<.*>)?::new$", c) for c in cs) and any(re.search(r"LLKParser(::<.*>)?::parse_into$", c) for c in cs):
            drivers.append(p)
    ck.floor("R1", "functions driving a parol LLKParser", len(drivers), 2)
    ck.assume("parol_runtime's LLKParser returns an error once its production stack exceeds max_parsing_depth (parol_runtime 'Max parsing depth exceeded')")
    for p in drivers:
        s = w.fns[p]
        f = Fn(w.mir(p))
        mf = MustFacts(f)
        caps = f.calls(r"LLKParser(::<.*>)?::set_max_parsing_depth$")
        runs = f.calls(r"LLKParser(::<.*>)?::parse_into$")
        lit = None
        for bi, t in caps:
            a = t["args"][1]
            if a[0] == "k" and "int" in a[1]:
                lit = int(a[1]["int"])
        ok_lit = lit is not None and 1 <= lit <= 4096
        ck.ob("R1", "depth-cap-literal:%s" % _short(p), ok_lit, site(s, caps[0][1]["l"] if caps else None),
              "the production stack is capped at %s" % lit if ok_lit else
              ("no set_max_parsing_depth call: parol's default is unbounded, so deeply nested input overflows the native stack" if not caps else "cap is %s" % lit))
        for bi, t in runs:
            F = mf.at_entry(bi) or ()
            ok = any(("calledbb", cb) in F for cb, _ in caps)
            ck.ob("R1", "cap-before-parse:%s" % _short(p), ok, site(s, t["l"]), "the cap is set on every path before parse_into runs")
    # R2 single entry
    entries = [p for p in w.fns if re.search(r"::generated::veryl_parser::parse$", p)]
    ck.floor("R2", "generated parse entries", len(entries), 2)
    for e in sorted(entries):
        crate = e.split("::")[0]
        callers = sorted(p for p, s in w.fns.items() if not s.get("alias_of") and any(c["c"] == e for c in s["calls"]))
        want = "%s::parser::Parser::parse" % crate
        ck.ob("R2", "single-entry:%s" % crate, callers == [want], site(w.fns[e]), "%s is called only from %s (callers: %s)" % (e, want, callers))
    # R3 newline-terminated copy
    for pp in ("veryl_parser::parser::Parser::parse", "veryl_migrator::parser::Parser::parse"):
        if pp not in w.fns:
            ck.missing("R3", pp)
            continue
        s = w.fns[pp]
        f = Fn(w.mir(pp))
        calls = f.calls(r"::generated::veryl_parser::parse$")
        pushes = f.calls(r"^alloc::string::String::push$")
        nl = [(bi, t) for bi, t in pushes if t["args"][1][0] == "k" and str(t["args"][1][1].get("int")) == "10"]
        ck.ob("R3", "newline-pushed:%s" % pp.split("::")[0], bool(nl), site(s), "a '\\n' is appended when the input does not end with one")
        for bi, t in calls:
            pv = f.prov(t["args"][0], depth=24)
            from_input = any(x[0] == "arg" and f.name(x[1]) == "input" and x[2] == () for x in pv)
            via_copy = any(x[0] == "call" and re.search(r"ToString>::to_string$|ToOwned>::to_owned$|String::from$|SpecToString>::spec_to_string$", x[1] or "") for x in pv)
            direct = flow.access_path(f, t["args"][0])
            ck.ob("R3", "parses-the-copy:%s" % pp.split("::")[0], via_copy and direct[0] != ("arg", 1), site(s, t["l"]),
                  "the buffer handed to the generated parser is the owned, newline-terminated copy" if via_copy and direct[0] != ("arg", 1) else
                  "the generated parser is given the caller's input itself (%s)" % flow.fmt_path(direct, f))
    # ---------------- R4 no panicking string slice on the parse path takes a computed byte offset -------------------------------
    from mirlib import CallGraph
    cg = CallGraph(w)
    SAFE = re.compile(r"regex::.*Match.*::(start|end)$|core::str::<impl str>::(find|rfind|len|char_indices|rmatch_indices|match_indices)$|"
                      r"alloc::string::String::len$|core::option::Option::<T>::(map_or|map|unwrap_or|unwrap)$|Iterator::(next|last)$")
    n4 = 0
    for crate_prefix, root in (("veryl_parser", "veryl_parser::parser::Parser::parse"), ("veryl_migrator", "veryl_migrator::parser::Parser::parse")):
        if root not in w.fns:
            continue
        reach = set(cg.reachable([root]))
        # error conversion runs inside Parser::parse through `?` / Into, which the call graph does not always connect: take the
        # modules the property anchors in whole
        reach |= {q for q in w.fns if re.match(r"^<?%s::(parser_error|parser|veryl_grammar|veryl_token)::" % crate_prefix, q)}
        for p in sorted(reach):
            sm = w.fns.get(p)
            if not sm or sm.get("alias_of") or "::generated::" in p or not (p.startswith(crate_prefix) or p.startswith("<" + crate_prefix)):
                continue
            if not any(re.search(r"Index<.*> for str>::index$|String as core::ops::index::Index<.*>>::index$", c["c"] or "") for c in sm["calls"]):
                continue
            g = Fn(w.mir(p))
            k = 0
            for bi, t in g.calls(r"Index<.*> for str>::index$|String as core::ops::index::Index<.*>>::index$"):
                n4 += 1
                k += 1
                bad = sorted(set(_unsafe_bounds(g, g.describe(t["args"][1], 8), SAFE, set(), 0)))
                ok = not bad
                ck.ob("R4", "slice-at-char-boundary:%s@%d" % ("::".join(p.split("::")[-2:]), k), ok, site(sm, t["l"]),
                      "the slice bounds come from searches / regex matches / lengths of the same text (char boundaries)" if ok else
                      "a `&text[a..b]` on the parse path takes a bound from %s: an offset that is not a char boundary of this text (multi-byte input) "
                      "panics inside Parser::parse; use str::get" % bad)
    ck.floor("R4", "panicking string slices on the parse paths (hand-written code)", n4, 3)
    # ---------------- R5 the diagnostic's span is the scanner's location, unchanged ---------------------------------------------
    for crate in ("veryl_parser", "veryl_migrator"):
        cands = [q for q in w.fns if q.startswith(crate + "::parser_error::") and re.search(r"From<.*Location> for miette::.*SourceSpan>::from$", q)]
        for q in cands:
            g = Fn(w.mir(q))
            news = g.calls(r"SourceSpan::new$")
            okn = len(news) == 1
            detail = "one SourceSpan::new"
            if okn:
                t = news[0][1]
                d0 = repr(g.describe(t["args"][0], 10))
                d1 = g.describe(t["args"][1], 10)
                off_ok = "start" in d0 and not re.search(r"'(Add|Sub|Mul)'", d0)
                len_ok = isinstance(d1, tuple) and d1[0] == "call" and (d1[1] or "").endswith("Location::len") and "bin" not in repr(d1)[:12]
                pv = {x[1] for x in g.prov(t["args"][1], depth=8) if x[0] == "call"}
                len_ok = len_ok and all((c or "").endswith("Location::len") for c in pv)
                okn = off_ok and len_ok
                detail = "offset = location.start, length = location.len() (found %s / %s)" % (d0[:80], repr(d1)[:80])
            ck.ob("R5", "span-is-scanner-location:" + crate, okn, site(w.fns[q]),
                  "the miette span is exactly the scanner's (start, len): " + detail if okn else
                  "the span handed to the diagnostic is not the scanner's location unchanged (%s): widened or shifted spans can leave the input" % detail)
        if not cands and crate == "veryl_parser":
            ck.missing("R5", crate + "::parser_error From<Location> for SourceSpan")
    ck.analysed = {"drivers": drivers, "entries": entries}
    return ck.finish(info)


def _short(p):
    return "::".join(p.split("::")[:1] + p.split("::")[-1:])
