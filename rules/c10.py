"""C10 - the parser terminates without crashing on every input (depth-cap guard and single entry only).

Decided (DESIGN.md section 3 C10, section 8): the mechanism the statement names exists on every parse entry of every
generated parser in the workspace. A weak but genuine necessary condition: without the cap, deeply nested input overflows
the native stack in the parser and again when the tree is dropped (shown for the migrator's parser, finding F17).
Not decided: termination and panic-freedom of the generated LL(k) parser and scanner on all inputs; span correctness.
"""
import re
from core import Check, site
from mirlib import Fn, MustFacts
import flow

RULE = (
    "R1 every function that drives a parol LLKParser (constructs LLKParser::new and calls LLKParser::parse_into) calls "
    "set_max_parsing_depth with an integer literal in 1..=4096 on every path before parse_into. R2 each generated parse entry "
    "(<crate>::generated::veryl_parser::parse) is called only from that crate's Parser::parse. R3 Parser::parse hands the parser the "
    "newline-terminated copy of the input: the buffer parsed derives from the String that received push('\\n') under "
    "!ends_with(\"\\n\"), not from the caller's `input`."
)

CRATES = ["veryl_parser", "veryl_migrator", "veryl_formatter", "veryl_analyzer", "veryl_emitter", "veryl", "veryl_ls.bin", "veryl_translator", "mdbook_veryl.bin", "veryl_tests"]


def run(world, tier, info, only=None):
    ck = Check("C10", tier, "other", RULE, only)
    w = world
    drivers = []
    for p, s in sorted(w.fns.items()):
        if s.get("alias_of"):
            continue
        cs = [c["c"] or "" for c in s["calls"]]
        if any(c.endswith("LLKParser::<'t>::new") or re.search(r"LLKParser(::<.*>)?::new$", c) for c in cs) and any(re.search(r"LLKParser(::<.*>)?::parse_into$", c) for c in cs):
            drivers.append(p)
    ck.floor("R1", "functions driving a parol LLKParser", len(drivers), 2)
    ck.assume("parol_runtime's LLKParser returns an error once its production stack exceeds max_parsing_depth (parol_runtime 'Max parsing depth exceeded')")
    for p in drivers:
        s = w.fns[p]
        f = Fn(w.mir(p))
        mf = MustFacts(f)
        caps = f.calls(r"LLKParser(::<.*>)?::set_max_parsing_depth$")
        runs = f.calls(r"LLKParser(::<.*>)?::parse_into$")
        lit = None
        for bi, t in caps:
            a = t["args"][1]
            if a[0] == "k" and "int" in a[1]:
                lit = int(a[1]["int"])
        ok_lit = lit is not None and 1 <= lit <= 4096
        ck.ob("R1", "depth-cap-literal:%s" % _short(p), ok_lit, site(s, caps[0][1]["l"] if caps else None),
              "the production stack is capped at %s" % lit if ok_lit else
              ("no set_max_parsing_depth call: parol's default is unbounded, so deeply nested input overflows the native stack" if not caps else "cap is %s" % lit))
        for bi, t in runs:
            F = mf.at_entry(bi) or ()
            ok = any(("calledbb", cb) in F for cb, _ in caps)
            ck.ob("R1", "cap-before-parse:%s" % _short(p), ok, site(s, t["l"]), "the cap is set on every path before parse_into runs")
    # R2 single entry
    entries = [p for p in w.fns if re.search(r"::generated::veryl_parser::parse$", p)]
    ck.floor("R2", "generated parse entries", len(entries), 2)
    for e in sorted(entries):
        crate = e.split("::")[0]
        callers = sorted(p for p, s in w.fns.items() if not s.get("alias_of") and any(c["c"] == e for c in s["calls"]))
        want = "%s::parser::Parser::parse" % crate
        ck.ob("R2", "single-entry:%s" % crate, callers == [want], site(w.fns[e]), "%s is called only from %s (callers: %s)" % (e, want, callers))
    # R3 newline-terminated copy
    for pp in ("veryl_parser::parser::Parser::parse", "veryl_migrator::parser::Parser::parse"):
        if pp not in w.fns:
            ck.missing("R3", pp)
            continue
        s = w.fns[pp]
        f = Fn(w.mir(pp))
        calls = f.calls(r"::generated::veryl_parser::parse$")
        pushes = f.calls(r"^alloc::string::String::push$")
        nl = [(bi, t) for bi, t in pushes if t["args"][1][0] == "k" and str(t["args"][1][1].get("int")) == "10"]
        ck.ob("R3", "newline-pushed:%s" % pp.split("::")[0], bool(nl), site(s), "a '\\n' is appended when the input does not end with one")
        for bi, t in calls:
            pv = f.prov(t["args"][0], depth=24)
            from_input = any(x[0] == "arg" and f.name(x[1]) == "input" and x[2] == () for x in pv)
            via_copy = any(x[0] == "call" and re.search(r"ToString>::to_string$|ToOwned>::to_owned$|String::from$|SpecToString>::spec_to_string$", x[1] or "") for x in pv)
            direct = flow.access_path(f, t["args"][0])
            ck.ob("R3", "parses-the-copy:%s" % pp.split("::")[0], via_copy and direct[0] != ("arg", 1), site(s, t["l"]),
                  "the buffer handed to the generated parser is the owned, newline-terminated copy" if via_copy and direct[0] != ("arg", 1) else
                  "the generated parser is given the caller's input itself (%s)" % flow.fmt_path(direct, f))
    ck.analysed = {"drivers": drivers, "entries": entries}
    return ck.finish(info)


def _short(p):
    return "::".join(p.split("::")[:1] + p.split("::")[-1:])
