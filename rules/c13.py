"""C13 - source maps point at matching text on both sides.

Decided (DESIGN.md section 3 C13, section 8): the provenance chain token/comment -> anchor -> rendered anchor -> map entry.
Not decided: that every entry of every emitted map is right for every layout (run-time), entry ordering inside the
`sourcemap` crate, per-line coverage.
"""
import re
from core import Check, site
from mirlib import Fn, MustFacts, Sem
import flow
import c28

RULE = (
    "R1 (emitter -> Doc) In Emitter::push_token the anchored document is built as doc::anchored(text, x.line, x.column) with all "
    "three taken from the same token x (text = the interned string of x.text, at most end-trimmed); in Emitter::process_comment "
    "every CommentDoc gets src_line = c.line, src_column = c.column and the text of the same comment c, for every comment of the "
    "token; doc::anchored stores its parameters under the same names. R2 (Doc -> rendered anchor) = C28 R4: emit_anchored and "
    "render_comments record (state.current_line, state.col + 1) together with the item's own source coordinates, after the pending "
    "indent is flushed and before the text is pushed, with nothing moving the cursor in between; and the cursor they read is kept "
    "true by the whole renderer (= C28 R6/R8/R9): state.col never receives a byte length, is reset to 0 only right after opts.newline "
    "was written, and every write to state.out is followed on every path by a write of state.col. R3 (rendered anchor -> map entry) In "
    "Emitter::emit every RenderedAnchor of the same render that produced the emitted string is passed to SourceMap::add with each "
    "field in the parameter of the same name, then the map is built. R4 SourceMap::add converts each of the four 1-based "
    "coordinates with exactly -1 and hands them to sourcemap::SourceMapBuilder::add in (dst_line, dst_col, src_line, src_col) order "
    "with the name. R5 (the map on disk belongs to the output on disk) in CmdBuild::exec's emit loop every path from the write-mode write "
    "of `dst` to the next loop iteration passes the write of `map`, except over the `sourcemap_target == None` edge (error returns leave the loop). R6 a token emitted as empty text is filtered out by an is_empty test in "
    "push_token, emit_anchored, Emitter::emit or SourceMap::add before it becomes a map entry. R7 push_token anchors a token only after a test of "
    "its `source` (the file it was read from), or SourceMap::add passes a per-entry source to the builder."
)

CRATES = ["veryl_emitter", "veryl_pretty", "veryl_sourcemap", "veryl"]
E = "veryl_emitter::emitter::Emitter::"
ADAPT = re.compile(r"Iterator::(rev|skip|take|step_by|filter|map|enumerate|peekable|chain|zip)$")
TRIM = re.compile(r"core::str::<impl str>::trim_end(_matches)?$")


def run(world, tier, info, only=None):
    ck = Check("C13", tier, "other", RULE, only)
    w = world
    for p in (E + "push_token", E + "process_comment", E + "emit", "veryl_pretty::doc::anchored", "veryl_sourcemap::sourcemap::SourceMap::add",
              "veryl_pretty::render::emit_anchored", "veryl_pretty::render::render_comments"):
        if p not in w.fns:
            ck.missing("anchors", p)
    if any(o["verdict"] == "violation" for o in ck.obs):
        return ck.finish(info)
    ck.assume("sourcemap::SourceMapBuilder::add(dst_line, dst_col, src_line, src_col, source, name, ..) takes 0-based coordinates in that order (sourcemap crate API)")
    ck.assume("Token.line/column are the token's true 1-based source position (that is property C12, not decided here)")

    # ---------------- R1 push_token ------------------------------------------------------------------------
    s = w.fns[E + "push_token"]
    f = Fn(w.mir(E + "push_token"))
    anch = f.calls(r"^veryl_pretty::doc::anchored$")
    ck.floor("R1", "doc::anchored calls in push_token", len(anch), 1)
    argx = None
    for i in range(1, f.nargs + 1):
        if "Token" in f.ty(i) and "Veryl" not in f.ty(i):
            argx = i
    for bi, t in anch:
        r1 = flow.access_path(f, t["args"][1])
        r2 = flow.access_path(f, t["args"][2])
        ck.ob("R1", "push_token/src_line", r1 == (("arg", argx), ("line",)), site(s, t["l"]), "anchor line is x.line (found %s)" % flow.fmt_path(r1, f))
        ck.ob("R1", "push_token/src_column", r2 == (("arg", argx), ("column",)), site(s, t["l"]), "anchor column is x.column (found %s)" % flow.fmt_path(r2, f))
        tp = flow.access_paths(f, t["args"][0], extra_transparent=TRIM)
        ok = all(r[0] == "call" and (r[1] or "").endswith("resource_table::get_str_value") for r, p in tp) and bool(tp)
        # and that call's argument is x.text
        for r, p in tp:
            if r[0] == "call":
                a = flow.access_path(f, f.blocks[r[2]]["t"]["args"][0])
                if a != (("arg", argx), ("text",)):
                    ok = False
        ck.ob("R1", "push_token/text", ok, site(s, t["l"]), "anchor text is the (end-trimmed) interned text of the same token (found %s)" % sorted(flow.fmt_path(x, f) for x in tp))
    # the anchored doc is emitted
    m = MustFacts(f)
    for bi, t in anch:
        r = [b for b, tt in f.calls("^" + re.escape(E + "emit_doc") + "$") if flow.access_path(f, tt["args"][1])[0][:2] == ("call", "veryl_pretty::doc::anchored")]
        ck.ob("R1", "push_token/anchored-doc-emitted", bool(r), site(s, t["l"]), "the anchored document is handed to emit_doc")
    # doc::anchored keeps names
    s2 = w.fns["veryl_pretty::doc::anchored"]
    g = Fn(w.mir("veryl_pretty::doc::anchored"))
    pn = {g.name(i): i for i in range(1, g.nargs + 1)}
    okc = False
    for bi, b in enumerate(g.blocks):
        for st in b["s"]:
            if st[0] == "=" and st[2][0] == "agg" and isinstance(st[2][1], dict) and (st[2][1].get("adt") or "").endswith("doc::AnchoredText"):
                fl = [x["name"] for x in w.adts["veryl_pretty::doc::AnchoredText"]["variants"][0]["fields"]]
                ops = dict(zip(fl, st[2][2]))
                okc = True
                for fld in ("src_line", "src_column", "text"):
                    r, pth = flow.access_path(g, ops[fld], extra_transparent=re.compile(r"core::convert::Into<.*>>::into$"))
                    good = r == ("arg", pn.get(fld)) and pth == ()
                    ck.ob("R1", "doc::anchored/" + fld, good, site(s2, st[3]), "AnchoredText.%s is the parameter %s (found %s)" % (fld, fld, flow.fmt_path((r, pth), g)))
    if not okc:
        ck.missing("R1", "AnchoredText construction in doc::anchored")
    # ---------------- R1 process_comment -------------------------------------------------------------------
    s = w.fns[E + "process_comment"]
    f = Fn(w.mir(E + "process_comment"))
    lps = []
    for head, t, some, none, item in flow.loops_over(f):
        ad = []
        r, pth = flow.access_path(f, t["args"][0], extra_transparent=ADAPT, adapters=ad)
        if r[0] == "arg" and pth == ("comments",):
            lps.append((head, t, some, none, ad))
    ck.floor("R1", "loops over x.comments in process_comment", len(lps), 1)
    for head, t, some, none, ad in lps:
        ck.ob("R1", "process_comment/all-comments", not ad, site(s, t["l"]), "every comment of the token is visited (adapters %s)" % ad)
        body = f.reach_from(some, avoid=[head])
        aggs = []
        for b in body:
            for si, st in enumerate(f.blocks[b]["s"]):
                if st[0] == "=" and st[2][0] == "agg" and isinstance(st[2][1], dict) and (st[2][1].get("adt") or "").endswith("doc::CommentDoc"):
                    aggs.append((b, si, st))
        ck.floor("R1", "CommentDoc constructions in the loop", len(aggs), 1)
        fl = [x["name"] for x in w.adts["veryl_pretty::doc::CommentDoc"]["variants"][0]["fields"]]
        for b, si, st in aggs:
            ops = dict(zip(fl, st[2][2]))
            for fld, src in (("src_line", "line"), ("src_column", "column")):
                r, pth = flow.access_path(f, ops[fld])
                ok = r[0] == "call" and r[2] == head and pth == ("Some", "0", src)
                ck.ob("R1", "process_comment/" + fld, ok, site(s, st[3]), "CommentDoc.%s is this comment's %s (found %s)" % (fld, src, flow.fmt_path((r, pth), f)))
            pv = f.prov(ops["text"], depth=30)
            gsv = [x for x in pv if x[0] == "call" and (x[1] or "").endswith("resource_table::get_str_value")]
            okt = False
            for x in gsv:
                a = flow.access_path(f, f.blocks[x[2]]["t"]["args"][0])
                if a[0][0] == "call" and a[0][2] == head and a[1] == ("Some", "0", "text"):
                    okt = True
            ck.ob("R1", "process_comment/text", okt and len(gsv) == 1, site(s, st[3]), "CommentDoc.text derives from the interned text of the same comment")
            # each CommentDoc is pushed
            esc = flow.escapes(f, some, [bb for bb, tt in f.calls(r"alloc::vec::Vec::<T, A>::push$") if bb in body], stops=[head])
            ck.ob("R1", "process_comment/every-comment-pushed", not esc, site(s, st[3]), "every iteration pushes its CommentDoc")
    cm = f.calls(r"^veryl_pretty::doc::comments$")
    em = f.calls("^" + re.escape(E + "emit_doc") + "$")
    ck.ob("R1", "process_comment/comments-doc-emitted", bool(cm) and bool(em), site(s), "the comments document is built and emitted")

    # ---------------- R2 = C28 R4 --------------------------------------------------------------------------
    c28.anchor_obligations(ck, w, "emit_anchored", "arg", R2="R2", R4="R2")
    c28.anchor_obligations(ck, w, "render_comments", "loop", R2="R2", R4="R2")
    # the recorded column is state.col: it must follow the text (resets only after a newline, every write accounted)
    c28.cursor_obligations(ck, w, R8="R2", R9="R2")
    c28.col_units(ck, w, R6="R2", floor=False)
    # ... and a relative advance (col += chars(text)) only where the text holds no line feed
    ck.floor("R2", "relative text advances of state.col", c28.relative_advances(ck, "R2", w), 1)

    map_written_with_output(ck, w)
    empty_anchor_filter(ck, w)
    own_file_anchor(ck, w, argx)
    # ---------------- R3 Emitter::emit ---------------------------------------------------------------------
    s = w.fns[E + "emit"]
    f = Fn(w.mir(E + "emit"))
    adds = f.calls(r"^veryl_sourcemap::sourcemap::SourceMap::add$")
    ck.floor("R3", "SourceMap::add calls in Emitter::emit", len(adds), 1)
    ga = Fn(w.mir("veryl_sourcemap::sourcemap::SourceMap::add"))
    pnames = [ga.name(i) for i in range(1, ga.nargs + 1)]
    want = {"dst_line": "dst_line", "dst_column": "dst_column", "src_line": "src_line", "src_column": "src_column", "name": "text"}
    renders = f.calls(r"^veryl_pretty::render::render_with_anchors$")
    ck.ob("R3", "emit/single-render", len(renders) == 1, site(s), "Emitter::emit renders once (found %d render_with_anchors calls)" % len(renders))
    for bi, t in adds:
        loop = None
        for head, lt, some, none, item in flow.loops_over(f):
            if bi in f.reach_from(some, avoid=[head]):
                ad = []
                r, pth = flow.access_path(f, lt["args"][0], extra_transparent=ADAPT, adapters=ad)
                loop = (head, r, pth, ad)
        if loop is None:
            ck.ob("R3", "emit/loop", False, site(s, t["l"]), "SourceMap::add is not inside a loop over the rendered anchors")
            continue
        head, r, pth, ad = loop
        ok = r[0] == "call" and (r[1] or "").endswith("render::render_with_anchors") and pth == ("anchors",) and not ad
        ck.ob("R3", "emit/all-anchors-of-this-render", ok, site(s, t["l"]), "the loop visits every anchor of the render result (found %s, adapters %s)" % (flow.fmt_path((r, pth), f), ad))
        for i, pn in enumerate(pnames):
            if pn not in want:
                continue
            ra, pa = flow.access_path(f, t["args"][i])
            good = ra[0] == "call" and ra[2] == head and pa == ("Some", "0", want[pn])
            ck.ob("R3", "emit/add/" + pn, good, site(s, t["l"]), "parameter %s receives the anchor's %s (found %s)" % (pn, want[pn], flow.fmt_path((ra, pa), f)))
    # the emitted string is the same render's text
    ws = flow.field_writes(f, r"emitter::Emitter$", "string")
    oks = False
    for bi, si, st in ws:
        if st[2][0] == "use":
            r, pth = flow.access_path(f, st[2][1])
            if r[0] == "call" and (r[1] or "").endswith("render::render_with_anchors") and pth == ("text",):
                oks = True
    ck.ob("R3", "emit/string-from-same-render", oks and len(ws) == 1, site(s), "self.string is the text of the same render whose anchors are mapped")
    builds = f.calls(r"^veryl_sourcemap::sourcemap::SourceMap::build$")
    okb = bool(builds) and all(not f.reaches(bt["to"], ab) for bb, bt in builds for ab, _ in adds)
    ck.ob("R3", "emit/build-after-adds", okb, site(s), "the map is built after all entries were added")

    # ---------------- R4 SourceMap::add --------------------------------------------------------------------
    s = w.fns["veryl_sourcemap::sourcemap::SourceMap::add"]
    bad = ga.calls(r"^sourcemap::builder::SourceMapBuilder::add$")
    ck.floor("R4", "SourceMapBuilder::add calls", len(bad), 1)
    order = ["dst_line", "dst_column", "src_line", "src_column"]
    for bi, t in bad:
        for k, pn in enumerate(order):
            e = ga.describe(t["args"][1 + k], 12)
            txt = c36_arith(e)
            ck.ob("R4", "add/" + pn, txt == "(%s-1)" % pn, site(s, t["l"]), "builder argument %d is %s - 1 (found %s)" % (k + 1, pn, txt))
        r, pth = flow.access_path(ga, t["args"][6])
        okn = False
        if r[0] == "agg":
            st = ga.blocks[r[2]]["s"][r[3]]
            if st[2][1].get("variant") == "Some":
                rr, pp = flow.access_path(ga, st[2][2][0])
                okn = rr == ("arg", pnames.index("name") + 1)
        ck.ob("R4", "add/name", okn, site(s, t["l"]), "the entry's name is the anchor text passed in")
    ck.analysed = {"functions": [E + "push_token", E + "process_comment", E + "emit", "veryl_pretty::doc::anchored", "veryl_pretty::render::emit_anchored",
                                 "veryl_pretty::render::render_comments", "veryl_sourcemap::sourcemap::SourceMap::add"]}
    return ck.finish(info)


def _nonempty_guard(g, targets):
    """does every target block run only where some <str>.is_empty() call returned false (must-facts, through && / ! lowering)?"""
    if not targets:
        return False
    ies = [bi for bi, t in g.calls(r"(str>|String|impl str>)::is_empty$")]
    if not ies:
        return False
    mf = MustFacts(g)
    for b in targets:
        F = mf.at_entry(b)
        if F is None:
            continue
        if not any(a[0] == "ret" and a[1] in ies and a[2] is False for a in F):
            return False
    return True


def empty_anchor_filter(ck, w):
    """R6: a token emitted as empty text (a dropped trailing comma: `replace("")`) has no output position of its own - after
    strip_trailing_whitespace it can even lie beyond the end of its line - so it must not become a map entry. One of the four stages
    (push_token, emit_anchored, Emitter::emit's loop, SourceMap::add) has to drop it."""
    stages = []
    p = E + "push_token"
    g = Fn(w.mir(p))
    stages.append(("push_token", _nonempty_guard(g, [bi for bi, t in g.calls(r"^veryl_pretty::doc::anchored$")])))
    p = "veryl_pretty::render::emit_anchored"
    g = Fn(w.mir(p))
    stages.append(("emit_anchored", _nonempty_guard(g, [bi for bi, t in g.calls(c28.VEC_PUSH) if flow.access_path(g, t["args"][0])[1] == ("anchors",)])))
    p = E + "emit"
    g = Fn(w.mir(p))
    stages.append(("Emitter::emit", _nonempty_guard(g, [bi for bi, t in g.calls(r"^veryl_sourcemap::sourcemap::SourceMap::add$")])))
    p = "veryl_sourcemap::sourcemap::SourceMap::add"
    g = Fn(w.mir(p))
    stages.append(("SourceMap::add", _nonempty_guard(g, [bi for bi, t in g.calls(r"SourceMapBuilder::add$")])))
    ok = any(v for _, v in stages)
    ck.ob("R6", "empty-text-anchor-filtered", ok, site(w.fns[E + "push_token"]),
          "tokens emitted as empty text are dropped before they become map entries (%s)" % [n for n, v in stages if v] if ok else
          "none of push_token, emit_anchored, Emitter::emit, SourceMap::add tests the text for emptiness: a token emitted as \"\" (the trailing "
          "comma dropped from a parameter / port list) becomes a map entry with an empty name whose output position lies after the trailing "
          "blanks that strip_trailing_whitespace removes, i.e. outside the emitted line")


def own_file_anchor(ck, w, argx):
    """R7: a token whose text came from another file (the body of a generic function / package item instantiated here) carries that
    file's line and column. Either push_token anchors only tokens whose `source` is the file being emitted, or the map entry names the
    token's own file (SourceMap::add passes a per-entry source to the builder instead of self.src_path_from_map)."""
    p = E + "push_token"
    g = Fn(w.mir(p))
    targets = [bi for bi, t in g.calls(r"^veryl_pretty::doc::anchored$")]
    tests = set()
    for bi, b in enumerate(g.blocks):
        if b.get("cu"):
            continue
        t = b["t"]
        ops = []
        if t["t"] == "sw" and t.get("of") is not None:
            ops = [["c", t["of"]]] if isinstance(t["of"], list) else []
        elif t["t"] == "call" and re.search(r"PartialEq(<.*>)?>?::(eq|ne)$|::matches_source$|::is_own_file$", t.get("callee") or ""):
            ops = t["args"]
        for o in ops:
            try:
                r, pth = flow.access_path(g, o)
            except Exception:
                continue
            if r == ("arg", argx) and pth[:1] == ("source",):
                tests.add(bi)
    guarded = bool(tests) and bool(targets) and not any(tb in g.reach_from(0, avoid=list(tests)) for tb in targets)
    a = "veryl_sourcemap::sourcemap::SourceMap::add"
    ga = Fn(w.mir(a))
    per_entry = False
    for bi, t in ga.calls(r"SourceMapBuilder::add$"):
        if len(t["args"]) > 5:
            for r, pth in flow.access_paths(ga, t["args"][5]):
                if r[0] == "arg" and r[1] != 1:
                    per_entry = True
    ok = guarded or per_entry
    ck.ob("R7", "anchor-names-the-token's-file", ok, site(w.fns[p]),
          "foreign-file tokens are %s" % ("not anchored" if guarded else "mapped to their own file") if ok else
          "push_token anchors every token that has a line and column, whatever file its `source` is, and SourceMap::add names the emitted "
          "file as the source of every entry: the body of a generic function or package item defined in another file and instantiated "
          "here is mapped to line/column pairs of the other file inside this file's source")


def map_written_with_output(ck, w):
    """R5: in CmdBuild::exec's emit loop, once the output of a file was written in write mode and a source map is configured, the loop
    cannot move on to the next file without writing this file's map: the map depends on the source text too, so no condition on the
    output write's result (or on the map file's presence) may stand between the two."""
    import c27
    from mirlib import MustFacts, Sem
    EX = c27.EXEC
    if EX not in w.fns:
        ck.missing("R5", EX)
        return
    x = w.fns[EX]
    g = Fn(w.mir(EX))
    mf = MustFacts(g)
    sem = Sem(g, depth=14)
    wr = g.calls(c27.WRITE)

    def named(op):
        rl = c27.root_local(g, op)
        return g.name(rl) if rl is not None else None
    w_dst = [(bi, t) for bi, t in wr if named(t["args"][0]) == "dst" and c27.mode_at(sem, mf.at_entry(bi)) in (False, None)]
    w_map = [(bi, t) for bi, t in wr if named(t["args"][0]) == "map"]
    ck.floor("R5", "write-mode output writes in the emit loop", len(w_dst), 1)
    ck.floor("R5", "map writes in the emit loop", len(w_map), 1)
    if not w_dst or not w_map:
        return
    # the only edge that may skip the map: sourcemap_target == None
    banned = set()
    n_cmp = 0
    for bi, t in g.calls(r"PartialEq(<.*>)?>?::(ne|eq)$"):
        if not any(flow.access_path(g, a)[1][-1:] == ("sourcemap_target",) for a in t["args"]):
            continue
        n_cmp += 1
        sw = g.blocks[t["to"]]["t"]
        if sw["t"] != "sw" or sw["on"][0] == "k" or sw["on"][1][0] != t["dst"][0] or len(sw["vals"]) != 1 or sw["vals"][0][0] != "0":
            ck.ob("R5", "map-with-output/none-test", None, site(x, t["l"]), "the sourcemap_target comparison is not branched on directly; cannot tell the None edge")
            return
        is_ne = t["callee"].endswith("::ne")
        banned.add((t["to"], sw["vals"][0][1] if is_ne else sw["else"]))
    heads = [h for h, t, some, none, item in flow.loops_over(g) if any(bi in g.reach_from(some) for bi, _ in w_dst)]
    if len(heads) != 1 or not n_cmp:
        ck.ob("R5", "map-with-output/shape", None, site(x), "expected one emit loop and a sourcemap_target test (loops %s, tests %d)" % (heads, n_cmp))
        return
    head = heads[0]
    gate = {bi for bi, _ in w_map}
    for bi, t in w_dst:
        seen = set()
        work = [t["to"]]
        hit = False
        while work:
            b = work.pop()
            if b in seen or b in gate or g.blocks[b].get("cu"):
                continue
            seen.add(b)
            if b == head:
                hit = True
                break
            for sc in g.succ[b]:
                if (b, sc) not in banned:
                    work.append(sc)
        ck.ob("R5", "map-with-output:%s" % (g.name(c27.root_local(g, t["args"][0])) or "dst"), not hit, site(x, t["l"]),
              "with a source map configured, every path from this output write to the next file writes the map (or fails the build)" if not hit else
              "with a source map configured the loop can reach the next file after this output write without writing the map: a source edit "
              "that leaves the output unchanged (or whatever else the skipped condition tests) leaves a stale map whose entries point "
              "into the old source text")


def c36_arith(e):
    from c36 import _arith
    return _arith(e)
