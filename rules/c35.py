"""C35 - user components see correct values and timing on every transport.

Decided (DESIGN.md section 3 C35, section 8): the edge protocol around commit_event_log and the payload/mask pairing
of the host-side staging and write-back. Not decided: bit-exact marshalling at every width, the wasm transport
(not compiled for this host), the component ABI itself.
"""
import re
from core import Check, site
from mirlib import Fn, MustFacts, Sem
import flow

RULE = (
    "In every function of veryl_simulator::simulator::Simulator that calls commit_event_log (the FF commit = the clock edge): "
    "R1 a stage_components call has returned on every path to the commit on which components exist (the only stage-free paths "
    "are those on which self.components.is_empty() was observed true); R2 no stage_components call is reachable after the commit "
    "inside the function; R3 after the commit every path to the function's end passes a fire_components call unless components "
    "are empty; R4 no commit is reachable after a fire_components call (outputs never become visible before the same edge's FF "
    "update); R5 the events staged and the events fired are the same set (same argument shapes, same loops). "
    "R6 stage_components and fire_components both map the event through component_event and test listens_to on the mapped event; "
    "fire_components calls fire, then apply_outputs (directly or through a RuntimeComponent helper), and sets comb_dirty when a write was "
    "reported. R8 only fire_components and init_components apply component outputs: outputs become visible together with the flip-flop "
    "updates, never in zero time. "
    "R9 in the guest SDK (veryl_component::ctx) every direct store of a port's payload word also stores its mask word and its dirty flag. "
    "R10 InputSource::classify chooses a Direct* source (raw copy of the whole variable) only where every optional modifier of "
    "Expression::Variable (select, dynamic_select, ...) is None. R7 payload/mask pairing: in RuntimeComponent::stage_inputs and ::apply_outputs every raw copy (ptr::copy_nonoverlapping, "
    "read_payload/write_payload, stores through dst_* pointers) moves payload-side storage to payload-side storage and "
    "mask-side storage (base + native_bytes, *_mask) to mask-side storage, and every mask-side copy happens only under use_4state."
)

CRATES = ["veryl_simulator", "veryl_component", "veryl_component_sys"]
S = "veryl_simulator::simulator::Simulator::"
COMMIT = S + "commit_event_log"
STAGE = S + "stage_components"
FIRE = S + "fire_components"
RC = "veryl_simulator::component::runtime::RuntimeComponent::"
ADAPT = re.compile(r"Iterator::(rev|skip|take|step_by|filter|map|enumerate|peekable|chain|zip)$")


def _components_empty(sem_facts, value=True):
    for x in sem_facts:
        if x[0] == "call" and (x[1] or "").endswith("::is_empty") and x[2] is value and "components" in repr(x[3]):
            return True
    return False


def _event_sig(f, op):
    """shape of an event argument: the function's own event parameter, or Event::<V>(field path) bound by a loop over <iterable>"""
    r, pth = flow.access_path(f, op)
    if r[0] == "arg":
        return "param:" + (f.name(r[1]) or str(r[1])) + ("." + ".".join(pth) if pth else "")
    if r[0] == "agg":
        st = f.blocks[r[2]]["s"][r[3]]
        kind = st[2][1]
        ops = st[2][2]
        inner = []
        for o in ops:
            rr, pp = flow.access_path(f, o)
            it = ""
            # index through a loop variable? find the loop the index local is bound by
            inner.append("%s:%s" % (rr[0], ".".join(pp)))
        loop = _enclosing_loop_iterable(f, r[2])
        return "%s::%s(%s) for %s" % ((kind.get("adt") or "?").split("::")[-1], kind.get("variant"), ",".join(inner), loop)
    return "%s:%s" % (r[0], ".".join(pth))


def _enclosing_loop_iterable(f, bb):
    best = None
    for head, t, some, none, item in flow.loops_over(f):
        body = f.reach_from(some, avoid=[head])
        if bb in body:
            ad = []
            r, pth = flow.access_path(f, t["args"][0], extra_transparent=ADAPT, adapters=ad)
            name = None
            if r[0] in ("local", "phi"):
                name = f.name(r[1])
            elif r[0] == "call":
                # `&pre_fire` into_iter: root is the call that built the collection; use the debug name of the referenced local
                name = _ref_name(f, t["args"][0])
            elif r[0] == "agg":
                name = "range"
            cand = (len(body), "%s%s" % (name or r[0], "".join("." + a.split("::")[-1] for a in ad)))
            if best is None or cand[0] < best[0]:
                best = cand
    return best[1] if best else "-"


def _ref_name(f, op):
    """debug name of the local an iterator was created from (through into_iter / iter / refs)"""
    if op[0] == "k":
        return None
    l = op[1][0]
    for _ in range(12):
        if f.name(l):
            return f.name(l)
        d = f.def_of(l)
        if not d:
            return None
        if d[0] == "c":
            t = f.blocks[d[1]]["t"]
            if not t["args"] or t["args"][0][0] == "k":
                return None
            l = t["args"][0][1][0]
            continue
        rv = f.rvalue_at(d)
        if rv[0] == "use" and rv[1][0] != "k":
            l = rv[1][1][0]
        elif rv[0] in ("ref", "ptr"):
            l = rv[2][0]
        else:
            return None
    return None


def run(world, tier, info, only=None):
    ck = Check("C35", tier, "other", RULE, only)
    w = world
    for p in (COMMIT, STAGE, FIRE, RC + "stage_inputs", RC + "apply_outputs", RC + "fire", RC + "listens_to", S + "component_event"):
        if p not in w.fns:
            ck.missing("anchors", p)
    if any(o["verdict"] == "violation" for o in ck.obs):
        return ck.finish(info)
    ck.assume("commit_event_log is the only place event-scope FF writes become visible (ff_commit_from_log); checked as: it is the only caller of ff_commit_from_log among Simulator methods")
    ck.assume("the wasm transport (component/wasm.rs under cfg(target_family = \"wasm\") or feature gates not built here) is not analysed")
    # who commits FF writes
    committers = sorted(p for p, s in w.fns.items() if any((c["c"] or "").endswith("::ff_commit_from_log") for c in s["calls"]))
    ck.ob("R0", "single-commit-point", [p for p in committers if p.startswith(S)] == [COMMIT], site(w.fns[COMMIT]),
          "within Simulator only commit_event_log applies the write log (callers of ff_commit_from_log: %s)" % committers)
    callers = sorted(p for p, s in w.fns.items() if any(c["c"] == COMMIT for c in s["calls"]))
    ck.floor("R1", "functions calling commit_event_log", len(callers), 2)
    stage_callers = sorted(p for p, s in w.fns.items() if any(c["c"] == STAGE for c in s["calls"]))
    fire_callers = sorted(p for p, s in w.fns.items() if any(c["c"] == FIRE for c in s["calls"]))
    ck.ob("R1", "stage-only-where-commit", set(stage_callers) <= set(callers), site(w.fns[STAGE]), "stage_components is called only in functions that also commit (callers: %s)" % stage_callers)
    ck.ob("R3", "fire-only-where-commit", set(fire_callers) <= set(callers), site(w.fns[FIRE]), "fire_components is called only in functions that also commit (callers: %s)" % fire_callers)
    for p in callers:
        s = w.fns[p]
        short = p.split("::")[-1]
        f = Fn(w.mir(p))
        sem = Sem(f, 14)
        commits = f.calls("^" + re.escape(COMMIT) + "$")
        stages = f.calls("^" + re.escape(STAGE) + "$")
        fires = f.calls("^" + re.escape(FIRE) + "$")
        sb = [b for b, _ in stages]
        fb = [b for b, _ in fires]
        # R1
        m1 = MustFacts(f, avoid=sb)
        for n, (cb, ct) in enumerate(sorted(commits, key=lambda x: x[1]["l"])):
            F = m1.at_entry(cb)
            if F is None:
                ok, why = True, "every path to the commit passes stage_components"
            else:
                ok = _components_empty(sem.facts(F), True)
                why = "stage-free paths to the commit exist only when components.is_empty()" if ok else \
                      "the commit is reachable without stage_components on a path where components may exist: inputs would be sampled post-edge or not at all"
            ck.ob("R1", "stage-before-commit:%s@%d" % (short, n + 1), ok, site(s, ct["l"]), why)
            # R2
            late = [t["l"] for b, t in stages if f.reaches(ct["to"], b)]
            ck.ob("R2", "no-stage-after-commit:%s@%d" % (short, n + 1), not late, site(s, ct["l"]),
                  "no stage_components call follows the commit" if not late else "stage_components at line(s) %s can run after the commit (post-edge values staged)" % late)
            # R3
            m3 = MustFacts(f, avoid=fb, entry=ct["to"])
            bad = []
            for b in sorted(m3.feasible_blocks() if ct["to"] not in fb else []):
                if f.blocks[b]["t"]["t"] == "ret" and not f.blocks[b].get("cu"):
                    if not _components_empty(sem.facts(m3.at_entry(b)), True):
                        bad.append(b)
            ck.ob("R3", "fire-after-commit:%s@%d" % (short, n + 1), not bad and bool(fires), site(s, ct["l"]),
                  "after the commit every path fires the components (or components are empty)" if not bad and fires else
                  "the function can end after the commit without fire_components while components may exist")
        # R4
        for n, (b, t) in enumerate(sorted(fires, key=lambda x: x[1]["l"])):
            early = [ct["l"] for cb, ct in commits if f.reaches(t["to"], cb)]
            ck.ob("R4", "no-commit-after-fire:%s@%d" % (short, n + 1), not early, site(s, t["l"]),
                  "no commit_event_log follows this fire_components" if not early else
                  "commit_event_log at line(s) %s can run after fire_components: component outputs would be visible to the same edge's RTL" % early)
        # R5
        ssig = sorted(_event_sig(f, t["args"][1]) for b, t in stages)
        fsig = sorted(_event_sig(f, t["args"][1]) for b, t in fires)
        ck.ob("R5", "same-events-staged-and-fired:%s" % short, ssig == fsig and bool(ssig), site(s),
              "staged events == fired events (%s)" % ssig if ssig == fsig else "staged %s but fired %s" % (ssig, fsig))
        # same guard
        m = MustFacts(f)
        gs = sorted({_components_empty(sem.facts(m.at_entry(b)), False) for b in sb})
        gf = sorted({_components_empty(sem.facts(m.at_entry(b)), False) for b in fb})
        ck.ob("R5", "same-guard:%s" % short, gs == gf, site(s), "stage and fire sit under the same components-exist guard (%s / %s)" % (gs, gf))
    # methods of RuntimeComponent that apply outputs (apply_outputs itself or a helper that always ends up calling it)
    AO = {RC + "apply_outputs"}
    changed = True
    while changed:
        changed = False
        for q, sq in w.fns.items():
            if q.startswith(RC) and q not in AO and not sq.get("alias_of") and any(c["c"] in AO for c in sq["calls"]):
                AO.add(q)
                changed = True
    AO_RX = "^(" + "|".join(re.escape(x) for x in sorted(AO)) + ")$"
    # R8 outputs become visible only at an edge (fire_components) or at initialisation
    ALLOWED_APPLIERS = {FIRE: "the edge protocol", S + "init_components": "initial output values, before the first settle"}
    appliers = sorted(q for q, sq in w.fns.items() if not q.startswith(RC) and not sq.get("alias_of") and "::tests::" not in q and any(c["c"] in AO for c in sq["calls"]))
    for q in appliers:
        ck.ob("R8", "outputs-applied-only-at-an-edge:%s" % q.split("::")[-1], q in ALLOWED_APPLIERS, site(w.fns[q]),
              "%s applies component outputs: %s" % (q.split("::")[-1], ALLOWED_APPLIERS.get(q)) if q in ALLOWED_APPLIERS else
              "%s writes component outputs into the design's storage outside the edge protocol: the outputs become visible in zero time instead of "
              "together with the flip-flop updates of the component's next clock edge" % q)
    ck.floor("R8", "functions applying component outputs", len(appliers), 2)
    # ---------------- R6 ---------------------------------------------------------------------------------
    for p in (STAGE, FIRE):
        s = w.fns[p]
        short = p.split("::")[-1]
        f = Fn(w.mir(p))
        ce = f.calls("^" + re.escape(S + "component_event") + "$")
        ck.ob("R6", short + "/maps-event", len(ce) == 1 and flow.access_path(f, ce[0][1]["args"][1]) == (("arg", 2), ()), site(s),
              "the event is mapped through component_event(event) once")
        lt = f.calls("^" + re.escape(RC + "listens_to") + "$")
        okl = bool(lt)
        for b, t in lt:
            r, pth = flow.access_path(f, t["args"][1])
            if not (r[0] == "call" and r[1] == S + "component_event"):
                okl = False
        ck.ob("R6", short + "/listens-to-mapped-event", okl, site(s), "listens_to is asked about the mapped event")
        m = MustFacts(f)
        sem = Sem(f, 12)
        work = f.calls("^" + re.escape(RC) + "(stage_inputs|fire)$") + f.calls(AO_RX)
        ck.floor("R6", short + " component calls", len(work), 1 if p == STAGE else 2)
        for b, t in work:
            facts = sem.facts(m.at_entry(b))
            ok = any(x[0] == "call" and x[1] == RC + "listens_to" and x[2] is True for x in facts)
            ck.ob("R6", "%s/%s-only-for-listeners" % (short, t["callee"].split("::")[-1]), ok, site(s, t["l"]), "%s runs only for components that listen to the event" % t["callee"].split("::")[-1])
        # every component is visited: the loop iterates the whole vector
        lps = [(h, t) for h, t, *_ in flow.loops_over(f)]
        for h, t in lps:
            ad = []
            flow.access_path(f, t["args"][0], extra_transparent=ADAPT, adapters=ad)
            ck.ob("R6", short + "/all-components", not ad, site(s, t["l"]), "the loop visits every component (adapters: %s)" % ad)
    s = w.fns[FIRE]
    f = Fn(w.mir(FIRE))
    m = MustFacts(f)
    for b, t in f.calls(AO_RX):
        F = m.at_entry(b)
        ck.ob("R6", "fire_components/fire-before-apply", F is not None and ("called", RC + "fire") in F, site(s, t["l"]), "the hook fires before its outputs are applied")
        ev = [tt for bb, tt in f.calls("^" + re.escape(RC + "fire") + "$")]
        for tt in ev:
            r, pth = flow.access_path(f, tt["args"][1])
            ck.ob("R6", "fire_components/fires-mapped-event", r[0] == "call" and r[1] == S + "component_event", site(s, tt["l"]), "fire is given the mapped event")
    dirty = flow.field_writes(f, r"simulator::Simulator$", "comb_dirty")
    okd = False
    sem = Sem(f, 14)
    for bi, si, st in dirty:
        if st[2][0] == "use" and st[2][1][0] == "k" and str(st[2][1][1].get("int")) in ("1", "true"):
            # guarded by `wrote`, and wrote accumulates apply_outputs
            st8 = m.state_at(bi, si)
            names = set()
            for a in st8[0]:
                if a[0] == "val" and a[2] is True:
                    names.add(f.name(a[1]) or "")
                    pv = f.prov(["c", [a[1], []]], depth=10)
                    if any(x[0] == "call" and x[1] in AO for x in pv):
                        okd = True
    ck.ob("R6", "fire_components/outputs-mark-comb-dirty", okd, site(s), "comb_dirty is set when apply_outputs reported a write")

    # ---------------- R7 payload/mask pairing -------------------------------------------------------------
    def side(f, op, depth=0):
        ad = []
        r, pth = flow.access_path(f, op, extra_transparent=re.compile(r"(const_ptr|mut_ptr)::<impl \*(const|mut) T>::(add|offset|byte_add)$"), adapters=ad)
        if r[0] == "op" and depth < 4:
            # value combined with a width mask etc.: the side is that of whichever operand reads component/DUT storage
            st = f.blocks[r[2]]["s"][r[3]]
            subs = [side(f, o, depth + 1) for o in st[2][2:] if isinstance(o, list) and o and o[0] in ("c", "m")]
            if any(x[0] == "mask" for x in subs):
                return "mask", "(" + " op ".join(x[1] for x in subs) + ")"
            return "payload", "(" + " op ".join(x[1] for x in subs) + ")"
        names = [x for x in pth if isinstance(x, str)]
        is_mask = bool(ad) or any("mask" in x for x in names)
        return ("mask" if is_mask else "payload"), flow.fmt_path((r, pth), f) + ("+off" if ad else "")

    for p, floor in ((RC + "stage_inputs", 4), (RC + "apply_outputs", 4)):
        s = w.fns[p]
        short = p.split("::")[-1]
        f = Fn(w.mir(p))
        m = MustFacts(f)
        sem = Sem(f, 12)
        n = 0

        def under_4state(bi, si=None):
            st = m.at_entry(bi) if si is None else m.state_at(bi, si)[0]
            for x in sem.facts(st):
                if x[0] == "flag" and x[2] is True and "use_4state" in repr(x[1]):
                    return True
            return False
        pairs = []
        for bi, t in f.calls(r"core::ptr::copy_nonoverlapping$|core::intrinsics::copy_nonoverlapping$"):
            pairs.append((side(f, t["args"][0]), side(f, t["args"][1]), bi, None, t["l"]))
        for bi, t in f.calls(r"ir::variable::write_payload$"):
            pairs.append((side(f, t["args"][2]), side(f, t["args"][0]), bi, None, t["l"]))
        # stores through raw pointers: (*ptr) = value
        for bi, b in enumerate(f.blocks):
            if b.get("cu"):
                continue
            for si, st in enumerate(b["s"]):
                if st[0] == "=" and st[1][1] == ["*"] and "*" in f.ty(st[1][0]):
                    if st[2][0] != "use":
                        continue
                    src = st[2][1]
                    # value read by read_payload(ptr[, +off]): the side is that of its pointer argument
                    r, pth = flow.access_path(f, src)
                    if r[0] == "call" and (r[1] or "").endswith("read_payload"):
                        srcside = side(f, f.blocks[r[2]]["t"]["args"][0])
                    else:
                        srcside = side(f, src)
                    pairs.append((srcside, side(f, ["c", [st[1][0], []]]), bi, si, st[3]))
        for (ss, sn), (ds, dn), bi, si, line in sorted(pairs, key=lambda x: x[4]):
            n += 1
            ck.ob("R7", "%s/copy@%d/sides" % (short, n), ss == ds, site(s, line),
                  "%s -> %s: %s to %s" % (sn, dn, ss, ds) if ss == ds else "%s (%s side) is copied to %s (%s side)" % (sn, ss, dn, ds))
            if ds == "mask":
                ok = under_4state(bi, si)
                ck.ob("R7", "%s/copy@%d/mask-only-4state" % (short, n), ok, site(s, line), "the mask copy happens only under use_4state")
        ck.floor("R7", "raw copies in " + short, n, floor)
    # ---------------- R10 direct staging only for plain whole-variable connections -------------------------------
    CL = "veryl_simulator::component::runtime::InputSource::classify"
    EXPR = "veryl_simulator::ir::expression::Expression"
    if CL in w.fns and EXPR in w.adts:
        s10 = w.fns[CL]
        g = Fn(w.mir(CL))
        mg = MustFacts(g)
        var = [v for v in w.adts[EXPR]["variants"] if v["name"] == "Variable"]
        optional = [fl["name"] for fl in var[0]["fields"] if fl["ty"].startswith("core::option::Option<")] if var else []
        ck.floor("R10", "optional modifiers of Expression::Variable", len(optional), 2)
        n10 = 0
        for bi, b in enumerate(g.blocks):
            if b.get("cu"):
                continue
            for si, st in enumerate(b["s"]):
                if st[0] == "=" and st[2][0] == "agg" and isinstance(st[2][1], dict) and (st[2][1].get("adt") or "").endswith("runtime::InputSource") \
                        and (st[2][1].get("variant") or "").startswith("Direct"):
                    n10 += 1
                    S_ = mg.state_at(bi, si)
                    F = S_[0] if S_ else ()
                    for fld in optional:
                        ok = any(a[0] == "variant" and a[2] == "None" and any(q[0] == "f" and q[1] == fld for q in a[1][1]) for a in F)
                        ck.ob("R10", "direct-staging-requires-plain-variable:%s/%s" % (st[2][1]["variant"], fld), ok, site(s10, st[3]),
                              "InputSource::%s is chosen only where Expression::Variable.%s is None" % (st[2][1]["variant"], fld) if ok else
                              "InputSource::%s (a raw copy of the whole variable that bypasses Expression::eval) is chosen although the connection's %s "
                              "may be set: the component reads the wrong bits / element" % (st[2][1]["variant"], fld))
        ck.floor("R10", "direct InputSource constructions", n10, 2)
    else:
        ck.missing("R10", CL)
    # ---------------- R9 guest-side direct port writes keep payload, mask and dirty flag together --------------------
    n9 = 0
    for p9, s9 in sorted(w.fns.items()):
        if not p9.startswith("veryl_component::ctx::") or s9.get("alias_of") or "::tests::" in p9:
            continue
        raw = w.mir_raw(p9)
        if b"words_ptr" not in raw:
            continue
        g = Fn(w.mir(p9))

        def ptr_writes(field):
            out = []
            for bi, b in enumerate(g.blocks):
                if b.get("cu"):
                    continue
                for st in b["s"]:
                    if st[0] == "=" and "*" in st[1][1]:
                        r, pth = flow.access_path(g, ["c", [st[1][0], []]], extra_transparent=re.compile(r"(const_ptr|mut_ptr)::<impl \*(const|mut) T>::(add|offset)$"))
                        if field in pth:
                            out.append(bi)
                t = b["t"]
                if t["t"] == "call" and re.search(r"core::ptr::(copy_nonoverlapping|write_bytes|write)$|core::intrinsics::(copy_nonoverlapping|write_bytes)$", t.get("callee") or ""):
                    idx = 1 if "copy_nonoverlapping" in t["callee"] else 0
                    r, pth = flow.access_path(g, t["args"][idx], extra_transparent=re.compile(r"(const_ptr|mut_ptr)::<impl \*(const|mut) T>::(add|offset)$"))
                    if field in pth:
                        out.append(bi)
            return out
        ww = ptr_writes("words_ptr")
        if not ww:
            continue
        mw = ptr_writes("mask_ptr")
        dw = ptr_writes("dirty_ptr")
        for k, wb in enumerate(sorted(set(ww))):
            n9 += 1
            # a payload store is followed (or preceded in the same straight-line region) by a mask store and a dirty store on every path
            def covered(blocks):
                return wb in blocks or any(g.reaches(x, wb) and not flow.escapes(g, x, [wb]) for x in blocks) or not flow.escapes(g, wb, blocks)
            okm = bool(mw) and covered(mw)
            okd = bool(dw) and covered(dw)
            ck.ob("R9", "direct-write-sets-mask:%s@%d" % (p9.split("::")[-1], k + 1), okm, site(s9),
                  "a direct store of the payload word also stores the X/Z mask word" if okm else
                  "the payload word is stored through the port's direct pointer without storing the mask word: a port that was driven X/Z keeps its stale "
                  "mask, and the native transport diverges from the wasm one (which always writes a zero mask)")
            ck.ob("R9", "direct-write-sets-dirty:%s@%d" % (p9.split("::")[-1], k + 1), okd, site(s9), "a direct store of the payload word marks the port dirty")
    ck.floor("R9", "direct payload stores in veryl_component::ctx", n9, 2)
    ck.analysed = {"commit_callers": callers, "stage_callers": stage_callers, "fire_callers": fire_callers}
    _word_masks(ck, w)
    return ck.finish(info)


def _word_masks(ck, w):
    """R11: a mask `(1u64 << k) - 1` for the top word of a port is right for k in 1..63 only: k == 64 overflows the shift and k == 0
    (width % 64 for a width that fills its last word) gives the empty mask, which clears the word. Every `1 << k` in veryl_component
    must sit under a branch that compared k (with 64 or with 0), i.e. the full-word case is handled apart."""
    from mirlib import MustFacts, Sem
    n = 0
    for p, x in sorted(w.fns.items()):
        if not p.startswith("veryl_component::") or x.get("alias_of") or "::tests::" in p:
            continue
        if "mir" not in x and False:
            continue
        try:
            g = Fn(w.mir(p))
        except Exception:
            continue
        mf = sem = None
        for bi, b in enumerate(g.blocks):
            if b.get("cu"):
                continue
            for si, st in enumerate(b["s"]):
                if not (st[0] == "=" and st[2][0] == "bin" and st[2][1] in ("Shl", "ShlUnchecked") and st[2][2][0] == "k"
                        and isinstance(st[2][2][1], dict) and str(st[2][2][1].get("int")) == "1" and st[2][3][0] != "k"):
                    continue
                n += 1
                if mf is None:
                    mf, sem = MustFacts(g), Sem(g, 10)
                k = g.describe(st[2][3], 8)
                kk = repr(k)
                inner = [kk] + [repr(y) for y in (k[1:] if isinstance(k, tuple) else ()) if isinstance(y, tuple)]
                ok = False
                # a *branch* (switch) on a comparison of k that reaches the shift; the overflow assertion rustc inserts (`assert(k < 64)`)
                # is not a branch and does not count
                for sb, sblk in enumerate(g.blocks):
                    t = sblk["t"]
                    if t["t"] != "sw" or t["on"][0] == "k" or t["on"][1][1] or bi not in g.reach_from(sb):
                        continue
                    d = g.def_of(t["on"][1][0])
                    if not d or d[0] != "s":
                        continue
                    rv = g.rvalue_at(d)
                    if rv[0] != "bin" or rv[1] not in ("Lt", "Le", "Gt", "Ge", "Eq", "Ne"):
                        continue
                    sides = [repr(g.describe(o, 8)) if o[0] != "k" else repr(("const", o[1].get("int"))) for o in (rv[2], rv[3])]
                    consts = [o[1].get("int") for o in (rv[2], rv[3]) if o[0] == "k" and isinstance(o[1], dict)]
                    if not any(str(c) in ("0", "63", "64") for c in consts):
                        continue
                    if any(sd == c or sd in c or c in sd for sd in sides for c in inner if "const" not in sd[:9]):
                        ok = True
                ck.ob("R11", "word-mask-guarded:%s@%d" % (p.split("::")[-1], n), ok, site(x, st[3]),
                      "the mask `(1 << k) - 1` is built only under a comparison of k: the full-word case is handled apart" if ok else
                      "`1 << k` with no comparison of k on the way: for a width that fills its top word k is 0 (or 64) and the mask clears the "
                      "whole word (or the shift overflows) - a 128-bit port loses bits 64..127")
    ck.floor("R11", "`1 << k` masks in veryl_component", n, 1)

