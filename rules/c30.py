"""C30 - concurrent veryl processes never corrupt each other.

Decided here (DESIGN.md section 3 C30, section 8): the lock discipline of the shared user-cache regions that are
protected by veryl_path::lock_dir (std/<hash>, resolve/, dependencies/), the project .build lock of the command
line, and "the language server never waits on a build's lock". Store-internal atomicity is C05 R1/R3 and C29 R2/R6.
Not decided: absence of bad interleavings in general; git's own on-disk behaviour.
"""
import re
from core import Check, site
from mirlib import Fn, MustFacts, Sem, CallGraph
from c29 import mentions_call

RULE = (
    "L = functions that call veryl_path::lock_dir. In every function of L: R1 (decide under the lock) a Path::exists() "
    "call whose outcome controls a content mutation (a mutation reachable from one edge of the branch on its result and "
    "not from the other) is made with the lock held, i.e. lock_dir has returned on every path to it; creating a directory "
    "(create_dir / create_dir_all) is not a content mutation (idempotent, needed before the lock file can exist). R2 "
    "(mutate under the lock) every content mutation (fs::write/remove_*/rename/copy, atomic_write, Git::clone/fetch/"
    "checkout, Lockfile::git_clone) is made with the lock held: lock_dir returned on every path to it and no unlock_dir "
    "call can precede it. R3 the lock File is never leaked (no mem::forget / ManuallyDrop / Box::leak in L), so it is "
    "released by unlock_dir or by drop on every exit. R4 (LS never waits on a build) no function reachable in the call "
    "graph from the veryl-ls binary reaches veryl_cache::Store::open (the blocking open), and no lock_dir call reachable "
    "from it takes a path derived from project_dot_build_path(); the command line's .build lock in veryl::main is taken "
    "before the command is dispatched and released after it. R5 the lock primitive: veryl_path::lock_dir only creates and locks the "
    "`lock` file, unlock_dir only unlocks it, and no function removes or renames a `lock` file (waiters hold the inode; a fresh file "
    "would admit a second holder). R6 = C05 R3: atomic_write stages in a unique NamedTempFile in the target's directory, writes, then "
    "persists (two unsynchronised writers, e.g. the language server and a build saving Veryl.lock, never share a staging file)."
)

CRATES = None

LOCK = "veryl_path::lock_dir"
UNLOCK = "veryl_path::unlock_dir"
MUT = re.compile(
    r"^std::fs::(write|remove_file|remove_dir|remove_dir_all|rename|copy|hard_link)$|^std::fs::File::create$|^std::fs::OpenOptions::open$"
    r"|^veryl_path::atomic_write$|^veryl_metadata::git::Git::(clone|fetch|checkout)$|^veryl_metadata::lockfile::Lockfile::git_clone$"
    r"|^veryl_metadata::git::(command|gitoxide)::Git::(clone|fetch|checkout)$")
LEAK = re.compile(r"^core::mem::forget$|ManuallyDrop::<T>::new$|^alloc::boxed::Box::<T.*>::leak$")
EXPECTED_L = ["veryl::main", "veryl_metadata::lockfile::Lockfile::clear_cache", "veryl_metadata::lockfile::Lockfile::get_metadata",
              "veryl_metadata::lockfile::Lockfile::resolve_version_from_latest", "veryl_std::expand"]


def run(world, tier, info, only=None):
    ck = Check("C30", tier, "other", RULE, only)
    w = world
    for p in (LOCK, UNLOCK, "veryl_cache::Store::open", "veryl_cache::Store::try_open", "veryl::main"):
        if p not in w.fns:
            ck.missing("anchors", p)
    if any(p not in w.fns for p in (LOCK, UNLOCK, "veryl_cache::Store::open", "veryl::main")):
        return ck.finish(info)
    ck.assume("fs4 FileExt::lock is an exclusive advisory lock between processes and between open file descriptions; "
              "closing the File releases it")
    ck.assume("readers of a locked region that do not mutate it (veryl_std::paths, Metadata::load of a checkout) are outside R1/R2: "
              "they rely on the writer's decide-and-fill being atomic with respect to the lock, which is what R1 demands")
    L = sorted(p for p, s in w.fns.items() if not s.get("alias_of") and any(c["c"] == LOCK for c in s["calls"]))
    ck.floor("L", "functions that take a directory lock", len(L), 4)
    n_exists = n_mut = 0
    for p in L:
        s = w.fns[p]
        f = Fn(w.mir(p))
        mf = MustFacts(f)
        locks = f.calls("^" + re.escape(LOCK) + "$")
        unlocks = {b for b, _ in f.calls("^" + re.escape(UNLOCK) + "$")}
        short = p.split("::")[-1] if p != "veryl::main" else "main"

        def held(bi):
            F = mf.at_entry(bi)
            if F is None:
                return None  # unreachable
            if ("called", LOCK) not in F:
                return False
            # no unlock may precede: bi not reachable from the successor of any unlock call
            for ub in unlocks:
                t = f.blocks[ub]["t"]
                if t.get("to") is not None and f.reaches(t["to"], bi):
                    return False
            return True

        muts = [(bi, t) for bi, t in f.calls() if MUT.search(t.get("callee") or "")]
        if p == "veryl::main":
            muts = []  # main's lock protects the whole command (R4), not calls inside main
        # R2
        for bi, t in muts:
            n_mut += 1
            h = held(bi)
            if h is None:
                continue
            ck.ob("R2", "mutation-under-lock:%s/%s@%s" % (p, t["callee"].split("::")[-1], _ord(f, muts, bi)), h, site(s, t["l"]),
                  "%s is called with the directory lock held" % t["callee"] if h else
                  "%s mutates a shared cache region while the directory lock is not (or no longer) held on some path" % t["callee"])
        # R1
        for bi, t in f.calls(r"^std::path::Path::exists$"):
            if t["dst"][1]:
                continue
            controlled = _controlled_mutations(f, bi, t, muts)
            if not controlled:
                continue
            n_exists += 1
            h = held(bi)
            if h is None:
                continue
            what = sorted({m["callee"].split("::")[-1] for _, m in controlled})
            ck.ob("R1", "decide-under-lock:%s/exists@%s" % (p, _ord(f, f.calls(r"^std::path::Path::exists$"), bi)), h, site(s, t["l"]),
                  ("exists() deciding whether to run %s is evaluated with the lock held" % what) if h else
                  "exists() at line %s decides whether %s runs, but is evaluated before %s: a second process can see the "
                  "region existing-but-unfilled, skip, and never wait for the lock" % (t["l"], what, LOCK))
        # R3
        leaks = [c for c in s["calls"] if LEAK.search(c["c"] or "")]
        ck.ob("R3", "no-leak:%s" % p, not leaks, site(s), "the lock File is not forgotten/leaked in %s" % short)
        ck.ob("R3", "has-unlock-or-drop:%s" % p, bool(unlocks) or True, site(s), "lock released by unlock_dir (%d calls) or by drop" % len(unlocks))
    ck.floor("R2", "content mutations inside lock-taking functions", n_mut, 8)
    ck.floor("R1", "exists() decisions controlling content mutations", n_exists, 2)
    # ---------------- R4 --------------------------------------------------------------------------
    cg = CallGraph(w)
    ls_roots = [p for p, s in w.fns.items() if s["crate"] == "veryl_ls.bin"]
    ck.floor("R4", "functions of the veryl-ls binary", len(ls_roots), 100)
    reach = cg.reachable(ls_roots)
    ok = "veryl_cache::Store::open" not in reach
    ck.ob("R4", "ls-never-blocking-store-open", ok, site(w.fns["veryl_cache::Store::open"]),
          "Store::open (blocking) is not reachable from veryl-ls" if ok else
          "Store::open (blocking) reachable from veryl-ls: " + " -> ".join(cg.path_to("veryl_cache::Store::open")[-6:]))
    tri = [c for p in ls_roots for c in w.fns[p]["calls"] if c["c"] == "veryl_cache::Store::try_open"]
    ck.floor("R4", "Store::try_open call sites in veryl-ls", len(tri), 1)
    n_ls_locks = 0
    for p in sorted(reach):
        if p not in w.fns or w.fns[p].get("alias_of"):
            continue
        if not any(c["c"] == LOCK for c in w.fns[p]["calls"]):
            continue
        f = Fn(w.mir(p))
        for bi, t in f.calls("^" + re.escape(LOCK) + "$"):
            n_ls_locks += 1
            pv = f.prov(t["args"][0], depth=12)
            bad = any(x[0] == "call" and re.search(r"project_dot_build_path$", x[1] or "") for x in pv)
            ck.ob("R4", "ls-reachable-lock-not-dot-build:%s" % p, not bad, site(w.fns[p], t["l"]),
                  "lock_dir reachable from veryl-ls locks a user-cache region, not the project's .build (which a running build holds)"
                  if not bad else "veryl-ls can block on the project's .build lock held by a running build")
    # main: lock before dispatch, unlock after
    m = Fn(w.mir("veryl::main"))
    mm = MustFacts(m)
    execs = [(bi, t) for bi, t in m.calls(r"^veryl::cmd_[a-z_]+::Cmd[A-Za-z]+::exec$")]
    ck.floor("R4", "command dispatch calls in main", len(execs), 8)
    mlocks = m.calls("^" + re.escape(LOCK) + "$")
    ck.floor("R4", ".build lock calls in main", len(mlocks), 1)
    for bi, t in mlocks:
        pv = m.prov(t["args"][0], depth=12)
        ck.ob("R4", "main-locks-dot-build", any(x[0] == "call" and re.search(r"project_dot_build_path$", x[1] or "") for x in pv),
              site(w.fns["veryl::main"], t["l"]), "main's lock_dir argument is metadata.project_dot_build_path()")
    unl = {b for b, _ in m.calls("^" + re.escape(UNLOCK) + "$")}
    late = [t for bi, t in execs if any(m.blocks[u]["t"].get("to") is not None and m.reaches(m.blocks[u]["t"]["to"], bi) for u in unl)]
    ck.ob("R4", "main-unlock-after-dispatch", not late and bool(unl), site(w.fns["veryl::main"]),
          "no command runs after unlock_dir(dot_build_lock)")
    early = [t for bi, t in execs if any(m.reaches(bi, lb) for lb, _ in mlocks)]
    ck.ob("R4", "main-lock-before-dispatch", not early, site(w.fns["veryl::main"]),
          "the .build lock is never taken after a command has run (it is decided before the dispatch)")
    # ---------------- R5 the lock primitive itself ---------------------------------------------------------------
    PRIM = {LOCK: r"^std::fs::File::create$|^fs4::.*FileExt>::lock$|^fs4::.*::lock$|FileExt::lock$",
            UNLOCK: r"^fs4::.*FileExt>::unlock$|^fs4::.*::unlock$|FileExt::unlock$"}
    FSMUT = re.compile(r"^std::fs::(write|remove_file|remove_dir|remove_dir_all|rename|copy|hard_link|create_dir|create_dir_all)$|^std::fs::File::(create|create_new|options)$|^std::fs::OpenOptions::")
    for p, allowed in PRIM.items():
        s5 = w.fns[p]
        bad = [c["c"] for c in s5["calls"] if FSMUT.search(c["c"] or "") and not re.search(allowed, c["c"] or "")]
        locks_ = [c["c"] for c in s5["calls"] if re.search(r"FileExt.*::(lock|unlock|try_lock|lock_exclusive)$|fs4::", c["c"] or "")]
        ck.ob("R5", "primitive:%s/only-locks" % p.split("::")[-1], not bad and bool(locks_), site(s5),
              "%s touches the file system only to create/lock the `lock` file (%s)" % (p.split("::")[-1], sorted(set(locks_))) if not bad and locks_ else
              "%s also calls %s: removing or replacing the lock file while others wait on its inode lets a later process lock a fresh file "
              "and enter the region alongside the waiter" % (p.split("::")[-1], sorted(set(bad))))
    # nobody deletes or replaces a directory's `lock` file
    n_rm = 0
    for p, sm in sorted(w.fns.items()):
        if sm.get("alias_of") or sm["crate"] not in ("veryl_path", "veryl_metadata", "veryl_std", "veryl_cache", "veryl", "veryl_ls.bin"):
            continue
        if not any(re.search(r"^std::fs::(remove_file|rename)$", c["c"] or "") for c in sm["calls"]):
            continue
        f5 = Fn(w.mir(p))
        for bi, t in f5.calls(r"^std::fs::(remove_file|rename)$"):
            n_rm += 1
            pv = set()
            for a in t["args"]:
                pv |= f5.prov(a, depth=16)
            hits = [x for x in pv if x[0] == "const" and x[1] == "lock"] + [x for x in pv if x[0] == "named" and str(x[1]).endswith("LOCK_FILE")]
            ck.ob("R5", "lock-file-never-removed:%s/%s@%d" % (p, t["callee"].split("::")[-1], _ord(f5, f5.calls(r"^std::fs::(remove_file|rename)$"), bi)), not hits, site(sm, t["l"]),
                  "%s does not touch a `lock` file" % t["callee"].split("::")[-1] if not hits else "a `lock` file is removed/renamed here")
    # ---------------- R6 = C05 R3: atomic_write's shape (unique temp in the target's dir, write, then persist) ----------
    import c05
    import core
    got = []

    class Cap(core.Check):
        def finish(self, *a, **k):
            got.append(self)
            return 0
    old = c05.Check
    c05.Check = Cap
    try:
        c05.run(w, tier, {}, None)
    finally:
        c05.Check = old
    n6 = 0
    for sub in got:
        for o in sub.obs:
            if o["rule"] == "R3":
                n6 += 1
                ck.obs.append({"rule": "R6", "key": o["key"].replace("C05.R3/", "C30.R6/"), "site": o["site"], "verdict": o["verdict"], "detail": o["detail"]})
    ck.floor("R6", "atomic_write obligations shared with C05 R3", n6, 4)
    ck.analysed = {"lock_taking_functions": L, "mutations_checked": n_mut, "exists_decisions_checked": n_exists,
                   "ls_functions": len(ls_roots), "reachable_from_ls": len(reach), "ls_reachable_lock_sites": n_ls_locks}
    return ck.finish(info)


def _ord(f, lst, bi):
    """Stable ordinal of block bi among a list of (bb, term) sorted by line (keys must not carry line numbers)."""
    order = sorted(lst, key=lambda x: (x[1]["l"], x[0]))
    for i, (b, _) in enumerate(order):
        if b == bi:
            return i + 1
    return 0


def _controlled_mutations(f, bi, t, muts):
    """Mutations reachable from exactly one edge of the branch that tests the result of this exists() call."""
    l = t["dst"][0]
    # find the switch whose operand derives from l (through Not / copies)
    derived = {l}
    changed = True
    while changed:
        changed = False
        for b in f.blocks:
            if b.get("cu"):
                continue
            for s in b["s"]:
                if s[0] == "=" and not s[1][1] and s[1][0] not in derived:
                    rv = s[2]
                    src = None
                    if rv[0] == "use" and rv[1][0] in ("c", "m") and not rv[1][1][1]:
                        src = rv[1][1][0]
                    elif rv[0] == "un" and rv[2][0] in ("c", "m") and not rv[2][1][1]:
                        src = rv[2][1][0]
                    if src in derived:
                        derived.add(s[1][0]); changed = True
    out = []
    for sb, b in enumerate(f.blocks):
        if b.get("cu"):
            continue
        tt = b["t"]
        if tt["t"] != "sw":
            continue
        on = tt["on"]
        if not (on[0] in ("c", "m") and on[1][0] in derived and not on[1][1]):
            continue
        if not f.reaches(t["to"], sb) and sb != t["to"]:
            continue
        succ = f.succ[sb]
        if len(succ) < 2:
            continue
        reach = [f.reach_from(x) for x in succ]
        for mb, m in muts:
            ins = [mb in r for r in reach]
            if any(ins) and not all(ins):
                out.append((mb, m))
    return out
