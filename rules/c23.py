"""C23 - `veryl migrate` keeps every token and comment except the for-loop index type annotation.

Decided (structural necessary conditions, DESIGN.md section 8.4p): the previous-grammar walker reaches every child of every node in
source order; the Migrator overrides nothing but the token sink and for_statement; the sink writes each token's own text and all of
its comments, spaced by character columns; cmd_migrate writes a file only after the current parser accepted the migrated text and only
for files the current parser rejects (or Migrator::migratable selects). Not decided: that the previous grammar (veryl.par) and its
generated parser accept exactly the previous language, and that the formatter run on the migrated text keeps its tokens (property C09).
"""
import re
from core import Check, site
from mirlib import Fn
import flow
import walk

RULE = (
    "veryl_migrator / veryl::cmd_migrate. R1 every provided method of the previous-grammar VerylWalker visits every child of its node "
    "(fields of the generated ADT, through its auxiliary Opt/List/Group ADTs down to the first ADT with a method of its own, VerylToken "
    "fields through veryl_token) with the child's own method, on every path of the child's presence context (function / Some arm / loop "
    "iteration / variant arm), in declaration (= source) order; the only children never visited are ForStatement.colon and "
    "ForStatement.scalar_type. R2 the Migrator's VerylWalker impl overrides exactly veryl_token and for_statement, and its for_statement "
    "passes the same check with the same two exceptions, and the two dropped children are visited by a comment-collecting walker (overriding "
    "only veryl_token, keeping every comment) whose harvest is pushed token by token. R3 the token sink: veryl_token hands the token to Migrator::token, which pushes "
    "the token and then every comment of x.comments (no adapter, no early exit); push_token appends the interned text of x.text on every "
    "path, everything else it appends is self.newline or a run of blanks, no byte length flows into self.column (Token.column counts "
    "characters), and the column is advanced relatively by a text's character count only where the text's newline count is known to be zero; every generated "
    "token type with a `comments` field is converted by an impl that splits and keeps them; COMMENT_REGEX matches whole every comment the "
    "scanner's CommentsTerm (veryl.par) accepts (exhaustive comparison on all strings up to length 7 over the five characters the patterns distinguish). R4 cmd_migrate: the write of path.src is reached only after veryl_parser::Parser::parse accepted migrator.as_str() "
    "(not over the `?` error edge), only where `migrate` is true, and `migrate` is true only on the Err arm of parsing the input with the "
    "current parser or where Migrator::migratable says so; the text formatted and written is that same migrator's output."
)

CRATES = ["veryl_migrator", "veryl"]
GEN = "veryl_migrator::generated::veryl_grammar_trait::"
TRAIT = "veryl_migrator::veryl_walker::VerylWalker::"
MIG = "veryl_migrator::migrator::Migrator"
IMPL = "<" + MIG + " as veryl_migrator::veryl_walker::VerylWalker>::"
DROPPED = {"ForStatement": [("colon",), ("scalar_type",)]}
N_METHODS = 312        # counted on the pinned tree: walker methods with a node ADT
EXEC = "veryl::cmd_migrate::CmdMigrate::exec"


def run(world, tier, info, only=None):
    ck = Check("C23", tier, "other", RULE, only)
    w = world
    for p in (MIG + "::push_token", MIG + "::token", IMPL + "veryl_token", IMPL + "for_statement", EXEC):
        if p not in w.fns:
            ck.missing("anchors", p)
    if any(o["verdict"] == "violation" for o in ck.obs):
        return ck.finish(info)
    ck.assume("the generated previous-grammar parser builds, for every accepted text, the tree described by the generated ADTs with every token in it (parol)")
    ck.assume("the formatter run by cmd_migrate on the migrated text keeps its token sequence (property C09, not decided here)")
    gr = walk.Grammar(w, GEN, TRAIT)
    # ---------------- R1 default walker -----------------------------------------------------------------------
    n = 0
    for m, a in sorted(gr.node_of.items()):
        walk.check_method(ck, "R1", gr, gr.methods[m], a, "walker/" + m, allow_missing=DROPPED.get(a, ()))
        n += 1
    ck.floor("R1", "walker methods with a node", n, N_METHODS)
    nodes = [a for a in gr.adts if walk.snake(a) not in gr.methods and not re.search(r"(Opt\d*|List\d*|Group\d*|Item)$", a)]
    aux_reach = set()
    for m, a in gr.node_of.items():
        for ch, child, ctx in gr.leaves(a):
            pass
    # ---------------- R2 overrides ----------------------------------------------------------------------------
    ov = sorted(p[len(IMPL):] for p in w.fns if p.startswith(IMPL) and "{" not in p)
    ck.ob("R2", "overrides", ov == ["for_statement", "veryl_token"], site(w.fns[IMPL + "for_statement"]),
          "the Migrator overrides exactly for_statement and veryl_token (found %s)" % ov)
    for m in ov:
        if m in gr.node_of:
            walk.check_method(ck, "R2", gr, IMPL + m, gr.node_of[m], "migrator/" + m, allow_missing=DROPPED.get(gr.node_of[m], ()))
    # the children that are dropped keep their comments: a comment-collecting walker visits them and what it gathered is pushed
    p_fs = IMPL + "for_statement"
    mw = walk.MethodWalk(gr, p_fs)
    gfs = mw.g
    coll_types = set()
    sig = []
    for chain in DROPPED["ForStatement"]:
        vs = [v for v in mw.visits if v[3] == tuple(chain) and v[1] == "method"]
        recv_ok = []
        for bi, kind, name, ch, t in vs:
            a0 = t["args"][0]
            ty = gfs.ty(a0[1][0]) if a0[0] != "k" else ""
            ty = re.sub(r"^&(mut )?", "", ty)
            if ty.startswith("veryl_migrator::") and ty != MIG:
                recv_ok.append(bi)
                coll_types.add(ty)
        if not recv_ok or mw.skip_path(0, recv_ok, set(), []) is not None:
            sig.append("dropped-comments:" + ".".join(chain))
    pushes_coll = False
    for h, lp in mw.loops.items():
        r, pth = lp["root"], lp["path"]
        rl = r[1] if r[0] == "arg" else None
        # a loop over a field of the collector local, each iteration pushing the item through push_token
        ty_ok = any(ct.split("::")[-1] in gfs.ty(l) for ct in coll_types for l in range(len(gfs.locals))) if coll_types else False
        pt = [bi for bi, t in gfs.calls("^" + re.escape(MIG + "::push_token") + "$") if bi in gfs.reach_from(lp["some"], avoid=[h]) and
              flow.access_path(gfs, t["args"][1])[0][:1] == ("call",) and flow.access_path(gfs, t["args"][1])[0][2] == h]
        if ty_ok and pt and not flow.escapes(gfs, lp["some"], pt, stops=[h]) and not lp["adapters"]:
            pushes_coll = True
    if not pushes_coll and not sig:
        sig.append("dropped-comments:not-pushed")
    ck.ob("R2", "migrator/for_statement" + ("[%s]" % "+".join(sorted(sig)) if sig else "/dropped-children-keep-comments"), not sig and pushes_coll, site(w.fns[p_fs]),
          "the comments of the removed `: Type` are gathered by a comment-collecting walker over colon and scalar_type and every one of them is pushed" if not sig and pushes_coll else
          "the for-loop index type is removed together with the comments attached to its tokens (%s)" % sig)
    for ct in sorted(coll_types):
        ov_c = sorted(q.split(">::")[-1] for q in w.fns if q.startswith("<" + ct + " as veryl_migrator::veryl_walker::VerylWalker>::") and "{" not in q)
        okc = ov_c == ["veryl_token"]
        if okc:
            gq = Fn(w.mir("<" + ct + " as veryl_migrator::veryl_walker::VerylWalker>::veryl_token"))
            lps = [(h, some) for h, t, some, none, item in flow.loops_over(gq) if flow.access_path(gq, t["args"][0])[1][-1:] == ("comments",)]
            ps = [bi for bi, t in gq.calls(r"^alloc::vec::Vec::<T, A>::push$")]
            okc = len(lps) == 1 and bool(ps) and not flow.escapes(gq, lps[0][1], ps, stops=[lps[0][0]])
        ck.ob("R2", "comment-collector/%s" % ct.split("::")[-1], okc, site(w.fns[p_fs]),
              "%s overrides only veryl_token and keeps every comment of every token it is shown" % ct.split("::")[-1])
    # ---------------- R3 token sink ---------------------------------------------------------------------------
    g = Fn(w.mir(IMPL + "veryl_token"))
    tk = [(bi, t) for bi, t in g.calls("^" + re.escape(MIG + "::token") + "$")]
    ok = bool(tk) and all(flow.access_path(g, t["args"][1])[0] == ("arg", 2) and flow.access_path(g, t["args"][1])[1] == () for bi, t in tk) \
        and not flow.escapes(g, 0, [bi for bi, t in tk])
    ck.ob("R3", "veryl_token/sink", ok, site(w.fns[IMPL + "veryl_token"]), "veryl_token passes its token to Migrator::token on every path")
    s = w.fns[MIG + "::token"]
    g = Fn(w.mir(MIG + "::token"))
    an = {g.name(i): i for i in range(1, g.nargs + 1)}
    ax = an.get("x", 2)
    pt = g.calls("^" + re.escape(MIG + "::push_token") + "$")
    own = [bi for bi, t in pt if flow.access_path(g, t["args"][1]) == (("arg", ax), ("token",))]
    ck.ob("R3", "token/pushes-token", bool(own) and not flow.escapes(g, 0, own), site(s), "Migrator::token pushes x.token on every path")
    lp = []
    for head, t, some, none, item in flow.loops_over(g):
        ad = []
        r, pth = flow.access_path(g, t["args"][0], adapters=ad)
        if r == ("arg", ax) and pth == ("comments",):
            lp.append((head, some, ad))
    if len(lp) != 1:
        ck.ob("R3", "token/comments-loop", False, site(s), "expected one loop over x.comments, found %d" % len(lp))
    else:
        head, some, ad = lp[0]
        ck.ob("R3", "token/all-comments", not ad, site(s), "the loop visits every comment (adapters %s)" % ad)
        cm = [bi for bi, t in pt if flow.access_path(g, t["args"][1])[0][:1] == ("call",) and flow.access_path(g, t["args"][1])[0][2] == head]
        esc = flow.escapes(g, some, cm, stops=[head])
        ck.ob("R3", "token/pushes-every-comment", bool(cm) and not esc, site(s), "every iteration pushes its comment and the loop has no early exit")
        ck.ob("R3", "token/token-before-comments", bool(own) and all(head in g.reach_from(b) for b in own) and not any(b in g.reach_from(some) for b in own), site(s),
              "the token is pushed before its comments")
    s = w.fns[MIG + "::push_token"]
    g = Fn(w.mir(MIG + "::push_token"))
    an = {g.name(i): i for i in range(1, g.nargs + 1)}
    ax = an.get("x", 2)
    strs = g.calls("^" + re.escape(MIG + "::str") + "$")
    kinds = {}
    for bi, t in strs:
        k = None
        for r, pth in flow.access_paths(g, t["args"][1]):
            if r[0] == "call" and (r[1] or "").endswith("resource_table::get_str_value"):
                src = flow.access_path(g, g.blocks[r[2]]["t"]["args"][0])
                k = "text" if src == (("arg", ax), ("text",)) else "other-text"
            elif r == ("arg", 1) and pth == ("newline",):
                k = "newline"
            elif r[0] == "call" and re.search(r"str>::repeat$|impl str>::repeat$", r[1] or ""):
                rep = g.blocks[r[2]]["t"]["args"][0]
                d = g.describe(rep, depth=6)
                k = "blanks" if re.search(r"'\s+'|\" +\"|const.*' '", repr(d)) or " " in repr(d) else "repeat-other"
        kinds[bi] = k
    text = [bi for bi, k in kinds.items() if k == "text"]
    ck.ob("R3", "push_token/appends-own-text", bool(text) and not flow.escapes(g, 0, text), site(s),
          "push_token appends the interned text of x.text on every path")
    odd = sorted((g.blocks[bi]["t"]["l"], k) for bi, k in kinds.items() if k not in ("text", "newline", "blanks"))
    ck.ob("R3", "push_token/only-spacing-besides", not odd, site(s), "everything else push_token appends is self.newline or blanks (other: %s)" % odd)
    # the text is appended after the spacing
    sp = [bi for bi, k in kinds.items() if k in ("newline", "blanks")]
    ck.ob("R3", "push_token/spacing-before-text", all(not any(b in g.reach_from(g.blocks[tb]["t"]["to"]) for b in sp) for tb in text), site(s),
          "newlines and blanks are written before the token's text")
    ncol = 0
    # the cursor may be maintained in push_token itself or in private helpers of the Migrator (move_to / advance ...)
    for q, sq in sorted(w.fns.items()):
        if not q.startswith(MIG + "::") or sq.get("alias_of") or "{" in q[len(MIG):]:
            continue
        gq = Fn(w.mir(q))
        k = 0
        for bi, si, st in flow.field_writes(gq, r"migrator::Migrator$", "column"):
            ncol += 1
            k += 1
            rv = st[2]
            ops = [o for o in rv[1:] if isinstance(o, list) and o and o[0] in ("c", "m", "k")]
            srcs = set()
            for o in ops:
                srcs |= gq.prov(o, depth=16)
            lens = sorted({x[1] for x in srcs if x[0] == "call" and re.search(r"(str>|String|impl str>)::len$", x[1] or "")})
            ck.ob("R3", "column-in-chars:%s@%d" % (q.split("::")[-1], k), not lens, site(sq, st[3]),
                  "self.column advances by a character count" if not lens else
                  "self.column receives a byte length (%s) while Token.column counts characters: after multi-byte text the gap to the next token "
                  "saturates to 0 and tokens are written glued together" % lens)
    ck.floor("R3", "writes to Migrator.column", ncol, 2)
    import c28
    nrel = 0
    for q, sq in sorted(w.fns.items()):
        if q.startswith(MIG + "::") and not sq.get("alias_of") and "{" not in q[len(MIG):]:
            nrel += c28.relative_advance_guarded(ck, "R3", w, q, r"migrator::Migrator$", "column", q.split("::")[-1])
    ck.floor("R3", "relative text advances of Migrator.column", nrel, 1)
    ntk = walk.token_conversion_obligations(ck, "R3", w, "veryl_migrator")
    ck.floor("R3", "previous-grammar tokens that may carry comments", ntk, 120)
    import rxagree
    import os
    rxagree.check(ck, "R3", w, "veryl_migrator", "migrator", os.environ.get("VERIF_REPO", "/repo"))
    # ---------------- R4 cmd_migrate --------------------------------------------------------------------------
    s = w.fns[EXEC]
    g = Fn(w.mir(EXEC))
    heads = [h for h, t, some, none, item in flow.loops_over(g)]
    wr = g.calls(r"^veryl::utils::write_(file|output)_if_changed$")
    ck.floor("R4", "writes in cmd_migrate", len(wr), 1)
    newp = g.calls(r"^veryl_parser::parser::Parser::parse$")
    mig_str = {bi for bi, t in g.calls("^" + re.escape(MIG + "::as_str") + "$")}

    def from_migrator(op):
        return any(r[0] == "call" and (r[2] in mig_str or (r[1] or "") == MIG + "::new") for r, p in flow.access_paths(g, op))
    p_in = [(bi, t) for bi, t in newp if not from_migrator(t["args"][0])]
    p_out = [(bi, t) for bi, t in newp if from_migrator(t["args"][0])]
    ck.ob("R4", "parses", len(p_in) == 1 and len(p_out) == 1, site(s), "the input and the migrated text are each parsed once with the current parser (%d, %d)" % (len(p_in), len(p_out)))
    if len(p_in) == 1 and len(p_out) == 1:
        pb, ptm = p_out[0]
        # the `?` after the second parse: its Break edge leaves the function
        br = g.blocks[ptm["to"]]["t"]
        brk = None
        if br["t"] == "call" and (br.get("callee") or "").endswith("Try>::branch"):
            sw = g.blocks[br["to"]]["t"]
            if sw["t"] == "sw":
                for v, tgt, vn in sw["vals"]:
                    if vn == "Break":
                        brk = tgt
                if brk is None and [vn for v, tgt, vn in sw["vals"]] == ["Continue"]:
                    brk = sw["else"]
        for k, (bi, t) in enumerate(wr):
            ok = bi not in g.reach_from(0, avoid=[pb]) and brk is not None and bi not in g.reach_from(brk, avoid=heads)
            ck.ob("R4", "write-after-accepted-parse@%d" % (k + 1), ok, site(s, t["l"]),
                  "the file is written only after the current parser accepted the migrated text" if ok else
                  "the file can be overwritten without the current parser having accepted the migrated text")
            okt = any(r[0] == "call" and re.search(r"formatter::Formatter::(as_str|new)$", r[1] or "") for r, p in flow.access_paths(g, t["args"][1], extra_transparent=re.compile(r"as_bytes$")))
            fm = g.calls(r"^veryl_formatter::formatter::Formatter::format$")
            okf = bool(fm) and all(from_migrator(tt["args"][2]) for _, tt in fm)
            ck.ob("R4", "writes-the-migrated-text@%d" % (k + 1), okt and okf, site(s, t["l"]), "what is written is the formatter's rendering of migrator.as_str()")
        # migrate flag
        ml = [l for l in range(len(g.locals)) if g.name(l) == "migrate"]
        if len(ml) != 1:
            ck.ob("R4", "migrate-flag", None, site(s), "local `migrate` not found")
        else:
            ml = ml[0]
            def is_flag(op):
                l = op[1][0]
                for _ in range(6):
                    if l == ml:
                        return True
                    d = g.def_of(l)
                    if d is None or d[0] != "s":
                        return False
                    rv = g.rvalue_at(d)
                    if rv[0] == "use" and rv[1][0] != "k" and not rv[1][1][1]:
                        l = rv[1][1][0]
                    else:
                        return False
                return False
            sws = [(bi, b["t"]) for bi, b in enumerate(g.blocks) if not b.get("cu") and b["t"]["t"] == "sw" and b["t"]["on"][0] != "k" and is_flag(b["t"]["on"])]
            false_t = [t["vals"][0][1] for bi, t in sws if t["vals"] and t["vals"][0][0] == "0"]
            ok = bool(false_t) and all(bi not in g.reach_from(f, avoid=heads) for f in false_t for bi, _ in wr)
            ck.ob("R4", "write-only-if-migrate", ok, site(s), "the write is not reachable in the iteration where `migrate` is false")
            # definitions of migrate
            ib, it = p_in[0]
            okarm = errarm = None
            for bb, tt in flow.enum_switches(g, r"core::result::Result$"):
                if tt.get("of") and tt["of"][0] == it["dst"][0]:
                    for v, tgt, vn in tt["vals"]:
                        if vn == "Ok":
                            okarm = tgt
                        if vn == "Err":
                            errarm = tgt
                    if errarm is None and okarm is not None:
                        errarm = tt["else"]
                    if okarm is None and errarm is not None:
                        okarm = tt["else"]
            bad = []
            ndef = 0
            for d in g.defs.get(ml, []):
                ndef += 1
                if d[0] == "s":
                    rv = g.rvalue_at(d)
                    const_true = rv[0] == "use" and rv[1][0] == "k" and rv[1][1].get("int") == "1"
                    if const_true:
                        if okarm is None or d[1] in g.reach_from(okarm, avoid=heads + ([errarm] if errarm is not None else [])):
                            bad.append("set to true where the current parser accepted the input (line %s)" % g.blocks[d[1]]["s"][d[2]][3])
                    elif not (rv[0] == "use" and rv[1][0] != "k" and any(x[0] == "call" and (x[1] or "").endswith("Migrator::migratable") for x in g.prov(rv[1], depth=6))):
                        bad.append("assigned from something else than Migrator::migratable (line %s)" % g.blocks[d[1]]["s"][d[2]][3])
                else:
                    c = g.blocks[d[1]]["t"].get("callee") or ""
                    if not c.endswith("Migrator::migratable"):
                        bad.append("assigned from %s" % c)
            ck.ob("R4", "migrate-only-if-rejected-or-migratable", ndef >= 2 and not bad, site(s),
                  "`migrate` is true only where the current parser rejected the input, or Migrator::migratable selects it" if ndef >= 2 and not bad else
                  "a file the current parser accepts can be rewritten: %s" % (bad or "definitions of `migrate` not recognised"))
    ck.analysed = {"walker_methods": n, "overrides": ov, "dropped_children": {k: [".".join(x) for x in v] for k, v in DROPPED.items()}}
    return ck.finish(info)
