"""C25 - filelists are complete, dependency-ordered and collision-free.

Decided (DESIGN.md section 3 C25, section 8): the at-most-once structure and deterministic order of
CmdBuild::sort_filelist, and injectivity of the source -> output path maps by construction. Not decided: completeness of
the list and the dependency order for all projects (type_dag contents are run-time).
"""
import re
from core import Check, site
from mirlib import Fn, MustFacts, Sem, place_key
import flow

RULE = (
    "R1 at most once: every PathSet pushed into sort_filelist's result is taken out of a map keyed by source path by a linear "
    "extraction (HashMap::remove or into_values), the maps are filled only by insert of values extracted from the previous map "
    "(table -> used_paths -> result), so no file can be pushed twice. R2 order: the first segment is pushed while iterating "
    "type_dag::toposort() in order, the remainder is sorted by its source path before it is appended, and nothing is pushed after "
    "that. R3 injective output paths: in Metadata::paths (and Lockfile::paths, veryl_std::paths) each definition of PathSet.dst / .map "
    "derives from the source path only through injective steps (join under a fixed prefix, with_extension, strip_prefix of a base that "
    "is fixed for the whole call); a lossy step (file_name / file_stem) or a strip_prefix whose base changes inside the loop over "
    "source directories needs a collision check (a set insert of the produced path whose failure is an error) before the PathSet is "
    "returned. R4 the arguments of gen_filelist / check_bundle / sort_filelist in CmdBuild::exec carry nothing that was built inside the loop "
    "over this run's contexts (files restored from the incremental cache have none). R5 every file_scope_import* list of CreateSymbolTable "
    "flows into the import list of the TypeDagCandidate built in pop_type_dag_cand (the type DAG orders the filelist)."
)

CRATES = ["veryl", "veryl_metadata", "veryl_std", "veryl_path", "veryl_analyzer"]
SF = "veryl::cmd_build::CmdBuild::sort_filelist"
MP = "veryl_metadata::metadata::Metadata::paths"
LINEAR = re.compile(r"HashMap::<K, V, S, A>::(remove|into_values|remove_entry|drain)$|BTreeMap::<K, V, A>::(remove|into_values|pop_first|pop_last)$")
NONLINEAR = re.compile(r"HashMap::<K, V, S, A>::(get|get_mut|values|iter|values_mut|iter_mut|get_key_value)$|BTreeMap::<K, V, A>::(get|values|iter)$|core::slice::<impl \[T\]>::iter$")
LOSSY = re.compile(r"std::path::Path::(file_name|file_stem|extension|components|iter)$")


def run(world, tier, info, only=None):
    ck = Check("C25", tier, "other", RULE, only)
    w = world
    for p in (SF, MP):
        if p not in w.fns:
            ck.missing("anchors", p)
    if any(o["verdict"] == "violation" for o in ck.obs):
        return ck.finish(info)
    ck.assume("type_dag::toposort() returns each symbol once; a HashMap holds at most one value per key")
    # ---------------- R1 / R2 sort_filelist ------------------------------------------------------------------
    s = w.fns[SF]
    f = Fn(w.mir(SF))
    mf = MustFacts(f)
    pushes = []
    for bi, t in f.calls(r"^alloc::vec::Vec::<T, A>::push$"):
        nm = _root_name(f, t["args"][0])
        if nm == "ret":
            pushes.append((bi, t))
    ck.floor("R1", "pushes into the result of sort_filelist", len(pushes), 2)
    for n, (bi, t) in enumerate(sorted(pushes, key=lambda x: x[1]["l"])):
        pv = f.prov(t["args"][1], depth=30)
        calls = sorted({x[1] for x in pv if x[0] == "call" and x[1]})
        lin = [c for c in calls if LINEAR.search(c)]
        non = [c for c in calls if NONLINEAR.search(c)]
        ck.ob("R1", "push@%d/linear-source" % (n + 1), bool(lin) and not non, site(s, t["l"]),
              "the pushed PathSet is taken out of a map by %s" % [c.split("::")[-1] for c in lin] if lin and not non else
              "the pushed PathSet comes from a non-consuming access (%s): the same file can be pushed again" % [c.split("::")[-1] for c in (non or calls)])
    # maps are filled only from linear extractions of the previous map (or from `paths` for the first one)
    for bi, t in f.calls(r"HashMap::<K, V, S, A>::insert$"):
        nm = _root_name(f, t["args"][0])
        pv = f.prov(t["args"][2], depth=30)
        calls = sorted({x[1] for x in pv if x[0] == "call" and x[1]})
        if nm == "table":
            ok = any(x[0] == "arg" and f.name(x[1]) == "paths" for x in pv) or any("Iterator>::next" in (c or "") for c in calls)
            ck.ob("R1", "fill:table", ok, site(s, t["l"]), "table is keyed by each input path's src (duplicates in the input collapse)")
            k = flow.access_path(f, t["args"][1])
            ck.ob("R1", "fill:table/key-is-src", "src" in k[1], site(s, t["l"]), "table's key is the PathSet's src")
        else:
            lin = [c for c in calls if LINEAR.search(c)]
            ck.ob("R1", "fill:%s" % nm, bool(lin), site(s, t["l"]), "%s receives only values removed from the previous map (%s)" % (nm, [c.split("::")[-1] for c in lin]))
    # R2
    topo = f.calls(r"^veryl_analyzer::type_dag::toposort$")
    ck.ob("R2", "first-segment-follows-toposort", len(topo) == 1, site(s), "one type_dag::toposort() call")
    sorts = [(bi, t) for bi, t in f.calls(r"alloc::slice::<impl \[T\]>::(sort_by|sort_by_key|sort|sort_unstable_by|sort_unstable_by_key|sort_by_cached_key)$") if _root_name(f, t["args"][0]) == "remaining"]
    ck.ob("R2", "remaining-sorted", len(sorts) == 1, site(s), "the remaining files are sorted once")
    if topo and len(pushes) >= 2:
        first = sorted(pushes, key=lambda x: x[1]["l"])[0]
        last = sorted(pushes, key=lambda x: x[1]["l"])[-1]
        # first push is inside a loop whose iterator is the toposort result without reordering adapters
        ok1 = False
        for head, lt, some, none, item in flow.loops_over(f):
            if first[0] in f.reach_from(some, avoid=[head]):
                ad = []
                r, pth = flow.access_path(f, lt["args"][0], extra_transparent=re.compile(r"Iterator::(rev|skip|take|step_by|filter|map|enumerate|peekable|chain|zip)$"), adapters=ad)
                if r[0] == "call" and (r[1] or "").endswith("type_dag::toposort"):
                    names = [a.split("::")[-1] for a in ad]
                    ok1 = "rev" not in names
        ck.ob("R2", "first-segment-in-toposort-order", ok1, site(s, first[1]["l"]), "the dependency-ordered segment is pushed while walking toposort() front to back")
        for sb, stt in sorts:
            F = mf.at_entry(last[0])
            ck.ob("R2", "sort-before-append", F is not None and ("calledbb", sb) in F, site(s, last[1]["l"]), "the remainder is sorted before it is appended")
            # the comparator orders by src
            cl = [c for c in w.fns[SF]["closures"]]
            okc = False
            for c in cl:
                if c in w.fns:
                    g = Fn(w.mir(c))
                    for bb, tt in g.calls(r"cmp::Ord(>)?::cmp$|PartialOrd"):
                        a = flow.access_path(g, tt["args"][0])
                        b = flow.access_path(g, tt["args"][1])
                        if a[1][-1:] == ("src",) and b[1][-1:] == ("src",) and a[0] != b[0]:
                            okc = a[0] == ("arg", 2) and b[0] == ("arg", 3)
            ck.ob("R2", "sorted-by-src-ascending", okc, site(s, stt["l"]), "the comparator is a.src.cmp(&b.src)")
        # the toposort segment precedes the sorted remainder: no push of the first kind is reachable after the sort
        late = [t["l"] for bi, t in pushes if bi != last[0] and sorts and f.reaches(f.blocks[sorts[0][0]]["t"]["to"], bi)]
        ck.ob("R2", "dependency-segment-first", not late, site(s), "the dependency-ordered files are all pushed before the sorted remainder")

    # ---------------- R3 injectivity --------------------------------------------------------------------------
    for P in (MP,):
        s = w.fns[P]
        f = Fn(w.mir(P))
        mf = MustFacts(f)
        # loops whose item provides the strip_prefix base
        loop_items = {}
        for head, lt, some, none, item in flow.loops_over(f):
            loop_items[head] = (some, none)
        # collision check: a HashSet/BTreeSet insert of a path whose `false` outcome reaches an Err return
        has_check = False
        for bi, t in f.calls(r"(HashSet|BTreeSet)::<.*>::insert$|HashMap::<K, V, S, A>::insert$|BTreeMap::<K, V, A>::insert$"):
            pv = f.prov(t["args"][1], depth=20)
            if any(x[0] == "local" or x[0] == "call" for x in pv) and _root_name(f, t["args"][0]) not in ("ret", None):
                # the result must be branched on
                if not t["dst"][1] and any(f.blocks[b]["t"]["t"] == "sw" for b in f.reach_from(t["to"]) if b in (t["to"],)):
                    has_check = True
        # the locals stored into PathSet.dst / PathSet.map
        targets = {}
        fl = [x["name"] for x in w.adts["veryl_path::PathSet"]["variants"][0]["fields"]] if "veryl_path::PathSet" in w.adts else []
        for b in f.blocks:
            if b.get("cu"):
                continue
            for st in b["s"]:
                if st[0] == "=" and st[2][0] == "agg" and isinstance(st[2][1], dict) and (st[2][1].get("adt") or "") == "veryl_path::PathSet":
                    ops = dict(zip(fl, st[2][2]))
                    for fld in ("dst", "map"):
                        o = ops.get(fld)
                        while o is not None and o[0] != "k":
                            l = o[1][0]
                            d = f.def_of(l)
                            if f.name(l) or not d or d[0] != "s":
                                targets[l] = fld
                                break
                            rv = f.rvalue_at(d)
                            if rv[0] == "use":
                                o = rv[1]
                            elif rv[0] == "agg" and (rv[1].get("adt") or "").endswith("option::Option") and rv[2]:
                                o = rv[2][0]  # map is Option<PathBuf>
                            else:
                                targets[l] = fld
                                break
        if not targets:
            ck.missing("R3", "PathSet construction in " + _short(P))
        enum_of = {}
        for bb, t in flow.enum_switches(f, r"veryl_metadata::build::(Target|SourceMapTarget)$"):
            enum_of[place_key(t["of"])] = t["enum"].split("::")[-1]
        dst_local = [l for l, fld in targets.items() if fld == "dst"]
        n = 0
        for l in sorted(targets):
            nm = targets[l]
            for d in f.defs.get(l, []):
                if d[0] == "c":
                    t = f.blocks[d[1]]["t"]
                    line = t["l"]
                    op = None
                    srcs = set()
                    srcs.add(("call", t.get("callee"), d[1]))
                    for a in t["args"]:
                        srcs |= f.prov(a, depth=30)
                    bb = d[1]
                else:
                    st = f.blocks[d[1]]["s"][d[2]]
                    line = st[3]
                    srcs = set()
                    for o in st[2][1:]:
                        if isinstance(o, list) and o and o[0] in ("c", "m", "k"):
                            srcs |= f.prov(o, depth=30)
                    bb = d[1]
                arm = _arm(f, mf, bb, enum_of, sem_over=Sem(f, 10))
                if nm == "map":
                    ops_ = [a for a in f.blocks[d[1]]["t"]["args"]] if d[0] == "c" else [o for o in f.blocks[d[1]]["s"][d[2]][2][1:] if isinstance(o, list)]
                    if any(x in _slice_locals(f, ops_) for x in dst_local):
                        # derived from dst by fixed-base steps: collides exactly when dst does (reported there)
                        via_dst = True
                    else:
                        via_dst = False
                    if via_dst:
                        continue
                lossy = sorted({x[1].split("::")[-1] for x in srcs if x[0] == "call" and LOSSY.search(x[1] or "")})
                varying = []
                for x in srcs:
                    if x[0] == "call" and re.search(r"std::path::Path::strip_prefix$", x[1] or ""):
                        tt = f.blocks[x[2]]["t"]
                        r, pth = flow.access_path(f, tt["args"][1])
                        if r[0] == "call" and r[2] in loop_items:
                            varying.append("strip_prefix(%s)" % flow.fmt_path((r, pth), f))
                        elif r[0] in ("phi", "local") and f.name(r[1]) and any(True for h in loop_items):
                            # a local bound by destructuring the loop item (for (src_base, is_example) in ..)
                            pv = f.prov(tt["args"][1], depth=12)
                            if any(y[0] == "call" and y[2] in loop_items for y in pv):
                                varying.append("strip_prefix(&%s)" % f.name(r[1]))
                n += 1
                risky = lossy + sorted(set(varying))
                ok = not risky or has_check
                tag = "" if not risky else "[" + ",".join(sorted({re.sub(r"\(.*$", "", x) for x in risky})) + "]"
                ck.ob("R3", "injective:%s/%s@%s%s" % (_short(P), nm, arm, tag), ok, site(s, line),
                      "%s (%s arm) is built from the source path by injective steps only" % (nm, arm) if not risky else
                      ("%s (%s arm) uses %s, and a collision check guards the result" % (nm, arm, risky) if has_check else
                       "%s (%s arm) is derived through %s with no collision check: two source files can be given the same output path" % (nm, arm, risky)))
        ck.floor("R3", "definitions of dst/map in " + _short(P), n, 4)
    # ---------------- R4 which files are listed does not depend on which files this run re-processed ----------------------------
    import taint
    EX = "veryl::cmd_build::CmdBuild::exec"
    if EX in w.fns:
        sx = w.fns[EX]
        g = Fn(w.mir(EX))
        loops = [(h, t) for h, t, some, none, item in flow.loops_over(g)
                 if any(r[0] == "call" and re.search(r"Vec::<T, A>::drain$|pipeline::analyze$", r[1] or "") for r, _ in flow.access_paths(g, t["args"][0]))
                 or "contexts" in repr(flow.fmt_path(flow.access_path(g, t["args"][0]), g))]
        ck.floor("R4", "emit loops over the analysed contexts", len(loops), 1)
        seeds = {id(t) for h, t in loops}
        tn = taint.Taint(g, seed_call=lambda t: id(t) in seeds, containers=True,
                         pure=re.compile(r"Clone>::clone$|Deref>::deref$|::as_ref$|::as_path$|::to_path_buf$|Try>::branch$"))
        LISTERS = re.compile(r"^veryl::cmd_build::CmdBuild::(gen_filelist|check_bundle|sort_filelist)$")
        n_l = 0
        for bi, t in g.calls(LISTERS.pattern):
            n_l += 1
            bad = [i for i, a in enumerate(t["args"]) if tn.op_tainted(a)]
            ck.ob("R4", "filelist-independent-of-emit-loop:%s" % t["callee"].split("::")[-1], not bad, site(sx, t["l"]),
                  "the filelist is computed from the project's paths and the analysis result only" if not bad else
                  "argument %s of %s is built inside the loop over this run's contexts: files whose analysis was restored from the incremental "
                  "cache have no context, so the set of listed files depends on what happened to be re-processed" % (bad, t["callee"].split("::")[-1]))
        ck.floor("R4", "filelist producers called from CmdBuild::exec", n_l, 2)
    else:
        ck.missing("R4", EX)
    # ---------------- R5 every kind of file-scope import reaches the type DAG (it orders the filelist) ----------------------------
    CS = "veryl_analyzer::handlers::create_symbol_table::CreateSymbolTable"
    PD = CS + "::pop_type_dag_cand"
    if PD in w.fns and CS in w.adts:
        sp = w.fns[PD]
        g = Fn(w.mir(PD))
        imp_fields = [x["name"] for x in w.adts[CS]["variants"][0]["fields"] if x["name"].startswith("file_scope_import")]
        ck.floor("R5", "file-scope import lists of CreateSymbolTable", len(imp_fields), 2)
        # the `import` operand of the TypeDagCandidate::Symbol built here
        aggs = []
        for bi, b in enumerate(g.blocks):
            if b.get("cu"):
                continue
            for st in b["s"]:
                if st[0] == "=" and st[2][0] == "agg" and isinstance(st[2][1], dict) and (st[2][1].get("adt") or "").endswith("TypeDagCandidate"):
                    aggs.append((bi, st))
        ck.floor("R5", "TypeDagCandidate constructions in pop_type_dag_cand", len(aggs), 1)
        for fld in imp_fields:
            tn = taint.Taint(g, seed_place=lambda pl, fld=fld: any(isinstance(q, list) and q[0] == "f" and q[2] == fld for q in pl[1]), containers=True,
                             pure=re.compile(r"Clone>::clone$|Deref>::deref$|IntoIterator>::into_iter$"))
            ok = bool(aggs) and all(any(tn.op_tainted(o) for o in st[2][2]) for bi, st in aggs)
            ck.ob("R5", "import-reaches-type-dag:%s" % fld, ok, site(sp),
                  "self.%s flows into the `import` list of the symbol's type-DAG candidate" % fld if ok else
                  "self.%s never reaches the type-DAG candidate: a file-scope import of that kind adds no edge, so the importing file can be "
                  "listed before the file that defines the imported package" % fld)
    else:
        ck.missing("R5", PD)
    ck.analysed = {"functions": [SF, MP, EX, PD]}
    _dependency_dir(ck, w)
    return ck.finish(info)


def _dependency_dir(ck, w):
    """R3 for Lockfile::paths: the outputs of a dependency go under dependencies/<lock.name>/..., and lock.name is the name gen_locks
    made unique (suffix _0, _1 for two projects of the same name; C31 R4). Any other directory name (the dependency's own project name)
    puts two same-named projects into one directory."""
    P = "veryl_metadata::lockfile::Lockfile::paths"
    if P not in w.fns:
        ck.missing("R3", P)
        return
    sm = w.fns[P]
    g = Fn(w.mir(P))
    joins = []
    for bi, t in g.calls(r"std::path::Path::join$|std::path::PathBuf::push$"):
        if len(t["args"]) < 2:
            continue
        d = repr(g.describe(t["args"][1], 8))
        joins.append((bi, t, d))
    named = [(bi, t) for bi, t, d in joins if re.search(r"'name', 'veryl_metadata::lockfile::Lock'", d) and "Iterator>::next" in d]
    other = [(bi, t) for bi, t, d in joins if re.search(r"'name', 'veryl_metadata::metadata::Project'|'name', 'veryl_metadata::project::Project'", d)]
    ok = bool(named) and not other
    # the PathSet's dst is built on that join
    on_dst = False
    for bi, b in enumerate(g.blocks):
        for st in b["s"]:
            if st[0] == "=" and st[2][0] == "agg" and isinstance(st[2][1], dict) and (st[2][1].get("adt") or "").endswith("veryl_path::PathSet"):
                fl = st[2][1].get("fields") or []
                for k, o in enumerate(st[2][2]):
                    if k < len(fl) and fl[k] in ("dst", "1") and isinstance(o, list) and o[0] != "k":
                        pv = g.prov(o, depth=16)
                        if any(x[0] == "call" and x[2] in [jb for jb, _ in named] for x in pv if len(x) > 2):
                            on_dst = True
    ck.ob("R3", "injective:Lockfile::paths/dependency-dir-is-lock.name", ok and (on_dst or None), site(sm, (named or other or [(0, {"l": None})])[0][1]["l"]),
          "a dependency's outputs go under the directory named by the loop's lock.name (unique by gen_locks)" if ok else
          "the dependency output directory is not named by lock.name%s: two dependency projects of the same name share one directory and "
          "overwrite each other's outputs" % (" but by the dependency's own project name" if other else ""))



def _short(p):
    return "::".join(p.split("::")[-2:])


def _arm(f, mf, bb, enum_of, sem_over=None):
    F = mf.at_entry(bb) or ()
    vs = sorted({"%s::%s" % (enum_of[a[1]], a[2]) for a in F if a[0] == "variant" and a[1] in enum_of})
    if sem_over is not None:
        for x in sem_over.facts(F):
            if x[0] == "call" and (x[1] or "").endswith("Option::<T>::is_some") and "output_dir_override" in repr(x[3]):
                vs.append("out-dir override" if x[2] else "no override")
    return "+".join(vs) if vs else "any"


def _root_name(f, op):
    """debug name of the local a `&mut x` / `&x` argument refers to"""
    if op[0] == "k":
        return None
    l = op[1][0]
    for _ in range(8):
        if f.name(l):
            return f.name(l)
        d = f.def_of(l)
        if not d:
            return None
        if d[0] == "c":
            t = f.blocks[d[1]]["t"]
            if t["args"] and t["args"][0][0] != "k" and flow.TRANSPARENT.search(t.get("callee") or ""):
                l = t["args"][0][1][0]
                continue
            return None
        rv = f.rvalue_at(d)
        if rv[0] in ("ref", "ptr"):
            l = rv[2][0]
        elif rv[0] == "use" and rv[1][0] != "k":
            l = rv[1][1][0]
        else:
            return None
    return None


def _slice_locals(f, ops, depth=40):
    """locals visited by the backward slice of some operands (single function, flow-insensitive)"""
    seen = set()
    work = [o[1][0] for o in ops if isinstance(o, list) and o and o[0] in ("c", "m")]
    while work and len(seen) < 400:
        l = work.pop()
        if l in seen:
            continue
        seen.add(l)
        for d in f.defs.get(l, []):
            if d[0] == "c":
                for a in f.blocks[d[1]]["t"]["args"]:
                    if a[0] != "k":
                        work.append(a[1][0])
            else:
                rv = f.rvalue_at(d)
                for o in rv[1:]:
                    if isinstance(o, list) and o and o[0] in ("c", "m"):
                        work.append(o[1][0])
                    elif isinstance(o, list) and o and isinstance(o[0], int):
                        work.append(o[0])
                    elif isinstance(o, list):
                        for oo in o:
                            if isinstance(oo, list) and oo and oo[0] in ("c", "m"):
                                work.append(oo[1][0])
    return seen
