"""Debug helper: python3 rules/dump.py <fn path regex> [--facts]"""
import sys, json, re
sys.path.insert(0, __file__.rsplit('/',1)[0])
import facts, mirlib

def fmt_place(pl):
    s = "_%d" % pl[0]
    for p in pl[1]:
        if p == "*": s = "(*%s)" % s
        elif isinstance(p, list) and p[0] == "f": s += "." + p[2]
        elif isinstance(p, list) and p[0] == "v": s += " as " + p[1]
        elif isinstance(p, list) and p[0] == "i": s += "[_%d]" % p[1]
        else: s += "{%s}" % (p if isinstance(p,str) else p[0])
    return s
def fmt_op(o):
    if o[0] == "k":
        k = o[1]
        for key in ("fn","str","int","const","v"):
            if key in k:
                return "%s:%s%s" % (key, k[key], ("[p%d]"%k["promoted"] if k.get("promoted") is not None else ""))
        return str(k)
    return ("mv " if o[0]=="m" else "") + fmt_place(o[1])
def fmt_rv(rv):
    k = rv[0]
    if k in ("use","rep"): return fmt_op(rv[1])
    if k in ("ref","ptr"): return "&%s %s" % (rv[1], fmt_place(rv[2]))
    if k == "cast": return "%s as %s" % (fmt_op(rv[2]), rv[3])
    if k == "bin": return "%s(%s, %s)" % (rv[1], fmt_op(rv[2]), fmt_op(rv[3]))
    if k == "un": return "%s(%s)" % (rv[1], fmt_op(rv[2]))
    if k == "discr": return "discr(%s)" % fmt_place(rv[1])
    if k == "agg":
        kk = rv[1]
        name = kk if isinstance(kk,str) else (kk.get("adt","")+"::"+kk.get("variant","") if "adt" in kk else "closure "+kk.get("closure",""))
        return "%s{%s}" % (name, ", ".join(fmt_op(o) for o in rv[2]))
    return str(rv)
def dump(rec, with_facts=False):
    fn = mirlib.Fn(rec)
    mf = mirlib.MustFacts(fn) if with_facts else None
    print("fn", rec["path"], rec["file"], rec["l0"], rec["l1"])
    for i,l in enumerate(rec["locals"]):
        if l[1] or i <= rec["nargs"]: print("  _%d: %s %s" % (i, l[0], l[1] or ""))
    for i,b in enumerate(rec["blocks"]):
        if b.get("cu"): continue
        if mf:
            st = mf.at_entry(i)
            print(" bb%d  facts=%s" % (i, "UNREACH" if st is None else sorted(map(str,st))))
        else:
            print(" bb%d" % i)
        for s in b["s"]:
            if s[0] == "=": print("    %s = %s   @%d" % (fmt_place(s[1]), fmt_rv(s[2]), s[3]))
            else: print("    ", s)
        t = b["t"]
        if t["t"] == "call":
            print("    %s = call %s(%s) -> bb%s  @%d%s" % (fmt_place(t["dst"]), t["callee"], ", ".join(fmt_op(a) for a in t["args"]), t["to"], t["l"], " [%s]"%t["res"] if t["res"]!="static" else ""))
        elif t["t"] == "sw":
            print("    switch %s %s: %s else bb%d  @%d" % (fmt_op(t["on"]), t.get("enum",""), ", ".join("%s%s->bb%d" % (v[0], "("+v[2]+")" if v[2] else "", v[1]) for v in t["vals"]), t["else"], t["l"]))
        elif t["t"] == "drop":
            print("    drop %s -> bb%d" % (fmt_place(t["p"]), t["to"]))
        elif t["t"] == "assert":
            print("    assert %s==%s (%s) -> bb%d" % (fmt_op(t["cond"]), t["exp"], t["msg"], t["to"]))
        else:
            print("    ", t["t"], t.get("to",""))
if __name__ == "__main__":
    w = facts.World()
    rx = re.compile(sys.argv[1])
    for p in w.fns:
        if rx.search(p):
            dump(w.mir(p), "--facts" in sys.argv)
