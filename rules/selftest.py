#!/usr/bin/env python3
"""Mutation self-test of the rules: every patch under selftest/patches/<pid>/ must make ./check <pid> fire.

Default mode works on a scratch copy of /repo (outside /repo and /verif), removed afterwards.
--inplace applies each patch to /repo itself and restores it (development only).
"""
import argparse
import glob
import json
import os
import re
import shutil
import subprocess
import sys
import tempfile
import time

VERIF = os.path.dirname(os.path.dirname(os.path.abspath(__file__)))


def sh(cmd, **kw):
    return subprocess.run(cmd, stdout=subprocess.PIPE, stderr=subprocess.STDOUT, text=True, **kw)


def run_selftest(pids, inplace=False, only=None, keep=False, verbose=True):
    results = []
    env = dict(os.environ)
    scratch = None
    if inplace:
        repo = "/repo"
    else:
        scratch = tempfile.mkdtemp(prefix="verif-selftest-", dir=os.environ.get("VERIF_SCRATCH_BASE", "/var/tmp"))
        repo = os.path.join(scratch, "repo")
        r = sh(["rsync", "-a", "--exclude", "/target", "--exclude", "/.git", "/repo/", repo + "/"])
        if r.returncode != 0:
            raise RuntimeError(r.stdout)
        sh(["git", "init", "-q"], cwd=repo)
        cache = os.path.join(scratch, "cache")
        os.makedirs(cache)
        src_t = os.path.join(VERIF, ".cache", "target")
        if os.path.isdir(src_t):
            sh(["rsync", "-a", "--exclude", "/debug/incremental", src_t + "/", os.path.join(cache, "target") + "/"])
        env["VERIF_REPO"] = repo
        env["VERIF_CACHE"] = cache
        env["VERIF_EVIDENCE_DIR"] = os.path.join(scratch, "evidence")
        env["VERIF_REPLAY_DIR"] = os.path.join(scratch, "replay")
    try:
        for pid in pids:
            patches = sorted(glob.glob(os.path.join(VERIF, "selftest", "patches", pid, "*.diff")))
            for pf in patches:
                name = os.path.basename(pf)[:-5]
                if only and not re.search(only, name):
                    continue
                t0 = time.time()
                a = sh(["git", "apply", "--whitespace=nowarn", pf], cwd=repo)
                if a.returncode != 0:
                    results.append({"pid": pid, "patch": name, "ok": False, "why": "patch does not apply: " + a.stdout[-300:]})
                    if verbose:
                        print("selftest %s %-45s STALE (patch does not apply to this tree; rebase it)" % (pid, name), flush=True)
                    continue
                try:
                    r = sh([os.path.join(VERIF, "check"), pid, "--tier", "quick"], env=env, cwd=VERIF)
                finally:
                    sh(["git", "apply", "-R", "--whitespace=nowarn", pf], cwd=repo)
                viol = re.findall(r"^  violated: (\S+)", r.stdout, re.M)
                exp_f = pf[:-5] + ".expect"
                want = open(exp_f).read().strip() if os.path.exists(exp_f) else None
                fired = r.returncode == 1 and "VIOLATION property=%s" % pid in r.stdout
                named = (want is None) or any(re.search(want, v) for v in viol)
                ok = fired and named
                why = ""
                if r.returncode == 2:
                    why = "patched tree does not compile: " + r.stdout[-600:]
                elif not fired:
                    why = "rule stayed silent"
                elif not named:
                    why = "fired, but not naming %s (got %s)" % (want, viol)
                results.append({"pid": pid, "patch": name, "ok": ok, "violations": viol, "why": why, "wall_s": round(time.time() - t0, 1)})
                if verbose:
                    print("selftest %s %-45s %s %s" % (pid, name, "FIRES" if ok else "MISSED", why or ",".join(v.split("/", 1)[-1] for v in viol[:3])), flush=True)
    finally:
        if scratch and not keep:
            shutil.rmtree(scratch, ignore_errors=True)
    return results


if __name__ == "__main__":
    ap = argparse.ArgumentParser()
    ap.add_argument("pids", nargs="+")
    ap.add_argument("--inplace", action="store_true")
    ap.add_argument("--only")
    a = ap.parse_args()
    res = run_selftest(a.pids, a.inplace, a.only)
    bad = [r for r in res if not r["ok"]]
    print("selftest: %d patches, %d fired, %d missed" % (len(res), len(res) - len(bad), len(bad)))
    sys.exit(1 if bad else 0)
