"""C29 - the cache store behaves like a versioned key-value map.

Decided here: the guard and GC *structure* of veryl_cache::Store (DESIGN.md section 3, C29 R1-R6).
Not decided: the map semantics over all operation sequences.
"""
import re
from core import Check, site
from mirlib import Fn, MustFacts, Sem, place_key, place_fields

RULE = (
    "R1 gc's referenced set reads every FileEntry field that names a blob (fields passed to read_blob / assigned "
    "from write_blob); R2 fs::remove_file is called only in Store::gc and only under "
    "extension==FRAGMENT_EXT && !referenced.contains(path); R3 in open_with_lock the manifest handed to the "
    "returned Store derives from the on-disk manifest only under parsed.is_some() && schema==SCHEMA_VERSION && "
    "global_key==key, otherwise it is Manifest::default() and on_disk_current is false; R7 every path out of save has emptied next_files (taken or cleared); R4 save skips the write only "
    "under on_disk_current && next_files==manifest.files, writes with atomic_write after assigning manifest.files, and "
    "sets on_disk_current / runs gc only on the Ok edge; R5 entry/load/keep read manifest.files while "
    "put/invalidate/set_* touch only next_files; R6 try_open passes blocking=false, open passes true."
)

CRATES = ["veryl_cache", "veryl_path"]

ST = "veryl_cache::Store"
FE = "veryl_cache::FileEntry"
MF = "veryl_cache::Manifest"


def chase(fn, op, depth=10):
    """Root local an operand is a plain move/copy/ref of."""
    while depth > 0 and op[0] in ("c", "m") and not op[1][1]:
        l = op[1][0]
        d = fn.def_of(l)
        if d is None or d[0] != "s":
            return l
        rv = fn.rvalue_at(d)
        if rv[0] == "use" and rv[1][0] in ("c", "m") and not rv[1][1][1]:
            op = rv[1]
            depth -= 1
            continue
        return l
    return op[1][0] if op[0] in ("c", "m") else None


def expr_mentions(e, pred):
    """Does an expression tree contain a node satisfying pred?"""
    if pred(e):
        return True
    if isinstance(e, tuple):
        for x in e:
            if isinstance(x, tuple) and expr_mentions(x, pred):
                return True
    return False


def mentions_field(e, adt, field):
    def p(x):
        if isinstance(x, tuple) and len(x) == 3 and x[0] == "proj":
            return any(q[0] == "f" and q[1] == field and q[2] == adt for q in x[2])
        return False
    return expr_mentions(e, p)


def mentions_arg(e, name):
    return expr_mentions(e, lambda x: isinstance(x, tuple) and len(x) == 3 and x[0] == "arg" and x[2] == name)


def mentions_call(e, rx):
    return expr_mentions(e, lambda x: isinstance(x, tuple) and len(x) == 4 and x[0] == "call" and re.search(rx, x[1] or ""))


def run(world, tier, info, only=None):
    ck = Check("C29", tier, "proof", RULE, only)
    w = world
    need = ["open_with_lock", "open", "try_open", "entry", "load", "load_diagnostics", "write_blob", "read_blob",
            "put", "set_diagnostics", "keep", "invalidate", "set_dependents", "set_tests", "save", "gc"]
    fns = {}
    for n in need:
        p = "%s::%s" % (ST, n)
        if p not in w.fns:
            ck.missing("anchors", p)
        else:
            fns[n] = p
    for a in (ST, FE, MF):
        if a not in w.adts:
            ck.missing("anchors", a)
    if len(fns) != len(need) or any(a not in w.adts for a in (ST, FE, MF)):
        return ck.finish(info)
    cache_fns = [p for p, s in w.fns.items() if s["crate"] == "veryl_cache"]
    ck.analysed = {"crate": "veryl_cache", "functions": len(cache_fns), "store_methods": len(fns)}
    ck.assume("cfg(target_family = \"wasm\") arms of veryl_cache are not compiled and not analysed")

    # ---------------- R1: GC referenced-set coverage --------------------------------
    blob_fields = set()
    for p in cache_fns:
        s = w.fns[p]
        if not any(c["c"] in (fns["read_blob"], fns["write_blob"]) for c in s["calls"]):
            continue
        m = Fn(w.mir(p))
        for bi, t in m.calls(re.escape(fns["read_blob"]) + "$"):
            pr = m.prov(t["args"][1])
            for x in pr:
                if x[0] == "field" and x[2] == FE:
                    blob_fields.add(x[1])
                if x[0] == "arg":
                    for q in x[2]:
                        if q[0] == "f" and q[2] == FE:
                            blob_fields.add(q[1])
        # fields assigned (directly or via aggregate) from write_blob results
        for bi, b in enumerate(m.blocks):
            for st in b["s"]:
                if st[0] != "=":
                    continue
                dst, rv = st[1], st[2]
                fl = place_fields(dst)
                if fl and fl[-1][0] == FE and rv[0] == "use":
                    if any(x[0] == "call" and x[1] == fns["write_blob"] for x in m.prov(rv[1])):
                        blob_fields.add(fl[-1][1])
                if rv[0] == "agg" and isinstance(rv[1], dict) and rv[1].get("adt") == FE:
                    for fname, o in zip(rv[1]["fields"], rv[2]):
                        pr = m.prov(o)
                        if any(x[0] == "call" and x[1] == fns["write_blob"] for x in pr) or \
                           any(x[0] == "call" and (x[1] or "").startswith("core::option::Option::<T>::and_then") for x in pr) and \
                           any(c == fns["put"] + "::{closure#0}" for c in w.fns[p].get("closures", [])):
                            blob_fields.add(fname)
    ck.floor("R1", "blob-bearing FileEntry fields", len(blob_fields), 2)
    gc_reads = set()
    for p in [fns["gc"]] + [q for q in cache_fns if q.startswith(fns["gc"] + "::{closure")]:
        for adt, f in w.fns[p]["fr"]:
            if adt == FE:
                gc_reads.add(f)
    for f in sorted(blob_fields):
        ck.ob("R1", "gc-covers:FileEntry.%s" % f, f in gc_reads, site(w.fns[fns["gc"]]),
              "blob field FileEntry.%s %s read when gc builds its referenced set" % (f, "is" if f in gc_reads else "is NOT"))
    # the referenced set is built from manifest.files
    g = Fn(w.mir(fns["gc"]))
    cont = g.calls(r"HashSet::<.*>::contains$|HashSet<.*>::contains")
    ok = False
    for bi, t in cont:
        pr = g.prov(t["args"][0])
        if any(x[0] == "arg" and any(q[0] == "f" and q[1] == "files" and q[2] == MF for q in x[2]) for x in pr):
            ok = True
    ck.ob("R1", "referenced-from:Manifest.files", ok if cont else None, site(w.fns[fns["gc"]]),
          "the set tested by contains() derives from self.manifest.files")

    # ---------------- R2: delete only unreferenced fragments, only in gc -----------------
    rm = re.compile(r"^std::fs::(remove_file|remove_dir|remove_dir_all)$")
    for p in cache_fns:
        for c in w.fns[p]["calls"]:
            if c["c"] and rm.match(c["c"]):
                ck.ob("R2", "delete-site:%s/%s" % (p, c["c"]), p == fns["gc"], site(w.fns[p], c["l"]),
                      "file deletion inside veryl_cache must be in Store::gc")
    dels = g.calls(r"^std::fs::remove_file$")
    ck.floor("R2", "remove_file sites in gc", len(dels), 1)
    mf = MustFacts(g)
    sem = Sem(g)
    for bi, t in dels:
        F = sem.facts(mf.at_entry(bi))
        c_ok = any(x[0] == "call" and re.search(r"HashSet.*::contains$", x[1] or "") and x[2] is False for x in F)
        e_ok = any(x[0] == "call" and re.search(r"Option::<T>::is_some_and$", x[1] or "") and x[2] is True
                   and expr_mentions(x[3], lambda y: isinstance(y, tuple) and len(y) == 4 and y[0] == "call" and re.search(r"Path::extension$", y[1] or ""))
                   for x in F)
        ck.ob("R2", "remove_file-guard:not-referenced", c_ok, site(w.fns[fns["gc"]], t["l"]),
              "remove_file is reached only where referenced.contains(path) == false")
        ck.ob("R2", "remove_file-guard:extension", e_ok, site(w.fns[fns["gc"]], t["l"]),
              "remove_file is reached only where path.extension().is_some_and(== FRAGMENT_EXT)")
    # the closure of is_some_and compares with FRAGMENT_EXT
    cl = [q for q in cache_fns if q.startswith(fns["gc"] + "::{closure")]
    ck.ob("R2", "extension-const:FRAGMENT_EXT", any("veryl_cache::FRAGMENT_EXT" in w.fns[q]["consts"] for q in cl), site(w.fns[fns["gc"]]),
          "the extension predicate compares with FRAGMENT_EXT")

    # ---------------- R3: key and schema gate in open_with_lock -----------------------
    o = Fn(w.mir(fns["open_with_lock"]))
    aggs = [(bi, si, st) for bi, b in enumerate(o.blocks) if not b.get("cu") for si, st in enumerate(b["s"])
            if st[0] == "=" and st[2][0] == "agg" and isinstance(st[2][1], dict) and st[2][1].get("adt") == ST]
    ck.floor("R3", "Store{..} construction sites in open_with_lock", len(aggs), 1)
    for bi, si, st in aggs:
        fields = dict(zip(st[2][1]["fields"], st[2][2]))
        ml = chase(o, fields["manifest"])
        ol = chase(o, fields["on_disk_current"])
        nl = fields["next_files"]
        # next_files starts empty
        npv = o.prov(nl)
        ck.ob("R3", "next_files-empty", any(x[0] == "call" and re.search(r"BTreeMap::<K, V>::new$", x[1] or "") for x in npv) and
              not any(x[0] == "arg" for x in npv), site(w.fns[fns["open_with_lock"]], st[3]),
              "Store.next_files is initialised from BTreeMap::new()")
        default_blocks = set()
        parsed_defs = []
        for d in o.defs.get(ml, []):
            desc = o._describe_def(d, 10)
            if desc[0] == "call" and re.search(r"<veryl_cache::Manifest as core::default::Default>::default$", desc[1] or ""):
                default_blocks.add(d[1])
            else:
                parsed_defs.append((d, desc))
        ck.ob("R3", "reset-exists", len(default_blocks) >= 1, site(w.fns[fns["open_with_lock"]]),
              "the manifest local is reassigned from Manifest::default() on some path")
        m1 = MustFacts(o, avoid=default_blocks)
        F = Sem(o).facts(m1.state_at(bi, si)[0]) if m1.state_at(bi, si) else None
        if F is None:
            ck.ob("R3", "gate", None, site(w.fns[fns["open_with_lock"]], st[3]), "construction unreachable without the reset?")
        else:
            some = any(x[0] == "call" and re.search(r"Option::<T>::is_some$", x[1] or "") and x[2] is True for x in F)
            schema = any(x[0] == "cmp" and x[1] == "Eq" and x[4] is True and
                         ((mentions_field(x[2], MF, "schema") and x[3][0] == "named" and x[3][1] == "veryl_cache::SCHEMA_VERSION") or
                          (mentions_field(x[3], MF, "schema") and x[2][0] == "named" and x[2][1] == "veryl_cache::SCHEMA_VERSION"))
                         for x in F)
            key = any(x[0] == "call" and re.search(r"PartialEq.*::eq$", x[1] or "") and x[2] is True and
                      ((mentions_field(x[3][0], MF, "global_key") and mentions_arg(x[3][1], "global_key")) or
                       (mentions_field(x[3][1], MF, "global_key") and mentions_arg(x[3][0], "global_key")))
                      for x in F)
            s0 = site(w.fns[fns["open_with_lock"]], st[3])
            ck.ob("R3", "gate:parsed.is_some", some, s0, "entries of the on-disk manifest survive only if it parsed")
            ck.ob("R3", "gate:schema==SCHEMA_VERSION", schema, s0, "entries of the on-disk manifest survive only under manifest.schema == SCHEMA_VERSION")
            ck.ob("R3", "gate:global_key==key", key, s0, "entries of the on-disk manifest survive only under manifest.global_key == global_key")
            ck.ob("R3", "gate:on_disk_current", m1.bool_value(bi, si, ol) is True or ("val", ol, True) in (m1.state_at(bi, si)[0]), s0,
                  "on the surviving-entries paths on_disk_current is true") if False else None
        for db in sorted(default_blocks):
            m2 = MustFacts(o, entry=db)
            v = m2.bool_value(bi, si, ol)
            ck.ob("R3", "reset:on_disk_current=false", v is False, site(w.fns[fns["open_with_lock"]], st[3]),
                  "after the manifest is reset to default, on_disk_current is false when the Store is built (got %r)" % (v,))
        # schema / key of the returned manifest are the current ones
        wr = {"schema": False, "global_key": False}
        for b2 in o.blocks:
            for s2 in b2["s"]:
                if s2[0] == "=" and s2[1][0] == ml:
                    fl = place_fields(s2[1])
                    if fl == [(MF, "schema")] and s2[2][0] == "use" and s2[2][1][0] == "k" and s2[2][1][1].get("const") == "veryl_cache::SCHEMA_VERSION":
                        wr["schema"] = True
                    if fl == [(MF, "global_key")] and any(x[0] == "arg" and o.name(x[1]) == "global_key" for x in o.prov(s2[2][1]) if s2[2][0] == "use"):
                        wr["global_key"] = True
        ck.ob("R3", "stamp:schema", wr["schema"], site(w.fns[fns["open_with_lock"]]), "manifest.schema = SCHEMA_VERSION before the Store is built")
        ck.ob("R3", "stamp:global_key", wr["global_key"], site(w.fns[fns["open_with_lock"]]), "manifest.global_key = global_key before the Store is built")

    # ---------------- R4: save -----------------------------------------------------------
    sv = Fn(w.mir(fns["save"]))
    wblocks = set()
    for bi, b in enumerate(sv.blocks):
        if b.get("cu"):
            continue
        for st in b["s"]:
            if st[0] == "=" and place_fields(st[1])[-1:] == [(MF, "files")]:
                wblocks.add(bi)
        t = b["t"]
        if t["t"] == "call" and place_fields(t["dst"])[-1:] == [(MF, "files")]:
            wblocks.add(bi)
    ck.floor("R4", "assignments to manifest.files in save", len(wblocks), 1)
    # R7 round isolation: every way out of save leaves next_files empty (moved into manifest.files or cleared), so entries of one
    # build round cannot leak into the next on a long-lived Store (the language server keeps one)
    import flow as _flow
    resets = []
    for bi, t in sv.calls(r"^core::mem::take$|::(BTreeMap|HashMap)::<K, V.*>::clear$|^core::mem::replace$"):
        r, pth = _flow.access_path(sv, t["args"][0])
        if r == ("arg", 1) and pth == ("next_files",):
            resets.append(bi)
    esc = _flow.escapes(sv, 0, resets)
    ck.ob("R7", "save-empties-next_files", bool(resets) and not esc, site(w.fns[fns["save"]]),
          "every path out of save has taken or cleared self.next_files (round isolation)" if resets and not esc else
          "save can return with self.next_files still populated (blocks %s): entries of this round leak into the next round's manifest "
          "on a Store that stays open" % esc)
    aw = sv.calls(r"^veryl_path::atomic_write$")
    ck.floor("R4", "atomic_write calls in save", len(aw), 1)
    raw = [c for c in w.fns[fns["save"]]["calls"] if c["c"] and re.match(r"^std::fs::(write|File::create|OpenOptions)", c["c"])]
    ck.ob("R4", "no-plain-write", not raw, site(w.fns[fns["save"]]), "save writes the manifest only through atomic_write")
    m_skip = MustFacts(sv, avoid=wblocks)
    sem = Sem(sv)
    rets = [r for r in sv.returns() if r in m_skip.feasible_blocks()]
    for r in rets:
        F = sem.facts(m_skip.at_entry(r))
        a = any(x[0] == "flag" and x[2] is True and mentions_field(x[1], ST, "on_disk_current") for x in F)
        b = any(x[0] == "call" and re.search(r"PartialEq.*::eq$", x[1] or "") and x[2] is True and
                ((mentions_field(x[3][0], ST, "next_files") and mentions_field(x[3][1], MF, "files")) or
                 (mentions_field(x[3][1], ST, "next_files") and mentions_field(x[3][0], MF, "files"))) for x in F)
        ck.ob("R4", "skip-requires:on_disk_current", a, site(w.fns[fns["save"]]), "returning without replacing manifest.files requires self.on_disk_current")
        ck.ob("R4", "skip-requires:next_files==manifest.files", b, site(w.fns[fns["save"]]), "returning without replacing manifest.files requires next_files == manifest.files")
    ck.ob("R4", "skip-path-exists", len(rets) >= 1, site(w.fns[fns["save"]]), "the identical re-scan path exists (informational anchor)")
    for bi, t in aw:
        ck.ob("R4", "write-after-assign", not sv.reaches(0, bi, avoid=wblocks), site(w.fns[fns["save"]], t["l"]),
              "atomic_write(manifest) is reachable only after manifest.files was replaced by next_files")
        # data written derives from toml::to_string(&self.manifest)
        pr = sv.prov(t["args"][1])
        ck.ob("R4", "writes-serialised-manifest", any(x[0] == "call" and re.search(r"^toml::ser::to_string", x[1] or "") for x in pr) and
              any(x[0] == "arg" and any(q[0] == "f" and q[1] == "manifest" for q in x[2]) for x in pr),
              site(w.fns[fns["save"]], t["l"]), "the bytes passed to atomic_write are toml::to_string(&self.manifest)")
        pp = sv.prov(t["args"][0])
        ck.ob("R4", "writes-MANIFEST-path", any(x[0] == "named" and x[1] == "veryl_cache::MANIFEST" for x in pp) and
              any(x[0] == "arg" and any(q[0] == "f" and q[1] == "root" for q in x[2]) for x in pp),
              site(w.fns[fns["save"]], t["l"]), "the path passed to atomic_write is self.root.join(MANIFEST)")
    mfull = MustFacts(sv)
    awb = {bi for bi, _ in aw}

    def ok_edge(F):
        return any(x[0] == "isvariant" and x[2] == "Ok" and mentions_call(x[1], r"^veryl_path::atomic_write$") for x in F) or \
            any(x[0] == "notvariant" and "Err" in x[2] and mentions_call(x[1], r"^veryl_path::atomic_write$") for x in F)
    gcs = sv.calls(re.escape(fns["gc"]) + "$")
    ck.floor("R4", "gc calls in save", len(gcs), 1)
    for bi, t in gcs:
        F = sem.facts(mfull.at_entry(bi))
        ck.ob("R4", "gc-after-ok-write", ok_edge(F), site(w.fns[fns["save"]], t["l"]), "gc() runs only on the Ok edge of atomic_write(manifest)")
    sets = []
    for bi, b in enumerate(sv.blocks):
        if b.get("cu"):
            continue
        for si, st in enumerate(b["s"]):
            if st[0] == "=" and place_fields(st[1])[-1:] == [(ST, "on_disk_current")]:
                sets.append((bi, si, st))
    for bi, si, st in sets:
        val = st[2][1][1].get("int") if st[2][0] == "use" and st[2][1][0] == "k" else None
        if val in ("1", 1):
            F = sem.facts(mfull.state_at(bi, si)[0])
            ck.ob("R4", "on_disk_current=true-after-ok-write", ok_edge(F), site(w.fns[fns["save"]], st[3]),
                  "on_disk_current becomes true only on the Ok edge of atomic_write(manifest)")
    # gc and all other store callers: gc only from save
    for p in cache_fns:
        for c in w.fns[p]["calls"]:
            if c["c"] == fns["gc"]:
                ck.ob("R4", "gc-caller:%s" % p, p == fns["save"], site(w.fns[p], c["l"]), "gc is called only from save")

    # ---------------- R5: in-progress vs saved ------------------------------------------------
    def touches(p, fieldset, kinds):
        s = w.fns[p]
        out = set()
        for k in kinds:
            out |= {tuple(x) for x in s[k]} & fieldset
        for q in cache_fns:
            if q.startswith(p + "::{closure"):
                for k in kinds:
                    out |= {tuple(x) for x in w.fns[q][k]} & fieldset
        return out
    saved = {(ST, "manifest"), (MF, "files")}
    nxt = {(ST, "next_files")}
    for n in ("put", "invalidate", "set_dependents", "set_tests", "set_diagnostics"):
        ck.ob("R5", "%s:no-write-saved" % n, not touches(fns[n], saved, ("fw", "fm")), site(w.fns[fns[n]]),
              "%s must not write or mutably borrow self.manifest" % n)
        ck.ob("R5", "%s:writes-next_files" % n, bool(touches(fns[n], nxt, ("fw", "fm"))), site(w.fns[fns[n]]),
              "%s updates self.next_files" % n)
        ck.ob("R5", "%s:no-read-saved-files" % n, (MF, "files") not in touches(fns[n], saved, ("fr",)), site(w.fns[fns[n]]),
              "%s does not consult the saved manifest" % n)
    for n in ("entry", "keep"):
        ck.ob("R5", "%s:reads-saved" % n, (MF, "files") in touches(fns[n], saved, ("fr",)), site(w.fns[fns[n]]),
              "%s looks the path up in self.manifest.files" % n)
        ck.ob("R5", "%s:no-write-saved" % n, not touches(fns[n], saved, ("fw", "fm")), site(w.fns[fns[n]]),
              "%s does not modify the saved manifest" % n)
    ck.ob("R5", "entry:not-next_files", not touches(fns["entry"], nxt, ("fr", "fw", "fm")), site(w.fns[fns["entry"]]),
          "entry() answers from the saved manifest, never from the build in progress")
    for n in ("load", "load_diagnostics", "read_blob"):
        ck.ob("R5", "%s:no-next_files" % n, not touches(fns[n], nxt | {(ST, "manifest")}, ("fr", "fw", "fm")), site(w.fns[fns[n]]),
              "%s reads only the blob named by the given entry" % n)
    # keep copies the saved entry for the same path
    kp = Fn(w.mir(fns["keep"]))
    ins = kp.calls(r"BTreeMap::<K, V, A>::insert$")
    ck.floor("R5", "insert calls in keep", len(ins), 1)
    for bi, t in ins:
        pv = kp.prov(t["args"][2])
        ck.ob("R5", "keep:inserts-saved-entry", any(x[0] == "call" and re.search(r"BTreeMap::<K, V, A>::get$", x[1] or "") for x in pv) and
              any(x[0] == "arg" and any(q[0] == "f" and q[1] == "files" for q in x[2]) for x in pv), site(w.fns[fns["keep"]], t["l"]),
              "keep inserts a clone of manifest.files.get(src)")
        pk = kp.prov(t["args"][1])
        ck.ob("R5", "keep:same-key", any(x[0] == "arg" and kp.name(x[1]) == "src" for x in pk), site(w.fns[fns["keep"]], t["l"]),
              "keep inserts under the same source path")

    # ---------------- R6: blocking literal ------------------------------------------------------
    for n, want in (("open", "1"), ("try_open", "0")):
        cs = [c for c in w.fns[fns[n]]["calls"] if c["c"] == fns["open_with_lock"]]
        ck.floor("R6", "%s -> open_with_lock calls" % n, len(cs), 1)
        for c in cs:
            got = c.get("k", {}).get(2)
            ck.ob("R6", "%s:blocking-literal" % n, str(got) == want, site(w.fns[fns[n]], c["l"]),
                  "%s passes blocking=%s (got %r)" % (n, "true" if want == "1" else "false", got))
    al = Fn(w.mir("veryl_cache::acquire_lock")) if "veryl_cache::acquire_lock" in w.fns else None
    if al is None:
        ck.missing("R6", "veryl_cache::acquire_lock")
    else:
        mfa = MustFacts(al)
        sema = Sem(al)
        for bi, t in al.calls(r"fs4::.*FileExt.*::lock$|::lock_exclusive$"):
            F = sema.facts(mfa.at_entry(bi))
            ck.ob("R6", "blocking-lock-only-when-blocking", any(x[0] == "flag" and x[2] is True and x[1][0] == "arg" and x[1][2] == "blocking" for x in F),
                  site(w.fns["veryl_cache::acquire_lock"], t["l"]), "the blocking FileExt::lock is reached only when blocking == true")
        ck.floor("R6", "try_lock calls in acquire_lock", len(al.calls(r"try_lock")), 1)
    return ck.finish(info)
