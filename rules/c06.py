"""C06 - restoring a cached pass-1 fragment reproduces the analyzer state (codec and table coverage).

Decided (structural necessary conditions, DESIGN.md section 3 C06 and 8.4r): every session-allocated id reachable in what a
fragment serialises goes through the window / rebase codec in both directions; every table the payload is exported from is the
table it is restored into and every payload field is consumed; what parse + pass 1 write is captured and restored or is in a
reasoned exemption table; the codec sessions bracket exactly the (de)serialisation and are closed on every path; an id outside
its window refuses the fragment. Not decided: equality of the restored state with a fresh analysis for every input.
"""
import re
from core import Check, site
from mirlib import Fn, CallGraph
import flow
import c07

RULE = (
    "veryl_analyzer::fragment_cache and the two fragment_codec modules. R1 codec coverage: starting at FragmentPayload, follow what the "
    "derived Serialize impls really write (the fields handed to serialize_field / serialize_*_variant; #[serde(skip)] fields are "
    "thereby excluded) through every workspace type; every type so reached that is a single-integer newtype named *Id must have "
    "hand-written Serialize and Deserialize impls in a fragment_codec module that reach IdWindow::encode / IdRebase::decode (or the "
    "string / path dictionaries); a derived impl on such a type is a raw id in the fragment. R2 the window and the rebase of each id kind "
    "are built from the same kind's counters (token / text / symbol / definition: watermark.<k>, <k>_end, <k>_base, fragment.<k>_count). "
    "R3 capture / restore agreement: each FragmentPayload field is filled from an export function of one table module and, in restore, "
    "flows into an insert function of the same module; every field is consumed. R4 what parse + analyze_pass1 write (thread-locals, call "
    "graph) is read by capture and written by restore, or is in the exemption table. R5 session brackets: begin_encode / end_encode "
    "(begin_decode / end_decode) of both codecs enclose the postcard call, parser session outermost, and every path from a begin reaches "
    "the matching end before the function returns. R6 refusal: IdWindow::encode returns Err for an id outside its window, the "
    "serialisation error of capture becomes FragmentError::NonCacheable and no Fragment is built on that path. R7 a #[serde(skip)] field of a type "
    "that reaches a fragment is assigned only inside the type's own module (or by restore_fragment, which re-derives it). R8 a push onto a "
    "watermarked pass-1 list (sv_shadows, import / bind / msb / connect lists, reference and type-DAG candidates) is not control dependent on "
    "the list's own contents. R9 every hash-table iteration on the capture path ends in an order-insensitive consumer or in a Vec that is "
    "sorted by a non-lossy key on every path before it is returned."
)

CRATES = ["veryl_parser", "veryl_analyzer"]
FC = "veryl_analyzer::fragment_cache::"
PAYLOAD = FC + "FragmentPayload"
CAP, RST = FC + "capture", FC + "restore"
SER = re.compile(r"<impl serde_core::ser::Serialize for (.+)>::serialize$")
DES = re.compile(r"<impl serde_core::de::Deserialize<'de> for (.+)>::deserialize$")
CODEC_LEAVES = re.compile(r"fragment_codec::(IdWindow::encode|IdRebase::decode|EncodeSession::(encode_\w+|intern_\w+)|DecodeSession::(decode_\w+|\w+))$|fragment_codec::(encode_sentinel|decode_sentinel)$")
INT = re.compile(r"^(usize|u32|u64|u16|i32|i64|isize)$")
EXEMPT = {
    "veryl_analyzer::symbol_table::SYMBOL_CACHE": "resolution cache: derived from the symbol table, cleared by every insertion (restore reaches the clear)",
    "veryl_analyzer::symbol_table::SYMBOL_ERR_CACHE": "resolution cache, same reason",
    "veryl_analyzer::symbol_table::NS_GENERIC_MAP_CACHE": "resolution cache, same reason",
    "veryl_parser::text_table::TEXT_TABLE": "the file's text is stored in the fragment from capture's source_text argument and re-inserted by restore (insert_with_id)",
}
UNDECIDED = {
    "veryl_analyzer::msb_table::MSB_TABLE": "written by the expression lowering, which the call graph reaches from pass 1 only through trait fan-out; pass 2 "
                                            "runs for every file and rewrites it - whether pass 1 really writes it was not established",
    "veryl_analyzer::resolved_type_table::RESOLVED_TYPE_TABLE": "same as MSB_TABLE",
}
KINDS = ("token", "text", "symbol", "definition")


def _serialized_fields(w, p):
    """field names (or (variant, field)) of `self` a derived serialize impl hands to the serializer"""
    g = Fn(w.mir(p))
    out = set()
    for bi, t in g.calls(r"serde_core::ser::(Serialize\w*::serialize_\w+|Serializer::serialize_\w+|Serialize::serialize)$|::serialize$"):
        for a in t["args"]:
            try:
                for r, pth in flow.access_paths(g, a):
                    if r[0] == "arg" and r[1] == 1 and pth:
                        names = [x for x in pth if x not in ("*", "0", "pointer") and not str(x).isdigit()]
                        out.add(tuple(names[:2]) if names else (str(pth[0]),))
            except Exception:
                pass
    return out


def _collects_of(g, bi, t, c24):
    """the collect call(s) that consume the iterator produced by call t, through adapter chains"""
    out = []
    work = [(bi, t)]
    seen = set()
    while work:
        b, tt = work.pop()
        if b in seen or tt["dst"][1]:
            continue
        seen.add(b)
        uses, _ = c24.uses_of(g, tt["dst"][0])
        for ub, u, ai in uses:
            if ub == b:
                continue
            c = u.get("callee") or ""
            if c24.COLLECT.search(c):
                out.append((ub, u))
            elif c24.ADAPTER.search(c) and ai == 0:
                work.append((ub, u))
    return out


def _places(st):
    out = []
    if st[0] != "=":
        return out
    rv = st[2]
    for o in ([rv[1]] if rv[0] in ("use", "rep") else [rv[2]] if rv[0] == "cast" else list(rv[2]) if rv[0] == "agg" else []):
        if isinstance(o, list) and o and o[0] in ("c", "m"):
            out.append(o[1])
    if rv[0] in ("ref", "ptr"):
        out.append(rv[2])
    if rv[0] == "discr":
        out.append(rv[1])
    return out


def run(world, tier, info, only=None):
    ck = Check("C06", tier, "other", RULE, only)
    w = world
    for p in (CAP, RST):
        if p not in w.fns:
            ck.missing("anchors", p)
    if PAYLOAD not in w.adts:
        ck.missing("anchors", PAYLOAD)
    if any(o["verdict"] == "violation" for o in ck.obs):
        return ck.finish(info)
    ck.assume("postcard::to_allocvec / from_bytes call exactly the Serialize / Deserialize impls of the value's type (serde contract)")
    ck.assume("a derived Deserialize reads what the derived Serialize of the same type writes (serde derive)")
    ser = {}
    des = {}
    for p in w.fns:
        m = SER.search(p)
        if m:
            ser[m.group(1)] = p
        m = DES.search(p)
        if m:
            des[m.group(1)] = p
    cg = CallGraph(w)
    # ---------------- R1 ---------------------------------------------------------------------------------------
    seen = {}
    work = [(PAYLOAD, "FragmentPayload")]
    id_types = {}
    skipped = []
    while work:
        ty, via = work.pop()
        if ty in seen:
            continue
        seen[ty] = via
        adt = w.adts.get(ty)
        if adt is None:
            continue
        sp = ser.get(ty)
        derived = sp is not None and "::_::" in sp
        fields_all = [(v["name"], f) for v in adt["variants"] for f in v["fields"]]
        is_int_newtype = adt["kind"] == "struct" and len(fields_all) == 1 and INT.match(fields_all[0][1]["ty"] or "")
        if is_int_newtype and ty.split("::")[-1].endswith("Id"):
            id_types[ty] = via
            continue
        if sp is not None and not derived:
            continue   # hand-written codec for a non-id type: a leaf (its own correctness is not decided here)
        if sp is None:
            # std containers etc.: follow every field
            written = None
        else:
            written = _serialized_fields(w, sp)
        for vname, f in fields_all:
            if written is not None:
                hit = any(x[0] == f["name"] or (len(x) > 1 and x[0] == vname and x[1] == f["name"]) or (x[0] == vname and str(f["name"]).isdigit()) for x in written)
                if not hit:
                    skipped.append("%s.%s" % (ty.split("::")[-1], f["name"]))
                    continue
            for a in f.get("adts", []):
                if a.startswith("veryl_") and a not in seen:
                    work.append((a, "%s.%s" % (via, f["name"])))
    ck.floor("R1", "workspace types reachable from FragmentPayload through what is serialised", len(seen), 60)
    ck.floor("R1", "id types reachable", len(id_types), 5)
    for ty, via in sorted(id_types.items()):
        short = ty.split("::")[-1]
        sp, dp = ser.get(ty), des.get(ty)
        hand = sp is not None and dp is not None and "::_::" not in sp and "::_::" not in dp and "fragment_codec" in sp and "fragment_codec" in dp
        reach_s = cg.reachable_static([sp]) if sp else set()
        reach_d = cg.reachable_static([dp]) if dp else set()
        enc = any(CODEC_LEAVES.search(q) for q in reach_s)
        dec = any(CODEC_LEAVES.search(q) for q in reach_d)
        ok = hand and enc and dec
        ck.ob("R1", "id-through-codec:" + short, ok, site(w.fns[sp]) if sp else "",
              "%s (reached as %s) is encoded relative to its window and rebased on decode" % (short, via) if ok else
              "%s is reachable in the fragment (as %s) %s: a restored fragment would carry ids of the session that captured it" % (
                  short, via, "with a derived Serialize/Deserialize" if not hand else "but its hand-written impl does not reach the window/rebase functions"))
        # the window / rebase read by the impl is the one of this id's own kind
        kind = re.sub(r"_id$", "", re.sub(r"(?<!^)([A-Z])", r"_\1", short).lower())
        for which, pth_ in (("serialize", sp), ("deserialize", dp)):
            if not pth_:
                continue
            fl = set()
            for q in [pth_] + [x for x in w.fns if x.startswith(pth_ + "::{closure")]:
                for b in Fn(w.mir(q)).blocks:
                    for st in b["s"]:
                        for pl in _places(st):
                            for pr in pl[1]:
                                if isinstance(pr, list) and pr[0] == "f" and re.search(r"_(window|rebase)$", str(pr[2])):
                                    fl.add(pr[2])
            if fl:
                ck.ob("R1", "own-window:%s/%s" % (short, which), all(f.startswith(kind + "_") for f in fl), site(w.fns[pth_]),
                      "%s::%s uses %s" % (short, which, sorted(fl)) if all(f.startswith(kind + "_") for f in fl) else
                      "%s::%s maps its ids through %s, the window of another id kind" % (short, which, sorted(fl)))
    # ---------------- R2 kinds agree ------------------------------------------------------------------------------
    for p, aggre, fld_a, fld_b in ((CAP, r"fragment_codec::IdWindow$", "start", "end"), (RST, r"fragment_codec::IdRebase$", "base", "count")):
        g = Fn(w.mir(p))
        n = 0
        for bi, b in enumerate(g.blocks):
            if b.get("cu"):
                continue
            for st in b["s"]:
                if st[0] == "=" and st[2][0] == "agg" and isinstance(st[2][1], dict) and re.search(aggre, st[2][1].get("adt") or ""):
                    n += 1
                    ks = []
                    for o in st[2][2]:
                        d = repr(g.describe(o, 8)) + repr(flow.fmt_path(flow.access_path(g, o), g) if o[0] != "k" else "")
                        ks.append({k for k in KINDS if re.search(r"\b%s(_count|_end|_base)?\b|peek_%s_id|reserve_%s_ids|'%s'" % (k, k, k, k), d)} or
                                  ({"text"} if o[0] == "k" else set()))
                    common = set.intersection(*ks) if ks else set()
                    ck.ob("R2", "%s/%s@%d" % (p.split("::")[-1], aggre.split("::")[-1].rstrip("$"), n), len(common) == 1, site(w.fns[p], st[3]),
                          "both bounds are the %s counters" % sorted(common) if len(common) == 1 else
                          "the two bounds of one window / rebase come from different id kinds (%s): ids of one kind are shifted by another kind's offset" % ks)
        ck.floor("R2", "windows / rebases built in " + p.split("::")[-1], n, 4)
    # ---------------- R3 capture / restore agreement -----------------------------------------------------------------
    fields = [f["name"] for f in w.adts[PAYLOAD]["variants"][0]["fields"]]
    g = Fn(w.mir(CAP))
    src_mod = {}
    for bi, b in enumerate(g.blocks):
        if b.get("cu"):
            continue
        for st in b["s"]:
            if st[0] == "=" and st[2][0] == "agg" and isinstance(st[2][1], dict) and (st[2][1].get("adt") or "") == PAYLOAD:
                for fld, o in zip(fields, st[2][2]):
                    r, pth = flow.access_path(g, o)
                    src_mod[fld] = "::".join(r[1].split("::")[:2]) if r[0] == "call" and r[1] else None
                    ck.ob("R3", "capture/" + fld, bool(src_mod[fld]) and "export" in (r[1] or ""), site(w.fns[CAP], st[3]),
                          "payload.%s is exported from %s" % (fld, r[1] if r[0] == "call" else r))
    ck.floor("R3", "payload fields filled in capture", len(src_mod), len(fields))
    g = Fn(w.mir(RST))
    loops = {h: (t, some) for h, t, some, none, item in flow.loops_over(g)}
    for fld in fields:
        sinks = set()
        for bi, t in g.calls():
            c = t.get("callee") or ""
            if not c.startswith("veryl_") or c.startswith(FC):
                continue
            for a in t["args"]:
                try:
                    rp = flow.access_paths(g, a)
                except Exception:
                    continue
                for r, pth in rp:
                    if fld in pth:
                        sinks.add(c)
                    if r[0] == "call" and len(r) > 2 and r[2] in loops:
                        lr, lp = flow.access_path(g, loops[r[2]][0]["args"][0])
                        if fld in lp:
                            sinks.add(c)
        mods = {"::".join(c.split("::")[:2]) for c in sinks}
        want = src_mod.get(fld)
        ok = bool(sinks) and want in mods
        ck.ob("R3", "restore/" + fld, ok, site(w.fns[RST]),
              "payload.%s is re-inserted through %s" % (fld, sorted(x.split("::", 2)[-1] for x in sinks)) if ok else
              ("payload.%s is never consumed by restore" % fld if not sinks else
               "payload.%s was exported from %s but is restored into %s" % (fld, want, sorted(mods))))
    # ---------------- R4 write set -------------------------------------------------------------------------------
    acc = c07.tls_writes(w)
    reach_w = cg.reachable(["veryl_parser::parser::Parser::parse", c07.A + "analyze_pass1"])
    rc = cg.reachable_static([CAP])
    rr = cg.reachable_static([RST])
    W = sorted(k for k, fs in acc.items() if any(m == "w" and p in reach_w for p, m in fs.items()))
    ck.floor("R4", "thread-locals written by parse + pass 1", len(W), 15)
    for k in W:
        incap = any(p in rc for p in acc[k])
        inrst = any(m == "w" and p in rr for p, m in acc[k].items())
        if incap and inrst:
            ck.ob("R4", "captured:" + k, True, site(w.fns[CAP]), "read by capture and written by restore")
        elif k in EXEMPT:
            ck.ob("R4", "captured:" + k, True, site(w.fns[CAP]), "exempt: " + EXEMPT[k])
        elif k in UNDECIDED:
            ck.ob("R4", "captured:" + k, None, site(w.fns[CAP]), UNDECIDED[k])
        else:
            ck.ob("R4", "captured:" + k, False, site(w.fns[CAP]),
                  "%s is written while a file is parsed / analysed in pass 1 but is %s: after a cache hit the table lacks what a fresh analysis of "
                  "the file would have put there" % (k, "not read by capture" if not incap else "not written by restore"))
    # ---------------- R5 session brackets --------------------------------------------------------------------------
    for p, beg, end, core in ((CAP, "begin_encode", "end_encode", r"postcard::.*to_allocvec$"), (RST, "begin_decode", "end_decode", r"postcard::.*from_bytes$")):
        g = Fn(w.mir(p))
        s = w.fns[p]
        pb = [bi for bi, t in g.calls(r"^veryl_parser::fragment_codec::%s$" % beg)]
        ab = [bi for bi, t in g.calls(r"^veryl_analyzer::fragment_codec::%s$" % beg)]
        pe = [bi for bi, t in g.calls(r"^veryl_parser::fragment_codec::%s$" % end)]
        ae = [bi for bi, t in g.calls(r"^veryl_analyzer::fragment_codec::%s$" % end)]
        co = [bi for bi, t in g.calls(core)]
        shape = len(pb) == len(ab) == len(pe) == len(ae) == len(co) == 1
        ck.ob("R5", "%s/bracket-shape" % p.split("::")[-1], shape, site(s), "one begin / end of each codec around one postcard call (%s)" % [len(x) for x in (pb, ab, co, ae, pe)])
        if not shape:
            continue
        order = [pb[0], ab[0], co[0], ae[0], pe[0]]
        ok = all(order[i + 1] in g.reach_from(g.blocks[order[i]]["t"]["to"]) and order[i] not in g.reach_from(g.blocks[order[i + 1]]["t"]["to"]) for i in range(4))
        ck.ob("R5", "%s/nesting" % p.split("::")[-1], ok, site(s), "parser session opens first and closes last; the postcard call runs inside both sessions")
        for b, e, nm in ((pb[0], pe[0], "parser"), (ab[0], ae[0], "analyzer")):
            esc = flow.escapes(g, g.blocks[b]["t"]["to"], [e])
            ck.ob("R5", "%s/%s-session-closed" % (p.split("::")[-1], nm), not esc, site(s),
                  "every path from %s reaches %s before the function returns" % (beg, end) if not esc else
                  "a path leaves the function with the %s codec session still open (blocks %s): the next serialisation on this thread is silently remapped" % (nm, esc))
    # ---------------- R6 refusal ---------------------------------------------------------------------------------
    p = "veryl_parser::fragment_codec::IdWindow::encode"
    if p in w.fns:
        g = Fn(w.mir(p))
        errs = 0
        cmp_fields = set()
        for bi, b in enumerate(g.blocks):
            if b.get("cu"):
                continue
            for st in b["s"]:
                if st[0] == "=" and st[2][0] == "agg" and isinstance(st[2][1], dict) and st[2][1].get("variant") == "Err":
                    errs += 1
                if st[0] == "=" and st[2][0] == "bin" and st[2][1] in ("Lt", "Le", "Gt", "Ge"):
                    for o in st[2][2:4]:
                        if o[0] != "k":
                            r, pth = flow.access_path(g, o)
                            cmp_fields |= {x for x in pth if x in ("start", "end")}
        ck.ob("R6", "window/refuses-outside", errs >= 1 and cmp_fields == {"start", "end"}, site(w.fns[p]),
              "IdWindow::encode compares the id with both window bounds and can return Err (%d Err sites, bounds %s)" % (errs, sorted(cmp_fields)))
    else:
        ck.missing("R6", p)
    g = Fn(w.mir(CAP))
    s = w.fns[CAP]
    frag = [bi for bi, b in enumerate(g.blocks) if not b.get("cu") and any(st[0] == "=" and st[2][0] == "agg" and isinstance(st[2][1], dict) and
                                                                           (st[2][1].get("adt") or "") == FC + "Fragment" for st in b["s"])]
    co = [(bi, t) for bi, t in g.calls(r"postcard::.*to_allocvec$")]
    okr = False
    if frag and len(co) == 1:
        # the Result of to_allocvec is unwrapped by `?` before the Fragment is built: the Fragment block is not reachable over the Break edge
        for bi, t in g.calls(r"Try>::branch$"):
            r, pth = flow.access_path(g, t["args"][0], extra_transparent=re.compile(r"Result::<T, E>::map_err$"))
            if r[0] == "call" and r[2] == co[0][0]:
                sw = g.blocks[t["to"]]["t"]
                brk = [tgt for v, tgt, vn in sw.get("vals", []) if vn == "Break"] or ([sw.get("else")] if sw.get("t") == "sw" else [])
                cont = [tgt for v, tgt, vn in sw.get("vals", []) if vn == "Continue"]
                if brk and all(f not in g.reach_from(brk[0]) for f in frag) and (not cont or any(f in g.reach_from(cont[0]) for f in frag)):
                    okr = True
    nc = any(st[0] == "=" and st[2][0] == "agg" and isinstance(st[2][1], dict) and st[2][1].get("variant") == "NonCacheable"
             for q in [CAP] + [x for x in w.fns if x.startswith(CAP + "::{closure")] for b in Fn(w.mir(q)).blocks for st in b["s"])
    ck.ob("R6", "capture/serialisation-error-refuses", okr and nc, site(s),
          "a serialisation error becomes FragmentError::NonCacheable and no Fragment is built on that path")
    # ---------------- R7 serde-skipped fields are runtime-only: nobody outside the type's module puts information there ----------
    skip_fields = set()
    for item in set(skipped):
        tname, fld = item.rsplit(".", 1)
        for ty in seen:
            if ty.split("::")[-1] == tname:
                skip_fields.add((ty, fld))
    ALLOW_SKIP_WRITERS = {
        "veryl_analyzer::symbol_table::SymbolTable::restore_fragment": "re-derives Symbol.scope from the restored namespace (the reason the field can be skipped)",
    }
    n7 = 0
    for p, sm in sorted(w.fns.items()):
        if sm.get("alias_of") or "::tests::" in p:
            continue
        for adt, fld in [tuple(x) for x in (sm.get("fw") or [])]:
            if (adt, fld) not in skip_fields:
                continue
            n7 += 1
            mod = "::".join(adt.split("::")[:-1])
            own = p.startswith(mod + "::") or p.startswith("<" + mod + "::")
            ok = own or p in ALLOW_SKIP_WRITERS
            ck.ob("R7", "skipped-field-writer:%s.%s<-%s" % (adt.split("::")[-1], fld, "::".join(p.split("::")[-2:])), ok, site(sm),
                  "%s.%s is not serialised; it is written here %s" % (adt.split("::")[-1], fld, "inside the type's own module" if own else "(" + ALLOW_SKIP_WRITERS.get(p, "") + ")") if ok else
                  "%s.%s is #[serde(skip)] - a fragment does not carry it - but %s stores information in it: whatever later reads it from a record "
                  "that went through capture / restore finds the default instead" % (adt.split("::")[-1], fld, p.split("::")[-1]))
    ck.floor("R7", "serde-skipped fields of types that reach a fragment", len(skip_fields), 2)
    # ---------------- R8 a watermarked list records every addition of the file ------------------------------------------------------
    import taint
    LISTS = {("veryl_analyzer::symbol_table::SymbolTable", f) for f in ("sv_shadows", "import_list", "bind_list", "msb_list", "connect_list")} | \
            {("veryl_analyzer::reference_table::ReferenceTable", "candidates"), ("veryl_analyzer::type_dag::TypeDag", "candidates")}
    n8 = 0
    for p, sm in sorted(w.fns.items()):
        if sm.get("alias_of") or "::tests::" in p or not (p.startswith("veryl_analyzer::") or p.startswith("<veryl_analyzer::")):
            continue
        if not any((c["c"] or "").endswith("Vec::<T, A>::push") for c in sm["calls"]):
            continue
        if not any(tuple(x) in LISTS for x in (sm.get("fr") or []) + (sm.get("fm") or []) + (sm.get("fw") or [])):
            continue
        g = Fn(w.mir(p))
        for bi, t in g.calls(r"^alloc::vec::Vec::<T, A>::push$"):
            r, pth = flow.access_path(g, t["args"][0])
            if not (r[0] == "arg" and r[1] == 1 and len(pth) == 1 and any(f == pth[0] for a, f in LISTS)):
                continue
            fld = pth[0]
            n8 += 1
            tn = taint.Taint(g, seed_place=lambda pl, fld=fld: pl[0] == 1 and any(isinstance(q, list) and q[0] == "f" and q[2] == fld for q in pl[1]),
                             pure=re.compile(r"Deref>::deref$|::iter$|IntoIterator>::into_iter$|Iterator>?::(any|all|find|position|next|map|filter|count)$|::contains$|::len$|::is_empty$|::last$|::get$"))
            pdom = taint.postdominators(g)
            dep = False
            for snk in tn.sinks():
                if snk[0] != "switch":
                    continue
                cd = taint.control_dependents(g, snk[1], pdom)
                if any(bi in blocks for blocks in cd.values()) and not all(bi in blocks for blocks in cd.values()):
                    dep = True
            ck.ob("R8", "list-records-every-addition:%s/%s" % (p.split("::")[-1], fld), not dep, site(sm, t["l"]),
                  "the push onto %s does not depend on what the list already holds" % fld if not dep else
                  "whether an entry is pushed onto %s depends on the list's own run-wide contents: an entry first recorded for another file is not "
                  "recorded again inside this file's window, so this file's fragment lacks it" % fld)
    ck.floor("R8", "pushes onto watermarked pass-1 lists", n8, 5)
    # ---------------- R9 what is exported from a hash table is put in a definite order ---------------------------------------------
    import c24
    import c16
    c24.WORLD[0] = w
    IT = re.compile(r"(hash::(map::HashMap|set::HashSet)|hashbrown::\w+::Hash(Map|Set)).*::(iter|iter_mut|values|values_mut|keys|into_values|into_keys|drain)$|"
                    r"Hash(Map|Set)<.*> as core::iter::traits::collect::IntoIterator>::into_iter$")
    n9 = 0
    for p in sorted(rc):
        sm = w.fns.get(p)
        if not sm or sm.get("alias_of") or not p.startswith(("veryl_analyzer", "veryl_parser", "<veryl_")):
            continue
        if not any(IT.search(c["c"] or "") for c in sm["calls"]):
            continue
        g = Fn(w.mir(p))
        k = 0
        for bi, t in g.calls(IT.pattern):
            n9 += 1
            k += 1
            verdict, why = c24.classify(g, bi, t)
            if verdict == "sensitive":
                # a Vec that is extended after the collect and then sorted: accept if a sort of the same Vec lies on every path to the return
                for cb, ct in _collects_of(g, bi, t, c24):
                    if not ct["dst"][1] and g.ty(ct["dst"][0]).startswith("alloc::vec::Vec<"):
                        V = ct["dst"][0]
                        sorts = [sb for sb, stt in g.calls(c24.SORT.pattern) if c16._root_named(g, stt["args"][0]) == V or
                                 any(x[0] == "call" and x[2] == cb for x in g.prov(stt["args"][0], depth=10))]
                        if sorts and not flow.escapes(g, ct["to"], sorts) and not any(c24._lossy_comparator(g.blocks[sb]["t"]) for sb in sorts):
                            verdict, why = "sorted", "collected, extended, then sorted on every path to the return"
            ck.ob("R9", "export-order:%s@%d" % ("::".join(p.split("::")[-2:]), k), verdict in ("sorted", "insensitive"), site(sm, t["l"]),
                  "the exported entries are %s (%s)" % (verdict, why) if verdict != "sensitive" else
                  "entries taken from a hash table are exported in its iteration order (%s): that order depends on the ids of the capturing session, "
                  "and restore replays it (later insertions win ties)" % why)
    ck.floor("R9", "hash-table iterations on the capture path", n9, 6)
    ck.analysed = {"reachable_types": len(seen), "id_types": sorted(x.split("::")[-1] for x in id_types), "not_serialised_fields": sorted(set(skipped))[:40],
                   "pass1_thread_locals": W}
    return ck.finish(info)
