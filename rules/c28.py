"""C28 - the pretty printer keeps content and records true anchors.

Decided (DESIGN.md section 3 C28, section 8): per-variant emission structure of veryl_pretty::render and the
anchor-recording order. Not decided: that layout choices (fits_flat budgets, swallow/pending interplay) are right.
"""
import re
from core import Check, site
from mirlib import Fn, MustFacts, Sem
import flow

RULE = (
    "veryl_pretty::render. R1 render_frame and fits_flat switch over every Doc variant explicitly (no wildcard arm), and in "
    "render_frame every content-bearing variant has its own arm. R2 unconditional content: on every path through its arm, Text "
    "pushes its own payload onto state.out; Anchored calls emit_anchored and Comments calls render_comments with the payload; "
    "Concat pushes a frame for every item, iterating in reverse onto the LIFO stack (= document order); Indent/Group/ForceFlat "
    "push a frame for their inner document; emit_anchored pushes a.text and render_comments pushes c.text for every comment of "
    "the slice (no adapter that skips elements, no early exit from the loop). R3 break-only text: IfBreak's payload is pushed "
    "exactly when mode == Break; the paddings of IfBreakPad / IfFlatPad are pushed only under Break / Flat. R4 anchors: in "
    "emit_anchored and render_comments the RenderedAnchor is built from state.current_line and state.col + 1 (and the source "
    "coordinates and text of the same item) after the pending indent was flushed, and nothing moves state.out/col/current_line "
    "between reading those and pushing the text. R5 strip_trailing_whitespace runs only under the option, on the final string, "
    "and only trims line ends. R6 units: no byte length (str::len / String::len) flows into state.col or an anchor column. R7 every "
    "write to state.out outside the flush / break / comment helpers is preceded on every path by flush_pending(_with_indent), in the "
    "function itself or at every call site of a helper: text written while an indent is pending shifts the cursor of that line. R8 state.col "
    "is reset to 0 only where the last text written to state.out on every path is opts.newline. R9 every write to state.out (String's "
    "appenders or a helper that appends to a &mut String parameter) is followed on every path to the return by a write of state.col."
)

CRATES = ["veryl_pretty", "veryl_formatter", "veryl_emitter"]
M = "veryl_pretty::render::"
DOC = "veryl_pretty::doc::Doc"
PUSH_STR = r"^alloc::string::String::push_str$"
VEC_PUSH = r"^alloc::vec::Vec::<T, A>::push$"
CONTENT = ["Text", "Concat", "Indent", "Group", "ForceFlat", "Line", "Hardline", "DedentHardline", "Comments", "IfBreak", "IfBreakPad",
           "Pad", "IfFlatPad", "Anchored"]


def _is_state_out(fn, op, state_arg):
    r, p = flow.access_path(fn, op)
    return r == ("arg", state_arg) and p == ("out",)


STR_APPEND = re.compile(r"^alloc::string::String::(push|push_str|insert|insert_str|extend_from_within)$|"
                        r"^<alloc::string::String as (core::iter::(traits::collect::)?Extend<.*>|core::fmt::Write|core::ops::(arith::)?AddAssign<.*>)>::(extend|extend_one|write_str|write_char|write_fmt|add_assign)$")
_WR = {}


def string_writers(w):
    """{fn path: {argument local}}: helpers of veryl_pretty::render that append to a `&mut String` parameter, directly or through
    another such helper (so `push_spaces(&mut state.out, n)` is a write to state.out at its call site)."""
    key = id(w)
    if key in _WR:
        return _WR[key]
    wr = {}
    fns = {p: x for p, x in w.fns.items() if p.startswith(M) and not x.get("alias_of") and "::tests::" not in p}
    cache = {}
    changed = True
    while changed:
        changed = False
        for p, x in sorted(fns.items()):
            if not any(c["c"] and (STR_APPEND.search(c["c"]) or c["c"] in wr) for c in x["calls"]):
                continue
            g = cache.get(p)
            if g is None:
                g = cache[p] = Fn(w.mir(p))
            for bi, t in g.calls():
                c = t.get("callee") or ""
                if STR_APPEND.search(c):
                    recv = [0]
                elif c in wr and c != p:
                    recv = [k - 1 for k in wr[c]]
                else:
                    continue
                for k in recv:
                    if k >= len(t["args"]):
                        continue
                    r, pth = flow.access_path(g, t["args"][k])
                    if r[0] == "arg" and pth == () and r[1] not in wr.get(p, set()):
                        wr.setdefault(p, set()).add(r[1])
                        changed = True
    _WR.clear()
    _WR[key] = wr
    return wr


_SW = {}
NOT_CONTENT = re.compile(r"::(flush_pending|flush_pending_with_indent|emit_break)$")


def state_writers(w):
    """render functions with a `state` parameter that (transitively) append content to state.out: a call `emit_pad(.., state)` is a write"""
    key = id(w)
    if key in _SW:
        return _SW[key]
    sw = {}
    fns = {p: x for p, x in w.fns.items() if p.startswith(M) and not x.get("alias_of") and "::tests::" not in p and "{" not in p[len(M):]}
    changed = True
    cache = {}
    while changed:
        changed = False
        for p, x in sorted(fns.items()):
            if p in sw:
                continue
            g = cache.get(p)
            if g is None:
                g = cache[p] = Fn(w.mir(p))
            an = {g.name(i): i for i in range(1, g.nargs + 1)}
            if "state" not in an:
                continue
            direct = bool(_out_writes_direct(w, g, an["state"]))
            via = any((t.get("callee") or "") in sw and any(a[0] != "k" and flow.access_path(g, a) == (("arg", an["state"]), ()) for a in t["args"]) for bi, t in g.calls())
            if direct or via:
                sw[p] = an["state"]
                changed = True
    _SW.clear()
    _SW[key] = sw
    return sw


def out_writes(w, fn, a_state, helpers=False):
    """calls that append to state.out; with helpers=True also calls of content-writing state helpers (not the flush / break helpers)"""
    out = _out_writes_direct(w, fn, a_state)
    if helpers:
        sw = state_writers(w)
        for bi, t in fn.calls():
            c = t.get("callee") or ""
            if c in sw and not NOT_CONTENT.search(c) and any(a[0] != "k" and flow.access_path(fn, a) == (("arg", a_state), ()) for a in t["args"]):
                out.append((bi, t, []))
    return out


def _out_writes_direct(w, fn, a_state):
    """[(bb, terminator, payload operands)] calls that append to state.out: String's own appenders and the string helpers above."""
    wr = string_writers(w)
    out = []
    for bi, t in fn.calls():
        c = t.get("callee") or ""
        if STR_APPEND.search(c):
            recv = [0]
        elif c in wr:
            recv = [k - 1 for k in wr[c]]
        else:
            continue
        for k in recv:
            if k < len(t["args"]) and _is_state_out(fn, t["args"][k], a_state):
                out.append((bi, t, [a for j, a in enumerate(t["args"]) if j != k]))
                break
    return out


def _payload(fn, op, variant, idx="0"):
    """operand's access path ends in <variant>.<idx> of the frame's doc"""
    r, p = flow.access_path(fn, op)
    return r[0] == "arg" and len(p) >= 2 and p[-2:] == (variant, idx)


def run(world, tier, info, only=None):
    ck = Check("C28", tier, "proof", RULE, only)
    w = world
    need = ["render_frame", "fits_flat", "emit_anchored", "render_comments", "render_inner", "strip_trailing_whitespace", "emit_break"]
    for n in need:
        if M + n not in w.fns:
            ck.missing("anchors", M + n)
    if DOC not in w.adts:
        ck.missing("anchors", DOC)
    if any(o["verdict"] == "violation" for o in ck.obs):
        return ck.finish(info)
    variants = [v["name"] for v in w.adts[DOC]["variants"]]
    ck.floor("R1", "Doc variants", len(variants), 12)
    ck.assume("String::push_str / String::push append their argument to the string; Vec::push / Vec::pop are LIFO")
    ck.assume("the Doc tree is what the emitter/formatter built; this check is about render's treatment of each node kind")

    # ------------------------------------------------------------------ render_frame
    s_rf = w.fns[M + "render_frame"]
    f = Fn(w.mir(M + "render_frame"))
    mf = MustFacts(f)
    # parameter indices by name
    argn = {f.name(i): i for i in range(1, f.nargs + 1)}
    for n in ("frame", "opts", "state", "stack"):
        if n not in argn:
            ck.missing("anchors", "render_frame parameter " + n)
    if any(o["verdict"] == "violation" for o in ck.obs):
        return ck.finish(info)
    A_STATE, A_STACK = argn["state"], argn["stack"]
    sws = [x for x in flow.enum_switches(f, "^" + re.escape(DOC) + "$")]
    if not sws:
        ck.missing("R1", "discriminant switch over Doc in render_frame")
        return ck.finish(info)
    bb_sw, t_sw = sws[0]
    arm, wildcard = flow.arms(f, t_sw)
    ck.ob("R1", "render_frame/no-wildcard", not wildcard, site(s_rf, t_sw["l"]),
          "every Doc variant has an explicit arm in render_frame" if not wildcard else
          "render_frame has a catch-all arm: variants %s are not rendered explicitly" % [v for v in variants if v not in [x[2] for x in t_sw["vals"]]])
    tgt_count = {}
    for v in variants:
        tgt_count.setdefault(arm.get(v), []).append(v)
    for v in variants:
        if v == "Nil":
            continue
        own = arm.get(v) is not None and len(tgt_count[arm[v]]) == 1
        ck.ob("R1", "render_frame/own-arm:" + v, own, site(s_rf, t_sw["l"]),
              "Doc::%s has its own arm" % v if own else "Doc::%s shares its arm with %s (or has none)" % (v, tgt_count.get(arm.get(v))))
    # fits_flat
    s_ff = w.fns[M + "fits_flat"]
    ff = Fn(w.mir(M + "fits_flat"))
    sws_ff = flow.enum_switches(ff, "^" + re.escape(DOC) + "$")
    if not sws_ff:
        ck.missing("R1", "discriminant switch over Doc in fits_flat")
    for bb, t in sws_ff:
        _, wc = flow.arms(ff, t)
        ck.ob("R1", "fits_flat/no-wildcard", not wc, site(s_ff, t["l"]),
              "every Doc variant has an explicit arm in fits_flat" if not wc else "fits_flat has a catch-all arm over Doc")

    def arm_ob(rule, v, gates, what, entry=None):
        e = arm[v] if entry is None else entry
        if e is None:
            ck.ob(rule, "render_frame/%s" % v, False, site(s_rf), "Doc::%s has no arm" % v)
            return
        if not gates:
            ck.ob(rule, "render_frame/%s" % v, False, site(s_rf, f.blocks[e]["t"].get("l")), "Doc::%s arm never %s" % (v, what))
            return
        esc = flow.escapes(f, e, gates)
        ck.ob(rule, "render_frame/%s" % v, not esc, site(s_rf, f.blocks[e]["t"].get("l")),
              "every path through the Doc::%s arm %s" % (v, what) if not esc else
              "a path through the Doc::%s arm reaches the end of render_frame without having %s (blocks %s)" % (v, what, esc))

    # Text
    g = flow.call_blocks(f, PUSH_STR, lambda fn, t: _is_state_out(fn, t["args"][0], A_STATE) and _payload(fn, t["args"][1], "Text"))
    arm_ob("R2", "Text", g, "pushed the Text payload onto state.out")
    # Anchored / Comments
    g = flow.call_blocks(f, "^" + re.escape(M) + "emit_anchored$", lambda fn, t: _payload(fn, t["args"][0], "Anchored") and
                         flow.access_path(fn, t["args"][3]) == (("arg", A_STATE), ()))
    arm_ob("R2", "Anchored", g, "called emit_anchored(payload, .., state)")
    g = flow.call_blocks(f, "^" + re.escape(M) + "render_comments$", lambda fn, t: _payload(fn, t["args"][0], "Comments") and
                         flow.access_path(fn, t["args"][3]) == (("arg", A_STATE), ()))
    arm_ob("R2", "Comments", g, "called render_comments(payload, .., state)")

    # frames pushed on the stack
    def frame_push(variant, idx, item_local=None, want_mode=None):
        def pred(fn, t):
            if flow.access_path(fn, t["args"][0]) != (("arg", A_STACK), ()):
                return False
            a = t["args"][1]
            if a[0] == "k":
                return False
            d = fn.def_of(a[1][0])
            if not d or d[0] != "s":
                return False
            rv = fn.rvalue_at(d)
            if rv[0] != "agg" or not isinstance(rv[1], dict) or not (rv[1].get("adt") or "").endswith("render::Frame"):
                return False
            # field order of Frame: indent, mode, doc -> look the doc operand up by ADT field order
            fields = [x["name"] for x in w.adts[M + "Frame"]["variants"][0]["fields"]]
            ops = dict(zip(fields, rv[2]))
            if "doc" not in ops:
                return False
            r, p = flow.access_path(fn, ops["doc"])
            if item_local is not None:
                if not (r == ("call", None, None) or True):
                    return False
                # the item bound by the loop: `_next as Some.0`
                okdoc = (r[0] == "call" and p == ("Some", "0") and r[2] == item_local)
            else:
                okdoc = r[0] == "arg" and p[-2:] == (variant, idx)
            if not okdoc:
                return False
            if want_mode:
                rm, pm = flow.access_path(fn, ops["mode"])
                if not (rm[0] == "agg" and str(rm[1]).endswith("render::Mode")):
                    return False
                dm = fn.def_of(ops["mode"][1][0]) if ops["mode"][0] != "k" else None
                rvm = fn.rvalue_at(dm) if dm and dm[0] == "s" else None
                if not (rvm and rvm[0] == "agg" and isinstance(rvm[1], dict) and rvm[1].get("variant") == want_mode):
                    return False
            return True
        return pred

    if M + "Frame" not in w.adts:
        ck.missing("anchors", M + "Frame")
        return ck.finish(info)
    arm_ob("R2", "Indent", flow.call_blocks(f, VEC_PUSH, frame_push("Indent", "1")), "pushed a frame for the inner document")
    arm_ob("R2", "Group", flow.call_blocks(f, VEC_PUSH, frame_push("Group", "0")), "pushed a frame for the inner document")
    arm_ob("R2", "ForceFlat", flow.call_blocks(f, VEC_PUSH, frame_push("ForceFlat", "0", want_mode="Flat")),
           "pushed a Flat-mode frame for the inner document")
    # Concat: the loop
    loops = flow.loops_over(f)
    concat_loops = []
    for head, t, some, none, item in loops:
        ad = []
        r, p = flow.access_path(f, t["args"][0], extra_transparent=re.compile(r"Iterator::(rev|skip|take|step_by|filter|skip_while|take_while|map|enumerate|peekable|chain|zip)$"), adapters=ad)
        if r[0] == "arg" and p[-2:] == ("Concat", "0"):
            concat_loops.append((head, t, some, none, ad))
    if arm.get("Concat") is None or not concat_loops:
        ck.ob("R2", "render_frame/Concat", False, site(s_rf), "no loop over the Concat payload found in its arm")
    for head, t, some, none, ad in concat_loops:
        names = [a.split("::")[-1] for a in ad]
        ok = names == ["rev"]
        ck.ob("R2", "render_frame/Concat/order", ok, site(s_rf, t["l"]),
              "items are pushed in reverse onto the LIFO stack (document order when popped)" if ok else
              "the Concat items iterator uses adapters %s; pushing onto a LIFO stack needs exactly .rev() and no element-dropping adapter" % names)
        g = flow.call_blocks(f, VEC_PUSH, frame_push("Concat", "0", item_local=head))
        esc = flow.escapes(f, some, g, stops=[head])
        esc_ret = [b for b in esc if b != head]
        ck.ob("R2", "render_frame/Concat/every-item", bool(g) and not esc, site(s_rf, t["l"]),
              "every iteration pushes a frame for the item and the loop has no early exit" if g and not esc else
              "an iteration can finish (blocks %s) without pushing a frame for its item" % esc)
        # the arm entry must lead into this loop on every path
        esc2 = flow.escapes(f, arm["Concat"], [head])
        ck.ob("R2", "render_frame/Concat", not esc2, site(s_rf, t["l"]), "every path through the Concat arm runs the loop over its items")

    # R3 IfBreak / pads
    mode_local = None
    for l in f.local_named("mode"):
        mode_local = l
    if mode_local is None:
        ck.missing("R3", "local `mode` in render_frame")
    else:
        def mode_gate(v, want, text_payload):
            e = arm.get(v)
            if e is None:
                return
            region = f.reach_from(e)
            if text_payload:
                pushes = [b for b in flow.call_blocks(f, PUSH_STR, lambda fn, t: _is_state_out(fn, t["args"][0], A_STATE) and _payload(fn, t["args"][1], v)) if b in region]
            else:
                pushes = [b for b, _, _ in out_writes(w, f, A_STATE, helpers=True) if b in region]
            if not pushes:
                ck.ob("R3", "render_frame/%s/pushes" % v, False, site(s_rf), "the Doc::%s arm never writes to state.out" % v)
                return
            for b in pushes:
                m = flow.mode_at(f, mf, b, mode_local)
                ck.ob("R3", "render_frame/%s/only-if-%s" % (v, want), m == want, site(s_rf, f.blocks[b]["t"]["l"]),
                      "Doc::%s writes to state.out only under mode == %s" % (v, want) if m == want else
                      "Doc::%s writes to state.out where mode is %s (must be %s)" % (v, m or "not constrained", want))
            if text_payload:
                # if: from the target of the `want` edge of the mode switch, every path pushes
                msw = [(bb, t) for bb, t in flow.enum_switches(f, r"render::Mode$") if bb in region and t["of"][0] == mode_local]
                tgts = []
                for bb, t in msw:
                    am, _ = flow.arms(f, t)
                    if am.get(want) is not None:
                        tgts.append(am[want])
                if not tgts:
                    ck.ob("R3", "render_frame/%s/if-%s" % (v, want), None, site(s_rf), "no switch on `mode` found in the arm")
                for tg in tgts:
                    esc = flow.escapes(f, tg, pushes, feasible=True)
                    ck.ob("R3", "render_frame/%s/if-%s" % (v, want), not esc, site(s_rf, f.blocks[tg]["t"].get("l")),
                          "under mode == %s every path pushes the Doc::%s text" % (want, v) if not esc else
                          "under mode == %s a path skips the Doc::%s text" % (want, v))
        mode_gate("IfBreak", "Break", True)
        mode_gate("IfBreakPad", "Break", False)
        mode_gate("IfFlatPad", "Flat", False)
        # Line: separator pushed in flat mode, emit_break in break mode
        e = arm.get("Line")
        if e is not None:
            region = f.reach_from(e)
            seps = [b for b in flow.call_blocks(f, PUSH_STR, lambda fn, t: _is_state_out(fn, t["args"][0], A_STATE) and _payload(fn, t["args"][1], "Line")) if b in region]
            brks = [b for b in flow.call_blocks(f, "^" + re.escape(M) + "emit_break$") if b in region]
            for b in seps:
                m = flow.mode_at(f, mf, b, mode_local)
                ck.ob("R3", "render_frame/Line/sep-only-if-Flat", m == "Flat", site(s_rf, f.blocks[b]["t"]["l"]), "Line's separator is pushed only in Flat mode (mode there: %s)" % m)
            for b in brks:
                m = flow.mode_at(f, mf, b, mode_local)
                ck.ob("R3", "render_frame/Line/break-only-if-Break", m == "Break", site(s_rf, f.blocks[b]["t"]["l"]), "Line breaks only in Break mode (mode there: %s)" % m)
            esc = flow.escapes(f, e, seps + brks)
            ck.ob("R3", "render_frame/Line/always-one", bool(seps) and bool(brks) and not esc, site(s_rf), "a Line always emits its separator or a break")

    anchor_obligations(ck, w, "emit_anchored", "arg")
    anchor_obligations(ck, w, "render_comments", "loop")

    # ------------------------------------------------------------------ R5 strip
    s_ri = w.fns[M + "render_inner"]
    ri = Fn(w.mir(M + "render_inner"))
    mri = MustFacts(ri)
    sem = Sem(ri, 12)
    strips = ri.calls("^" + re.escape(M) + "strip_trailing_whitespace$")
    callers = [p for p, s in w.fns.items() if any(c["c"] == M + "strip_trailing_whitespace" for c in s["calls"])]
    ck.ob("R5", "strip/only-caller", callers == [M + "render_inner"], site(s_ri), "strip_trailing_whitespace is called only from render_inner (callers: %s)" % callers)
    for bi, t in strips:
        facts = sem.facts(mri.at_entry(bi))
        ok = any(x[0] == "flag" and x[2] is True and "strip_trailing_whitespace" in repr(x[1]) for x in facts)
        ck.ob("R5", "strip/under-option", ok, site(s_ri, t["l"]), "the strip runs only when opts.strip_trailing_whitespace is set")
        r, pth = flow.access_path(ri, t["args"][0])
        ck.ob("R5", "strip/on-final-string", pth == ("out",) and r[0] in ("agg", "local", "phi"), site(s_ri, t["l"]), "the strip is applied to state.out after rendering (found %s)" % flow.fmt_path((r, pth), ri))
    # render_frame loop precedes: the strip call block is not inside the frame loop
    rf_calls = ri.calls("^" + re.escape(M) + "render_frame$")
    ck.ob("R5", "strip/after-all-frames", all(not ri.reaches(sb, rb) for sb, _ in strips for rb, _ in rf_calls) and bool(rf_calls), site(s_ri),
          "no frame is rendered after the strip")
    st = Fn(w.mir(M + "strip_trailing_whitespace"))
    s_st = w.fns[M + "strip_trailing_whitespace"]
    trims = [t["callee"] for _, t in st.calls(r"core::str::<impl str>::(trim|strip_|split_at|get|char_indices|trim_)")]
    bad = [c for c in trims if not re.search(r"::trim_end(_matches)?$", c)]
    ck.ob("R5", "strip/only-trims-ends", bool(trims) and not bad, site(s_st), "strip_trailing_whitespace shortens lines only with trim_end/trim_end_matches (%s)" % sorted(set(x.split("::")[-1] for x in trims)))
    lps = flow.loops_over(st)
    if len(lps) == 1:
        head, t, some, none, item = lps[0]
        gates = flow.call_blocks(st, PUSH_STR, lambda fn, tt: (lambda rp: rp[0][0] == "call" and re.search(r"trim_end", rp[0][1] or ""))(flow.access_path(fn, tt["args"][1])))
        esc = flow.escapes(st, some, gates, stops=[head])
        ck.ob("R5", "strip/every-line-kept", bool(gates) and not esc, site(s_st), "every line is pushed (trimmed) on every iteration, no early exit")
    else:
        ck.ob("R5", "strip/every-line-kept", None, site(s_st), "loop shape not recognised")

    # ------------------------------------------------------------------ R7 no output while an indent is pending
    FLUSH = re.compile(r"^veryl_pretty::render::flush_pending(_with_indent)?$")
    EXEMPT7 = {M + "flush_pending": "is the flush", M + "flush_pending_with_indent": "is the flush",
               M + "emit_break": "writes the newline itself and replaces the pending indent (back-to-back breaks give blank lines)",
               M + "render_comments": "tracks `pending` itself and clears pending_indent after writing its own padding",
               M + "strip_trailing_whitespace": "works on a copy of the finished string"}
    n7 = 0
    for p7, s7 in sorted(w.fns.items()):
        if not p7.startswith(M) or s7.get("alias_of") or "::tests::" in p7 or p7 in EXEMPT7:
            continue
        if not any(c["c"] and (STR_APPEND.search(c["c"]) or c["c"] in string_writers(w)) for c in s7["calls"]):
            continue
        g7 = Fn(w.mir(p7))
        an7 = {g7.name(i): i for i in range(1, g7.nargs + 1)}
        if "state" not in an7:
            continue
        m7 = MustFacts(g7)
        pushes7 = [(bi, t) for bi, t, _ in out_writes(w, g7, an7["state"])]
        for bi, t in pushes7:
            n7 += 1
            F = m7.at_entry(bi) or ()
            local_ok = any(a[0] == "called" and FLUSH.search(a[1]) for a in F)
            ok = local_ok
            why = "flush_pending ran before this write"
            if not ok:
                # a helper: every call site must have flushed before calling it
                sites7 = []
                for q, sq in w.fns.items():
                    if q.startswith(M) and not sq.get("alias_of") and any(c["c"] == p7 for c in sq["calls"]):
                        gq = Fn(w.mir(q))
                        if q in EXEMPT7:
                            # a helper extracted from an exempt function inherits that function's reason at this call site
                            sites7.extend(True for _ in gq.calls("^" + re.escape(p7) + "$"))
                            continue
                        mq = MustFacts(gq)
                        for cb, ct in gq.calls("^" + re.escape(p7) + "$"):
                            Fq = mq.at_entry(cb) or ()
                            sites7.append(any(a[0] == "called" and FLUSH.search(a[1]) for a in Fq))
                ok = bool(sites7) and all(sites7)
                why = "every caller flushes the pending indent before calling this helper (or is itself one of the flush / break / comment helpers)"
            ck.ob("R7", "flush-before-write:%s@%d" % (p7.split("::")[-1], _ordinal_call(g7, pushes7, bi)), ok, site(s7, t["l"]),
                  why if ok else "state.out is written while an indent may still be pending: the indent is flushed later with an absolute column, "
                  "so the cursor (and every anchor recorded after it on that line) is off by what was written here")
    ck.floor("R7", "writes to state.out outside the flush/break/comment helpers", n7, 4)
    cursor_obligations(ck, w)
    n_rel = 0
    n_rel = relative_advances(ck, "R8", w)
    ck.floor("R8", "relative text advances of state.col", n_rel, 1)
    # the IfBreak payload is only ever a single-line literal
    n_ib = 0
    for q, sq in sorted(w.fns.items()):
        if sq.get("alias_of") or not any((c["c"] or "") == "veryl_pretty::doc::if_break" for c in sq["calls"]):
            continue
        gq = Fn(w.mir(q))
        for bi, t in gq.calls(r"^veryl_pretty::doc::if_break$"):
            n_ib += 1
            d = gq.describe(t["args"][0], 8)
            txt = repr(d)
            lit = re.findall(r"\('const', '([^']*)'\)", txt)
            ok = bool(lit) and all("\\n" not in x and "\n" not in x for x in lit) and "arg" not in txt
            ck.ob("R8", "if_break-texts-are-single-line:%s@%d" % (q.split("::")[-1], n_ib), ok if lit or "arg" in txt else None, site(sq, t["l"]),
                  "doc::if_break is given the literal %s" % lit if ok else "doc::if_break is given a text that is not a single-line literal (%s)" % txt[:80])
    ck.floor("R8", "doc::if_break call sites", n_ib, 5)
    n_col = col_units(ck, w)
    ck.analysed = {"functions": [M + n for n in need], "doc_variants": variants, "col_writes": n_col}
    return ck.finish(info)


def relative_advances(ck, R, w):
    """every function of veryl_pretty::render (helpers included, wherever the advance was moved to)"""
    n = 0
    for p, x in sorted(w.fns.items()):
        if not p.startswith(M) or x.get("alias_of") or "::tests::" in p or "{" in p[len(M):]:
            continue
        n += relative_advance_guarded(ck, R, w, p, r"render::State$", "col", p.split("::")[-1])
    return n


def _nl_probe(e, out):
    """collect the pattern operand of every matches/find/rfind/split_once/rsplit_once call in a described expression"""
    if isinstance(e, tuple):
        if len(e) >= 3 and e[0] == "call" and isinstance(e[1], str) and re.search(r"<impl str>::(matches|rfind|find|rsplit_once|split_once|rmatches|contains)$", e[1]) \
                and isinstance(e[2], tuple) and len(e[2]) >= 2:
            out.append(e[2][1])
        for y in e:
            _nl_probe(y, out)
    return out


def _probes_newline_char(e):
    pats = _nl_probe(e, [])
    return bool(pats) and all(pt == ("const", 10) or pt == ("const", "\n") for pt in pats)


# ------------------------------------------------------------------ a relative advance needs a text without line breaks
def relative_advance_guarded(ck, R, w, p, adt_rx, field, label):
    """`cursor += chars(text)` is right only if `text` has no line break; otherwise the cursor is 1 (or 0) + chars(last line).
    Every write of the column that adds a character count of a text to the column's old value must be dominated by a fact that the
    text's newline count is zero (or that no '\n' was found)."""
    from mirlib import MustFacts, Sem
    sm = w.fns[p]
    g = Fn(w.mir(p))
    mf = MustFacts(g)
    sem = Sem(g, 14)
    n = 0
    for bi, si, st in flow.field_writes(g, adt_rx, field):
        if st[2][0] != "use" or st[2][1][0] == "k":
            continue
        d = repr(g.describe(st[2][1], 10))
        if not (re.search(r"'bin', '(Add|AddWithOverflow)'", d) and ("'%s'" % field) in d and re.search(r"Iterator>?::count", d) and "chars" in d):
            continue
        n += 1
        S = mf.state_at(bi, si)
        fx = sem.facts(S[0]) if S else ()
        ok = wrong_probe = False
        # separators: Doc::Line holds a &'static str chosen by the builders; Doc::IfBreak's callers are checked in R8 (single-line literals)
        m_sep = re.search(r"'v', '(Line|IfBreak)'", d) or re.search(r"\('(Line|IfBreak)'", d)
        if m_sep:
            ck.ob(R, "relative-advance-needs-single-line:%s@%d" % (label, n), True, site(sm, st[3]),
                  "the text is the separator payload of Doc::%s (a literal without line breaks, see if_break-texts-are-single-line)" % m_sep.group(1))
            continue
        for x in fx:
            # the probe must look for the line-feed character itself: a text can hold '\n' whatever the configured newline string is
            if x[0] == "cmp" and len(x) >= 5 and "matches" in repr(x[2]) and "count" in repr(x[2]) and repr(x[3]) in ("('const', 0)",):
                if (x[1], x[4]) in (("Gt", False), ("Le", True), ("Eq", True), ("Ne", False), ("Lt", True)) or (x[1] == "Ge" and False):
                    if _probes_newline_char(x[2]):
                        ok = True
                    else:
                        wrong_probe = True
            if x[0] == "isvariant" and x[2] == "None" and re.search(r"rfind|find|rsplit_once|split_once", repr(x[1])):
                if _probes_newline_char(x[1]):
                    ok = True
                else:
                    wrong_probe = True
        ck.ob(R, "relative-advance-needs-single-line:%s@%d" % (label, n), ok, site(sm, st[3]),
              "the column is advanced by the text's character count only where the text has no line break" if ok else
              "the single-line test that guards this relative advance does not look for the '\\n' character (it searches for another pattern, e.g. the "
              "configured newline string): a text holding a bare line feed is then counted as one line" if wrong_probe else
              "the column is advanced relatively (old column + characters of the text) on a path where the text may contain a line break: after a "
              "multi-line token the cursor is too far right and what follows on the line is placed (or mapped) wrongly")
    return n


# ------------------------------------------------------------------ R6 units
def col_units(ck, w, R6="R6", floor=True):
    n_col = 0
    for name in ("render_frame", "emit_anchored", "render_comments", "emit_break", "flush_pending", "flush_pending_with_indent"):
        p = M + name
        if p not in w.fns:
            continue
        g = Fn(w.mir(p))
        for bi, si, s in flow.field_writes(g, r"render::State$", "col"):
            n_col += 1
            rv = s[2]
            ops = [o for o in rv[1:] if isinstance(o, list) and o and o[0] in ("c", "m", "k")]
            srcs = set()
            for o in ops:
                srcs |= g.prov(o, depth=16)
            lens = sorted({x[1] for x in srcs if x[0] == "call" and re.search(r"(str>|String|impl str>)::len$", x[1] or "")})
            ck.ob(R6, "col-is-chars:%s@%d" % (name, _nth(g, bi, si, "col")), not lens, site(w.fns[p], s[3]),
                  "state.col is advanced by a character count" if not lens else "state.col receives a byte length (%s): columns drift on non-ASCII text" % lens)
    if floor:
        ck.floor(R6, "writes to state.col", n_col, 10)
    return n_col


_CW = {}


def col_writers(w):
    """render helpers with a `state` parameter that write state.col on every path to their return (directly or through another such
    helper): a call `advance_over(state, text)` after a write is the cursor update of that write"""
    key = id(w)
    if key in _CW:
        return _CW[key]
    cw = set()
    fns = {p: x for p, x in w.fns.items() if p.startswith(M) and not x.get("alias_of") and "::tests::" not in p and "{" not in p[len(M):]}
    cache = {}
    changed = True
    while changed:
        changed = False
        for p, x in sorted(fns.items()):
            if p in cw:
                continue
            g = cache.get(p)
            if g is None:
                g = cache[p] = Fn(w.mir(p))
            an = {g.name(i): i for i in range(1, g.nargs + 1)}
            if "state" not in an:
                continue
            gates = {bi for bi, _, _ in flow.field_writes(g, r"render::State$", "col")}
            for bi, t in g.calls():
                if (t.get("callee") or "") in cw and any(flow.access_path(g, a) == (("arg", an["state"]), ()) for a in t["args"] if a[0] != "k"):
                    gates.add(bi)
            if gates and not flow.escapes(g, 0, sorted(gates)):
                cw.add(p)
                changed = True
    _CW.clear()
    _CW[key] = cw
    return cw


# ------------------------------------------------------------------ the cursor follows the text (R8 + R9)
def cursor_obligations(ck, w, R8="R8", R9="R9", floors=True):
    """R8: `state.col = 0` only where the last thing written to state.out on every path is the newline (opts.newline) - a column reset
    anywhere else loses the text already on the line. R9: every write to state.out is followed, on every path to the function's return,
    by a write of state.col (or by a newline helper that resets it)."""
    n8 = n9 = 0
    for p, x in sorted(w.fns.items()):
        if not p.startswith(M) or x.get("alias_of") or "::tests::" in p:
            continue
        if not any(c["c"] and (STR_APPEND.search(c["c"]) or c["c"] in string_writers(w)) for c in x["calls"]):
            continue
        g = Fn(w.mir(p))
        an = {g.name(i): i for i in range(1, g.nargs + 1)}
        if "state" not in an:
            continue
        a_state = an["state"]
        a_opts = an.get("opts")
        ow = out_writes(w, g, a_state)
        if not ow:
            continue
        short = p.split("::")[-1]
        # ---- R8: forward "what was written last" (NL / TEXT / none yet), joined over paths
        kind = {}
        for bi, t, pay in ow:
            nl = False
            for a in pay:
                r, pth = flow.access_path(g, a)
                if a_opts is not None and r == ("arg", a_opts) and pth == ("newline",):
                    nl = True
            kind[bi] = "NL" if nl else "TEXT"
        st_in = {0: "NONE"}
        work = [0]
        while work:
            b = work.pop()
            v = kind.get(b, st_in[b])
            for sc in g.succ[b]:
                if g.blocks[sc].get("cu"):
                    continue
                old = st_in.get(sc)
                new = v if old is None or old == v else "MIXED"
                if new != old:
                    st_in[sc] = new
                    work.append(sc)
        colw = flow.field_writes(g, r"render::State$", "col")
        for bi, si, stx in colw:
            rv = stx[2]
            if rv[0] == "use" and rv[1][0] == "k" and isinstance(rv[1][1], dict) and rv[1][1].get("int") == "0":
                n8 += 1
                last = st_in.get(bi, "UNREACHABLE")
                ok = last in ("NL", "UNREACHABLE")
                ck.ob(R8, "col-reset-after-newline:%s@%d" % (short, _nth(g, bi, si, "col")), ok, site(x, stx[3]),
                      "state.col is reset to 0 right after the newline was written" if ok else
                      "state.col is reset to 0 where the last text written to state.out is %s: the characters after the last line "
                      "break of that text are on the current line, so every anchor recorded later on this line is too far left" %
                      {"TEXT": "not the newline", "MIXED": "not the newline on some path", "NONE": "unknown (nothing written in this function)"}[last])
        # ---- R9: a write is followed by a cursor update
        cws = col_writers(w)
        NLH = [bi for bi, t in g.calls() if (t.get("callee") or "") == M + "emit_break" or
               ((t.get("callee") or "") in cws and (t.get("callee") or "") != p and
                any(flow.access_path(g, a) == (("arg", a_state), ()) for a in t["args"] if a[0] != "k"))]
        gates = sorted({bi for bi, _, _ in colw} | set(NLH))
        for bi, t, pay in ow:
            n9 += 1
            nxt = t.get("to")
            if nxt is None:
                continue
            # statements of the successor block run after the call; a col write there is a gate like any other
            esc = flow.escapes(g, nxt, gates)
            ck.ob(R9, "cursor-follows-write:%s@%d" % (short, _ordinal_call(g, [(b, tt) for b, tt, _ in ow], bi)), not esc, site(x, t["l"]),
                  "every path from this write to the return updates state.col" if not esc else
                  "text is written to state.out and the function can return (blocks %s) without updating state.col: the cursor, and every "
                  "anchor recorded after it on this line, lags behind the text" % esc)
    if floors:
        ck.floor(R8, "column resets", n8, 3)
        ck.floor(R9, "writes to state.out", n9, 8)
    return n8, n9


# ------------------------------------------------------------------ emit_anchored / render_comments (R2 + R4)
def anchor_obligations(ck, w, name, item_kind, R2="R2", R4="R4"):
    p = M + name
    s = w.fns[p]
    g = Fn(w.mir(p))
    mg = MustFacts(g)
    an = {g.name(i): i for i in range(1, g.nargs + 1)}
    if "state" not in an:
        ck.missing(R4, name + " parameter state")
        return
    a_state = an["state"]
    if item_kind == "arg":
        a_item = an.get("a")
        if a_item is None:
            ck.missing(R4, name + " parameter a")
            return

        def is_item(r, pth, field):
            return r == ("arg", a_item) and pth == (field,)
        entries = [(0, None, None)]
    else:
        a_cs = an.get("cs")
        lp = []
        for head, t, some, none, item in flow.loops_over(g):
            ad = []
            r, pth = flow.access_path(g, t["args"][0], extra_transparent=re.compile(r"Iterator::(rev|skip|take|step_by|filter|skip_while|take_while|map|enumerate|peekable|chain|zip)$"), adapters=ad)
            if r == ("arg", a_cs) and pth == ():
                lp.append((head, t, some, none, ad))
        if len(lp) != 1:
            ck.ob(R2, name + "/loop", None if lp else False, site(s), "expected exactly one loop over `cs`, found %d" % len(lp))
            return
        head, t, some, none, ad = lp[0]
        ck.ob(R2, name + "/all-comments", not ad, site(s, t["l"]),
              "the loop visits every comment of the slice in order" if not ad else "the comment loop uses adapters %s" % ad)

        def is_item(r, pth, field):
            return r[0] == "call" and r[2] == head and pth == ("Some", "0", field)
        entries = [(some, head, none)]
    for entry, head, none in entries:
        gates = flow.call_blocks(g, PUSH_STR, lambda fn, t: _is_state_out(fn, t["args"][0], a_state) and is_item(*flow.access_path(fn, t["args"][1]), "text"))
        esc = flow.escapes(g, entry, gates, stops=[head] if head is not None else [])
        ck.ob(R2, name + "/pushes-text", bool(gates) and not esc, site(s),
              "%s pushes the item's text onto state.out on every path%s" % (name, " of every iteration, and never leaves the loop early" if head is not None else "")
              if gates and not esc else "%s can finish %s without pushing the item's text (blocks %s)" % (name, "an iteration" if head is not None else "", esc))
        # anchors
        apush = []
        for bi, t in g.calls(VEC_PUSH):
            r, pth = flow.access_path(g, t["args"][0])
            if r == ("arg", a_state) and pth == ("anchors",):
                apush.append((bi, t))
        if not apush:
            ck.ob(R4, name + "/records-anchor", False, site(s), "%s never pushes a RenderedAnchor" % name)
            continue
        for bi, t in apush:
            a = t["args"][1]
            d = g.def_of(a[1][0]) if a[0] != "k" else None
            rv = g.rvalue_at(d) if d and d[0] == "s" else None
            if not (rv and rv[0] == "agg" and isinstance(rv[1], dict) and (rv[1].get("adt") or "").endswith("RenderedAnchor")):
                ck.ob(R4, name + "/anchor-shape", None, site(s, t["l"]), "anchor value is not built in place; cannot decide")
                continue
            fields = [x["name"] for x in w.adts[M + "RenderedAnchor"]["variants"][0]["fields"]]
            ops = dict(zip(fields, rv[2]))
            # dst_line = state.current_line
            r, pth = flow.access_path(g, ops["dst_line"])
            ck.ob(R4, name + "/dst_line", r == ("arg", a_state) and pth == ("current_line",), site(s, t["l"]),
                  "dst_line = state.current_line (found %s)" % flow.fmt_path((r, pth), g))
            # dst_column = (state.col as u32) + 1
            okc, why = _col_plus_one(g, ops["dst_column"], a_state)
            ck.ob(R4, name + "/dst_column", okc, site(s, t["l"]), "dst_column = state.col + 1" if okc else "dst_column is %s, expected state.col + 1" % why)
            for fld, src in (("src_line", "src_line"), ("src_column", "src_column"), ("text", "text")):
                r, pth = flow.access_path(g, ops[fld])
                ck.ob(R4, name + "/" + fld, is_item(r, pth, src), site(s, t["l"]),
                      "%s is the item's own %s (found %s)" % (fld, src, flow.fmt_path((r, pth), g)))
            # order: flush before reading the position (emit_anchored); nothing moves the cursor between the read and the text push
            read_bbs = _read_blocks(g, ops, a_state)
            if item_kind == "arg":
                F = mg.at_entry(min(read_bbs)) if read_bbs else None
                okf = F is not None and ("called", M + "flush_pending_with_indent") in F
                ck.ob(R4, name + "/flush-before-anchor", okf, site(s, t["l"]),
                      "the pending indent is flushed before the anchor position is read" if okf else
                      "the anchor position is read before flush_pending_with_indent ran: the column misses the indent")
            movers = _cursor_movers(g, read_bbs, gates, a_state, bi, head)
            ck.ob(R4, name + "/nothing-between-anchor-and-text", not movers, site(s, t["l"]),
                  "between reading (current_line, col) for the anchor and pushing the text nothing writes state.out/col/current_line" if not movers else
                  "the cursor moves between the anchor's position read and the text push: %s" % movers[:3])
            # the anchor is recorded before the text is written: the anchor push is not reachable from a text gate within the iteration
            late = [gb for gb in gates if g.reaches(g.blocks[gb]["t"]["to"], bi, avoid=[head] if head is not None else [])]
            ck.ob(R4, name + "/anchor-before-text", not late, site(s, t["l"]),
                  "the anchor is recorded before its text is pushed" if not late else "the anchor is recorded after the text was pushed (position is past the text)")


def _ordinal_call(fn, lst, bi):
    order = sorted(lst, key=lambda x: (x[1]["l"], x[0]))
    for i, (b, _) in enumerate(order):
        if b == bi:
            return i + 1
    return 0


def _nth(fn, bi, si, field):
    ws = sorted((s[3], b, i) for b, i, s in flow.field_writes(fn, r"render::State$", field))
    for n, (l, b, i) in enumerate(ws):
        if (b, i) == (bi, si):
            return n + 1
    return 0


def _col_plus_one(g, op, a_state):
    """op == (state.col as u32) + 1 through checked-add lowering"""
    r, pth = flow.access_path(g, op)
    # AddWithOverflow result: `_13 = move _16.0` where _16 = AddWithOverflow(_14, 1)
    if op[0] == "k":
        return False, "a constant"
    l = op[1][0]
    for _ in range(6):
        d = g.def_of(l)
        if not d or d[0] != "s":
            return False, flow.fmt_path((r, pth), g)
        rv = g.rvalue_at(d)
        if rv[0] == "use" and rv[1][0] != "k":
            l = rv[1][1][0]
            continue
        if rv[0] == "bin" and rv[1] in ("AddWithOverflow", "Add", "AddUnchecked"):
            a, b = rv[2], rv[3]
            if b[0] == "k" and str(b[1].get("int")) == "1":
                ra, pa = flow.access_path(g, a)
                if ra == ("arg", a_state) and pa == ("col",):
                    return True, ""
                return False, "%s + 1" % flow.fmt_path((ra, pa), g)
            return False, "a sum without the +1"
        if rv[0] == "cast":
            ra, pa = flow.access_path(g, rv[2])
            return False, flow.fmt_path((ra, pa), g) + " (no +1)"
        return False, rv[0]
    return False, "?"


def _read_blocks(g, ops, a_state):
    """blocks where state.current_line / state.col are copied for the anchor"""
    out = set()
    want = set()
    for k in ("dst_line", "dst_column"):
        o = ops[k]
        if o[0] != "k":
            want.add(o[1][0])
    # walk back to the statements reading (*state).current_line / col
    seen = set()
    work = list(want)
    while work:
        l = work.pop()
        if l in seen:
            continue
        seen.add(l)
        for d in g.defs.get(l, []):
            if d[0] != "s":
                continue
            rv = g.rvalue_at(d)
            for o in rv[1:]:
                if isinstance(o, list) and o and o[0] in ("c", "m"):
                    pl = o[1]
                    if pl[0] == a_state and any(isinstance(p, list) and p[0] == "f" and p[2] in ("col", "current_line") for p in pl[1]):
                        out.add(d[1])
                    else:
                        work.append(pl[0])
    return out


def _cursor_movers(g, read_bbs, gates, a_state, anchor_push_bb, head=None):
    """statements/calls that move the output cursor on a path (within one iteration) from the position read to the text push"""
    if not read_bbs or not gates:
        return ["position read or text push not found"]
    avoid = [head] if head is not None else []
    region = set()
    for rb in read_bbs:
        for b in g.reach_from(rb, avoid=avoid):
            if b in gates:
                continue
            if any(g.reaches(b, gb, avoid=avoid) for gb in gates):
                region.add(b)
    movers = []
    for b in sorted(region):
        blk = g.blocks[b]
        for si, s in enumerate(blk["s"]):
            if s[0] == "=" and s[1][0] == a_state:
                fl = [p[2] for p in s[1][1] if isinstance(p, list) and p[0] == "f"]
                if fl and fl[0] in ("out", "col", "current_line"):
                    if b in read_bbs and _before_read(g, b, si, a_state) and not any(g.reaches(x, b, avoid=avoid) and x != b for x in read_bbs):
                        continue
                    movers.append("%s written at line %s" % (fl[0], s[3]))
        t = blk["t"]
        if t["t"] == "call" and b != anchor_push_bb:
            for a in t["args"]:
                if a[0] == "k":
                    continue
                r, pth = flow.access_path(g, a)
                if r == ("arg", a_state) and pth in ((), ("out",)):
                    c = t.get("callee") or "?"
                    if re.search(r"Deref>::deref$|Clone>::clone$", c):
                        continue
                    movers.append("%s called at line %s" % (c, t["l"]))
    return movers


def _before_read(g, b, si, a_state):
    for j, s in enumerate(g.blocks[b]["s"]):
        if j <= si:
            continue
        if s[0] == "=":
            for o in s[2][1:]:
                if isinstance(o, list) and o and o[0] in ("c", "m") and o[1][0] == a_state and \
                        any(isinstance(p, list) and p[0] == "f" and p[2] in ("col", "current_line") for p in o[1][1]):
                    return True
    return False
