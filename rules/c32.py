"""C32 - test results do not depend on scheduling.

Decided (DESIGN.md section 3 C32, section 8): seed purity, per-test reset of the worker thread's state, output capture
order, and that dispatch-order data reaches nothing but the queue order. Not decided: equality of verdicts over all
schedules; that range draws are within bounds for every width (arithmetic).
"""
import re
from collections import defaultdict
from core import Check, site
from mirlib import Fn, MustFacts, CallGraph
import flow
from taint import Taint

RULE = (
    "R1 seed purity: random_table::derive_seed and component::runtime::instance_seed (with everything they can call) reach no source of "
    "run-to-run or schedule variation (time, thread id, process id, OS randomness, RandomState, atomics/static counters) and touch no "
    "thread-local other than the string interning table; derive_seed's base is RandomTable.base_seed, which only reset(base_seed) writes, "
    "and reset is given sim.ir.seed; instance_seed is given build_components' seed_base/test_name parameters, which come from "
    "init_components(sim.ir.seed, module_name). R2 per-test reset: a worker thread runs many tests in sequence, so every thread-local of "
    "veryl_simulator that code reachable from testbench::exec touches is either reset by a call that run_testbench makes before exec on "
    "every path, or is in the frozen exemption table with its reason (interning, validation stride counters, the write log that every "
    "Simulator step installs and clears itself). R3 output capture: in the worker loop output_buffer::enable precedes the test's build and "
    "run, output_buffer::take follows them and precedes taking the print lock. R4 dispatch order: the prior timings that sort the queue "
    "flow into nothing but the sort comparator (and the timing file that is rewritten), never into a test's inputs. R5 random_table::reset clears "
    "the generators and records the seed on every path; every value get_range returns is computed from both bounds. R6 the digest that keys the "
    "process-wide comb-pipeline cache hashes every Liveness field collect_dead_offsets decides on, and its selection of offsets does not depend "
    "on liveness counters."
)

CRATES = ["veryl_simulator", "veryl", "veryl_parser", "veryl_analyzer"]
DS = "veryl_simulator::random_table::derive_seed"
IS = "veryl_simulator::component::runtime::instance_seed"
RT = "veryl_simulator::testbench::run_testbench"
EXEC = "veryl_simulator::testbench::exec"
NONDET = re.compile(
    r"^std::time::(SystemTime|Instant)::(now|elapsed)$|^std::thread::(current|Thread::id)|ThreadId|^std::process::id$|^rand::(rng|random|thread_rng)|^getrandom::|"
    r"RandomState::new$|^std::env::(var|vars|args)|sync::atomic::Atomic[A-Za-z0-9]+::(fetch_|load|swap|store)|^uuid::|hash::BuildHasher>::hash_one$|"
    r"core::ptr::.*::addr$|as_ptr$")
EXEMPT_TLS = {
    "veryl_parser::resource_table::STRING_TABLE": "string interning: append-only and content-addressed; a name resolves to the same text whatever ran before",
    "veryl_parser::resource_table::PATHBUF_TABLE": "path interning, same reason",
    "veryl_parser::text_table::TEXT_TABLE": "source texts imported once per worker thread from the main thread's snapshot, read-only afterwards",
    "veryl_simulator::backend::validate::SETTLE_COUNT": "stride counter of the optional VERYL_AOT_C_VALIDATE cross-check; selects which cycles are double-checked, never a result",
    "veryl_simulator::simulator::Simulator::validate_event_aot::EV_COUNT": "stride counter of the same optional validation mode",
    "veryl_simulator::ir::write_log::EVENT_WRITE_LOG": "installed at the start and cleared at the end of every Simulator step (bracket checked below)",
}


def run(world, tier, info, only=None):
    ck = Check("C32", tier, "other", RULE, only)
    w = world
    for p in (DS, IS, RT, EXEC, "veryl_simulator::random_table::reset"):
        if p not in w.fns:
            ck.missing("anchors", p)
    if any(o["verdict"] == "violation" for o in ck.obs):
        return ck.finish(info)
    cg = CallGraph(w)
    tls_of = defaultdict(set)
    for p, s in w.fns.items():
        for c in s["calls"]:
            if c.get("tls"):
                tls_of[p].add(c["tls"])
    ck.assume("rand_pcg::Pcg64::seed_from_u64 and the uniform range sampler are deterministic functions of the seed and the draw sequence")
    # ---------------- R1 ---------------------------------------------------------------------------------------
    for root in (DS, IS):
        reach = cg.reachable([root])
        s = w.fns[root]
        bad = []
        for p in sorted(reach):
            if p in w.fns:
                for c in w.fns[p]["calls"]:
                    if NONDET.search(c["c"] or ""):
                        bad.append("%s calls %s" % (p.split("::")[-1], c["c"]))
            elif NONDET.search(p):
                bad.append(p)
        ck.ob("R1", "pure:%s/no-variation-source" % root.split("::")[-1], not bad, site(s),
              "%s and its %d reachable callees reach no time/thread/pid/random/atomic source" % (root.split("::")[-1], len(reach)) if not bad else
              "%s reaches a source of run-to-run or schedule variation: %s" % (root.split("::")[-1], bad[:3]))
        tl = sorted({k for p in reach for k in tls_of.get(p, ())})
        extra = [k for k in tl if k not in ("veryl_parser::resource_table::STRING_TABLE",)]
        ck.ob("R1", "pure:%s/thread-locals" % root.split("::")[-1], not extra, site(s),
              "touches no thread-local except the string interning table" if not extra else "reads or writes thread-local state: %s" % extra)
        # statics
        st = sorted({c for p in reach if p in w.fns for c in w.fns[p].get("consts", []) if re.search(r"COUNTER|NEXT_|SEQ", c)})
        ck.ob("R1", "pure:%s/no-static-counter" % root.split("::")[-1], not st, site(s), "no static counter is consulted" if not st else "consults %s" % st)
    # call sites of derive_seed: base derives from RandomTable.base_seed
    n = 0
    for p, s in sorted(w.fns.items()):
        if s.get("alias_of"):
            continue
        if any(c["c"] == DS for c in s["calls"]):
            f = Fn(w.mir(p))
            for bi, t in f.calls("^" + re.escape(DS) + "$"):
                n += 1
                pv = f.prov(t["args"][0], depth=24)
                ok = any(x[0] == "field" and x[1] == "base_seed" for x in pv) or any(x[0] == "arg" and "upvar" in repr(x) for x in pv) or \
                    any(x[0] == "arg" for x in pv) and s.get("kind") == "closure"
                ck.ob("R1", "derive_seed-base:%s" % _short(p), ok, site(s, t["l"]), "the base handed to derive_seed is RandomTable.base_seed")
    ck.floor("R1", "derive_seed call sites", n, 2)
    writers = [p for p, s in w.fns.items() if ["veryl_simulator::random_table::RandomTable", "base_seed"] in [list(x) for x in s["fw"]] and not s.get("alias_of")]
    ck.ob("R1", "base_seed-written-only-by-reset", all(re.search(r"random_table::reset(::\{closure#\d+\})?$", p) for p in writers) and bool(writers), site(w.fns[DS]),
          "RandomTable.base_seed is written only in random_table::reset (writers: %s)" % [_short(p) for p in writers])
    n = 0
    for p, s in sorted(w.fns.items()):
        if s.get("alias_of") or "::tests::" in p:
            continue
        if any(c["c"] == "veryl_simulator::random_table::reset" for c in s["calls"]):
            f = Fn(w.mir(p))
            for bi, t in f.calls(r"^veryl_simulator::random_table::reset$"):
                n += 1
                r, pth = flow.access_path(f, t["args"][0])
                ck.ob("R1", "reset-seed:%s" % _short(p), pth[-2:] == ("ir", "seed"), site(s, t["l"]), "random_table::reset is given sim.ir.seed (found %s)" % flow.fmt_path((r, pth), f))
    ck.floor("R1", "random_table::reset call sites", n, 1)
    n = 0
    for p, s in sorted(w.fns.items()):
        if s.get("alias_of") or "::tests::" in p:
            continue
        if any(c["c"] == IS for c in s["calls"]):
            f = Fn(w.mir(p))
            an = {f.name(i): i for i in range(1, f.nargs + 1)}
            for bi, t in f.calls("^" + re.escape(IS) + "$"):
                n += 1
                a0 = flow.access_path(f, t["args"][0])
                a1 = flow.access_path(f, t["args"][1])
                ck.ob("R1", "instance_seed-args:%s" % _short(p), a0 == (("arg", an.get("seed_base")), ()) and a1[0] == ("arg", an.get("test_name")), site(s, t["l"]),
                      "instance_seed(seed_base, test_name, instance name) uses the caller's seed_base and test_name (found %s, %s)" % (flow.fmt_path(a0, f), flow.fmt_path(a1, f)))
    ck.floor("R1", "instance_seed call sites", n, 1)
    for p, s in sorted(w.fns.items()):
        if s.get("alias_of") or "::tests::" in p or s["crate"] != "veryl_simulator":
            continue
        if any(c["c"] == "veryl_simulator::simulator::Simulator::init_components" for c in s["calls"]):
            f = Fn(w.mir(p))
            for bi, t in f.calls(r"Simulator::init_components$"):
                r, pth = flow.access_path(f, t["args"][1])
                ck.ob("R1", "init_components-seed:%s" % _short(p), pth[-2:] == ("ir", "seed"), site(s, t["l"]), "init_components is given sim.ir.seed (found %s)" % flow.fmt_path((r, pth), f))
    # ---------------- R2 ---------------------------------------------------------------------------------------
    reach = cg.reachable([EXEC])
    keys = sorted({k for p in reach for k in tls_of.get(p, ())})
    ck.floor("R2", "thread-locals touched by code reachable from testbench::exec", len(keys), 4)
    rt = Fn(w.mir(RT))
    mrt = MustFacts(rt)
    execs = rt.calls("^" + re.escape(EXEC) + "$")
    ck.floor("R2", "exec calls in run_testbench", len(execs), 1)
    writers_of = defaultdict(set)
    for p, ks in tls_of.items():
        for k in ks:
            writers_of[k].add(p)
    for k in keys:
        if k in EXEMPT_TLS:
            ck.ob("R2", "per-test-state:%s" % k, True, site(w.fns[RT]), "exempt: " + EXEMPT_TLS[k])
            continue
        resetters = [p for p in writers_of[k] if re.search(r"::(reset|clear|enable|init)$", p)]
        ok = False
        which = None
        for eb, et in execs:
            F = mrt.at_entry(eb) or ()
            for r in resetters:
                if ("called", r) in F:
                    ok = True
                    which = r
        # or by the per-test caller in the worker loop (output capture)
        if not ok and k == "veryl_simulator::output_buffer::BUFFER":
            ok = None  # decided by R3
        if ok is None:
            continue
        ck.ob("R2", "per-test-state:%s" % k, ok, site(w.fns[RT]),
              "%s is reset by %s before exec on every path" % (k.split("::")[-2] + "::" + k.split("::")[-1], _short(which)) if ok else
              "%s is touched by the test run (%s) but run_testbench does not reset it before exec: a worker thread carries it from one test into "
              "the next, so a test's result depends on what ran before it on that thread" % (k, sorted(_short(p) for p in writers_of[k] & reach)[:4]))
    # write log bracket
    for stepfn in ("veryl_simulator::simulator::Simulator::step_legacy", "veryl_simulator::simulator::Simulator::step_with_derived_clocks"):
        if stepfn not in w.fns:
            ck.missing("R2", stepfn)
            continue
        f = Fn(w.mir(stepfn))
        sets = [b for b, t in f.calls(r"write_log::set_event_write_log$")]
        clears = [b for b, t in f.calls(r"write_log::clear_event_write_log$")]
        inner = [b for b, t in f.calls(r"Simulator::(step_event_inner|eval_event_stmts|do_settle_comb)$")]
        mf = MustFacts(f)
        ok1 = bool(sets) and all(("calledbb", sets[0]) in (mf.at_entry(b) or ()) for b in inner)
        ok2 = bool(clears) and not flow.escapes(f, 0, clears)
        ck.ob("R2", "write-log-bracket:%s" % stepfn.split("::")[-1], ok1 and ok2, site(w.fns[stepfn]), "the event write log is installed before any statement runs and cleared on every path out of the step")
    # ---------------- R3 / R4 worker loop ----------------------------------------------------------------------
    workers = [p for p, s in w.fns.items() if p.startswith("veryl::cmd_test::") and not s.get("alias_of") and
               any(c["c"] == "veryl_simulator::testbench::run_native_testbench_timed" for c in s["calls"]) and
               any(c["c"] == "veryl_simulator::output_buffer::take" for c in s["calls"])]
    ck.floor("R3", "worker closures running native tests", len(workers), 1)
    for p in workers:
        s = w.fns[p]
        f = Fn(w.mir(p))
        mf = MustFacts(f)
        en = f.calls(r"output_buffer::enable$")
        tk = f.calls(r"output_buffer::take$")
        prep = f.calls(r"cmd_test::prepare_native_test$")
        run_ = f.calls(r"testbench::run_native_testbench_timed$")
        locks = [(b, t) for b, t in f.calls(r"sync::(poison::)?mutex::Mutex::<T>::lock$") if "print" in (_cap_name(f, t["args"][0]) or "")]
        ck.ob("R3", "take-once", len(tk) == 1, site(s), "output_buffer::take is called once per test iteration (found %d)" % len(tk))
        for b, t in tk:
            late = [tt["l"] for bb, tt in prep + run_ if f.reaches(t["to"], bb, avoid=_loop_blocks(f))]
            ck.ob("R3", "take-after-run", not late, site(s, t["l"]), "the captured output is taken after the test's build and run")
        for b, t in locks:
            F = mf.at_entry(b) or ()
            ck.ob("R3", "take-before-print-lock", any(("calledbb", tb) in F for tb, _ in tk), site(s, t["l"]), "the output is taken before the print lock is acquired")
        ck.floor("R3", "print-lock acquisitions in the worker", len(locks), 1)
        for b, t in prep:
            # enable precedes on every path where buffering is on: enable is reachable before prepare and not after
            ok = bool(en) and all(f.reaches(et["to"], b) for eb, et in en) and not any(f.reaches(t["to"], eb, avoid=_loop_blocks(f)) for eb, et in en)
            ck.ob("R3", "enable-before-build", ok, site(s, t["l"]), "output capture is enabled before the test's build starts")
    # R4
    sorters = [p for p, s in w.fns.items() if p.startswith("veryl::cmd_test::") and not s.get("alias_of") and any(c["c"] == "veryl::cmd_test::load_test_timings" for c in s["calls"])]
    ck.floor("R4", "functions loading prior timings", len(sorters), 1)
    for p in sorters:
        s = w.fns[p]
        f = Fn(w.mir(p))
        t = Taint(f, seed_call=lambda tt: tt.get("callee") == "veryl::cmd_test::load_test_timings")
        for sk in t.sinks():
            if sk[0] == "call":
                c = sk[1] or ""
                ok = bool(re.search(r"sort_by|sort_by_key|sort_unstable_by|core::ops::deref|drop_in_place|core::mem::drop|HashMap::<K, V, S, A>::(get|contains_key|len|is_empty)$|save_test_timings|::extend$|::insert$", c))
                ck.ob("R4", "timings-flow:%s/%s" % (_short(p), c.split("::")[-1]), ok, site(s, sk[-1]),
                      "prior timings reach %s only" % c.split("::")[-1] if ok else "prior timings (dispatch-order data) are passed to %s" % c)
            elif sk[0] == "agg":
                ok = "closure" in str(sk[1]) or sk[1] is None or str(sk[1]).startswith("core::")
                if not ok:
                    ck.ob("R4", "timings-flow:%s/agg:%s" % (_short(p), str(sk[1]).split("::")[-1]), False, site(s, sk[-1]), "prior timings are stored into %s" % sk[1])
    # ---------------- R5 reset is unconditional; a range draw depends on its bounds -------------------------------------------------
    import taint
    RS = "veryl_simulator::random_table::reset"
    cls = [RS] + [q for q in w.fns if q.startswith(RS + "::{closure")]
    okc = oks = False
    for q in cls:
        if q not in w.fns:
            continue
        g5 = Fn(w.mir(q))
        clears = [bi for bi, t in g5.calls(r"HashMap<.*>::clear$|hash::map::HashMap.*::clear$|::clear$") if flow.access_path(g5, t["args"][0])[1][-1:] == ("rngs",)]
        seeds = [bi for bi, si, st in flow.field_writes(g5, r"random_table::RandomTable$", "base_seed")]
        if clears and not flow.escapes(g5, 0, clears):
            okc = True
        if seeds and not flow.escapes(g5, 0, seeds):
            oks = True
    if RS in w.fns:
        ck.ob("R5", "reset/clears-generators-on-every-path", okc, site(w.fns[RS]),
              "random_table::reset drops every generator unconditionally" if okc else
              "random_table::reset can return without clearing the generators: on a worker thread a test continues the stream of the test that ran before it")
        ck.ob("R5", "reset/records-seed-on-every-path", oks, site(w.fns[RS]), "random_table::reset records the base seed unconditionally")
    else:
        ck.missing("R5", RS)
    GR = "veryl_simulator::random_table::get_range"
    if GR in w.fns:
        g5 = Fn(w.mir(GR))
        an = {g5.name(i): i for i in range(1, g5.nargs + 1)}
        tmin = taint.Taint(g5, seed_locals=[an.get("min", -1)], containers=False,
                           pure=re.compile(r"random_table::(sign_extend|mask)$|random_range$|with_rng$|Value::new$|RangeInclusive.*::new$"))
        tmax = taint.Taint(g5, seed_locals=[an.get("max", -1)], containers=False,
                           pure=re.compile(r"random_table::(sign_extend|mask)$|random_range$|with_rng$|Value::new$|RangeInclusive.*::new$"))
        # the closure handed to with_rng captures lo / hi: treat an aggregate closure built from tainted operands as tainted
        bad = []
        nret = 0
        for bi, b in enumerate(g5.blocks):
            if b.get("cu"):
                continue
            t = b["t"]
            if t["t"] == "call" and t["dst"][0] == 0 and not t["dst"][1]:
                nret += 1
                if not (any(tmin.op_tainted(a) for a in t["args"]) and any(tmax.op_tainted(a) for a in t["args"])):
                    bad.append("line %s: %s" % (t["l"], (t.get("callee") or "").split("::")[-1]))
            for st in b["s"]:
                if st[0] == "=" and st[1] == [0, []]:
                    nret += 1
                    ops = [o for o in taint._ops_of(st[2]) if isinstance(o, list)]
                    if not (any(tmin.op_tainted(o) for o in ops) and any(tmax.op_tainted(o) for o in ops)):
                        bad.append("line %s" % st[3])
        ck.ob("R5", "get_range/result-depends-on-both-bounds", nret > 0 and not bad, site(w.fns[GR]),
              "every value get_range returns is computed from both `min` and `max`" if nret and not bad else
              "get_range can return a value that does not depend on the requested bounds (%s): that draw is not confined to [min, max]" % bad)
    else:
        ck.missing("R5", GR)
    # ---------------- R6 the comb-pipeline cache key covers what dead-variable elimination reads --------------------------------------
    CD = "veryl_simulator::ir::opt::dead_var_dce::census_digest"
    CO = "veryl_simulator::ir::opt::dead_var_dce::collect_dead_offsets"
    LV = "veryl_simulator::ir::opt::dead_var_dce::Liveness"
    if CD in w.fns and CO in w.fns and LV in w.adts:
        lv_fields = [f["name"] for f in w.adts[LV]["variants"][0]["fields"]]

        def reads(fn_paths):
            out = set()
            for q in fn_paths:
                for a, fld in [tuple(x) for x in (w.fns[q].get("fr") or [])]:
                    if a == LV:
                        out.add(fld)
            return out
        need = reads([CO] + [q for q in w.fns if q.startswith(CO + "::{closure")])
        cd_cl = [q for q in w.fns if q.startswith(CD + "::{closure")]
        g6 = Fn(w.mir(CD))
        filt = set()
        mapped = set()
        for bi, t in g6.calls(r"Iterator>?::(filter|map|filter_map)$"):
            for a in t["args"][1:]:
                d = g6.def_of(a[1][0]) if a[0] != "k" else None
                rv = g6.rvalue_at(d) if d and d[0] == "s" else None
                if rv and rv[0] == "agg" and isinstance(rv[1], dict) and rv[1].get("closure"):
                    r = reads([rv[1]["closure"]] + [q for q in w.fns if q.startswith(rv[1]["closure"] + "::{closure")])
                    if t["callee"].endswith("filter"):
                        filt |= r
                    else:
                        mapped |= r
        ck.ob("R6", "census_digest/covers-liveness-inputs", need <= mapped and bool(need), site(w.fns[CD]),
              "the digest hashes every Liveness field collect_dead_offsets decides on (%s)" % sorted(need) if need <= mapped and need else
              "collect_dead_offsets decides on %s but the digest only hashes %s: two event sets that differ there share one cached pipeline" % (sorted(need), sorted(mapped)))
        ck.ob("R6", "census_digest/selection-independent-of-liveness", not filt, site(w.fns[CD]),
              "which offsets enter the digest does not depend on their liveness counters" if not filt else
              "the digest leaves out offsets depending on their liveness (%s): a test that only reads a net and one that does not get the same key, and the "
              "first one to fill the process-wide cache decides whether the net's driver survives for the other" % sorted(filt))
    else:
        ck.missing("R6", CD)
    ck.analysed = {"exec_reachable_functions": len(reach), "thread_locals": keys, "exempt": sorted(EXEMPT_TLS)}
    return ck.finish(info)


def _short(p):
    return "::".join((p or "?").split("::")[-2:])


_LB = {}


def _loop_blocks(f):
    """natural loop heads: targets of back edges (an edge u -> h where h dominates u)"""
    if id(f) in _LB:
        return _LB[id(f)]
    dom = f.dominators()
    heads = []
    for u in dom:
        for h in f.succ[u]:
            if h in dom.get(u, ()):
                heads.append(h)
    _LB[id(f)] = sorted(set(heads))
    return _LB[id(f)]


def _cap_name(f, op):
    """name of the captured upvar / local a lock() receiver refers to"""
    r, pth = flow.access_path(f, op)
    names = [x for x in pth if isinstance(x, str)]
    if names:
        return names[-1]
    if r[0] == "arg":
        return f.name(r[1])
    return None
