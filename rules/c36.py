"""C36 - value encodings at external boundaries are lossless and standard.

Decided (DESIGN.md section 3 C36, section 8): the encoding tables. Not decided: that dumps happen at the right
times with the values held (run-time), that every bit round-trips for every width (arithmetic).
"""
import re
from core import Check, site
from mirlib import Fn, MustFacts, Sem
import flow
from bitfun import BitEval, X, Y, ZERO, tt_name

RULE = (
    "veryl's internal 4-state encoding is (payload, mask_xz): 0=(0,0) 1=(1,0) X=(0,1) Z=(1,1) (R3 checks this against "
    "Value::to_vcd_value). IEEE 1800 Annex H svLogicVecVal is (aval, bval): 0=00 1=10 Z=01 X=11, hence aval = payload ^ mask_xz, "
    "bval = mask_xz and back payload = aval ^ bval, mask_xz = bval. R1 the four conversions (From<&Value> for Vec<SvLogicVecVal> "
    "and From<&[SvLogicVecVal]> for Value, each with a U64 and a BigUint arm) are evaluated as per-bit boolean functions over "
    "their MIR dataflow (copies, casts, & | ^, low-word masks, constant shifts, BigUint word helpers) and must equal those "
    "formulas; any other operator makes the obligation undecided. R2 word order: the encoder emits the low 32-bit word first "
    "(mask with 0xffffffff then shift right / ascending digit index), the decoder consumes the slice in reverse while shifting "
    "left. R3 Value::to_vcd_value maps (mask,payload) = (1,1)->Z (1,0)->X (0,1)->V1 (0,0)->V0. R4 Value::to_fst_bits maps "
    "V0/V1/X/Z to '0'/'1'/'x'/'z' and iterates from bit width-1 down to 0; VcdValueIter::next yields bit width-pos-1 and advances "
    "pos by one. R5 boundaries: cosim_get copies aval to aval and bval to bval; WaveDumper::dump_all_vars reads each entry through "
    "its own ptr/native_bytes/width and reports it under its own handle; Simulator::dump_variables settles dirty combinational "
    "logic before dumping."
)

CRATES = ["veryl_analyzer", "veryl_cosim", "veryl_simulator"]
ENC = "veryl_analyzer::value::<impl core::convert::From<&veryl_analyzer::value::Value> for alloc::vec::Vec<veryl_analyzer::value::SvLogicVecVal>>::from"
DEC = "<veryl_analyzer::value::Value as core::convert::From<&[veryl_analyzer::value::SvLogicVecVal]>>::from"
VCD = "veryl_analyzer::value::Value::to_vcd_value"
FST = "veryl_analyzer::value::Value::to_fst_bits"
ITER = "<veryl_analyzer::value::VcdValueIter as core::iter::traits::iterator::Iterator>::next"
VEC_PUSH = r"^alloc::vec::Vec::<T, A>::push$"


def _aggs(fn, adt_suffix):
    out = []
    for bi, b in enumerate(fn.blocks):
        if b.get("cu"):
            continue
        for si, s in enumerate(b["s"]):
            if s[0] == "=" and s[2][0] == "agg" and isinstance(s[2][1], dict) and (s[2][1].get("adt") or "").endswith(adt_suffix):
                out.append((bi, si, s))
    return out


def _vcd_table(f):
    """{variant: {(mask bit, payload bit)}} over all acyclic paths of Value::to_vcd_value; a bit left untested on a path counts for both values"""
    import itertools

    def lname(l):
        return "L%d" % l

    def sym_place(env, pl):
        l, proj = pl[0], pl[1]
        cur = env.get(l, ("loc", lname(l)))
        for q in proj:
            if isinstance(q, list) and q[0] == "f":
                if cur[0] == "tuple" and isinstance(q[1], int) and q[1] < len(cur[1]):
                    cur = cur[1][q[1]]
                else:
                    cur = ("field", cur, str(q[2]))
            elif q == "*" or (isinstance(q, list) and q[0] == "*"):
                continue
            else:
                cur = ("proj", cur, repr(q))
        return cur

    def sym_op(env, op):
        if op[0] == "k":
            k = op[1]
            return ("const", str(k.get("int", k.get("v", k.get("str", "?")))) if isinstance(k, dict) else str(k))
        return sym_place(env, op[1])

    def flat(x):
        return repr(x)

    def bit_of(sym, truth):
        """(which, value) when `sym == truth` decides bit i of mask_xz / payload"""
        t = truth
        cur = sym
        for _ in range(6):
            if cur[0] == "bin" and cur[1] in ("Eq", "Ne") and (cur[3][0] == "const" or cur[2][0] == "const"):
                c, other = (cur[3], cur[2]) if cur[3][0] == "const" else (cur[2], cur[3])
                if c[1] not in ("0", "1"):
                    return None
                same = (cur[1] == "Eq")
                t = t if (same == (c[1] == "1")) else (not t)
                cur = other
                continue
            if cur[0] == "un" and cur[1] == "Not":
                t = not t
                cur = cur[2]
                continue
            break
        txt = flat(cur)
        has_m = "mask_xz" in txt
        has_p = "payload" in txt
        if has_m == has_p:
            return None
        if "L2" not in txt:
            return ("noindex", txt)
        is_bit = (cur[0] == "call" and re.search(r"::bit$", cur[1])) or (cur[0] == "bin" and cur[1] == "BitAnd" and "'Shr'" in txt and "('const', '1')" in txt)
        if not is_bit:
            return None
        return ("M" if has_m else "P", t)

    rets = f.returns()
    table, unknown = {}, []
    try:
        paths = flow.enumerate_paths(f, 0, rets, limit=4000)
    except OverflowError:
        return {}, 0, ["too many paths"]
    for path in paths:
        env, bits, var = {}, {}, None
        blocks = [b for b, _ in path] + ([path[-1][1]] if path else [0])
        nxt = {b: sc for b, sc in path}
        bad = None
        for b in blocks:
            for st in f.blocks[b]["s"]:
                if st[0] != "=":
                    continue
                dl, dproj = st[1][0], st[1][1]
                rv = st[2]
                if rv[0] == "use":
                    v = sym_op(env, rv[1])
                elif rv[0] in ("ref", "ptr"):
                    v = sym_place(env, rv[2])
                elif rv[0] == "cast":
                    v = sym_op(env, rv[2]) if len(rv) > 2 and isinstance(rv[2], list) else ("opaque", repr(rv))
                elif rv[0] == "bin":
                    v = ("bin", rv[1], sym_op(env, rv[2]), sym_op(env, rv[3]))
                elif rv[0] == "un":
                    v = ("un", rv[1], sym_op(env, rv[2]))
                elif rv[0] == "agg":
                    d = rv[1]
                    if isinstance(d, dict) and (d.get("adt") or "").endswith("vcd::value::Value"):
                        v = ("vcd", d.get("variant"))
                    elif d == "tuple" or (isinstance(d, dict) and d.get("tuple")) or (isinstance(d, str) and "tuple" in d):
                        v = ("tuple", [sym_op(env, o) for o in rv[2]])
                    else:
                        v = ("opaque", repr(rv)[:80])
                elif rv[0] == "discr":
                    v = ("discr",)
                else:
                    v = ("opaque", repr(rv)[:80])
                if not dproj:
                    env[dl] = v
                    if dl == 0 and v[0] == "vcd":
                        var = v[1]
                    elif dl == 0:
                        var = env[0][1] if env[0][0] == "vcd" else var
            t = f.blocks[b]["t"]
            sc = nxt.get(b)
            if t["t"] == "call" and not t["dst"][1]:
                env[t["dst"][0]] = ("call", t.get("callee") or "?", tuple(sym_op(env, a) for a in t["args"]))
            elif t["t"] == "sw" and sc is not None and not t.get("enum"):
                on = t["on"]
                if on[0] == "k":
                    continue
                sy = sym_place(env, on[1])
                if len(t["vals"]) == 1 and str(t["vals"][0][0]) in ("0", "1"):
                    zero = str(t["vals"][0][0]) == "0"
                    truth = (sc != t["vals"][0][1]) if zero else (sc == t["vals"][0][1])
                    r = bit_of(sy, truth)
                    if r is None:
                        txt = flat(sy)
                        if "mask_xz" in txt or "payload" in txt:
                            bad = "branch on %s not understood" % txt[:120]
                        continue
                    if r[0] == "noindex":
                        bad = "a bit other than bit i is tested: %s" % r[1][:120]
                        continue
                    if r[0] in bits and bits[r[0]] != r[1]:
                        bits["infeasible"] = True
                    bits[r[0]] = r[1]
        if bits.get("infeasible"):
            continue
        if env.get(0, ("?",))[0] == "vcd":
            var = env[0][1]
        if bad or var is None:
            unknown.append(bad or "no vcd::Value assigned to the return place on a path")
            continue
        for m, p in itertools.product([bits["M"]] if "M" in bits else [True, False], [bits["P"]] if "P" in bits else [True, False]):
            table.setdefault(var, set()).add((m, p))
    return table, len(paths), unknown


def run(world, tier, info, only=None):
    ck = Check("C36", tier, "proof", RULE, only)
    w = world
    for p in (ENC, DEC, VCD, FST, ITER):
        if p not in w.fns:
            ck.missing("anchors", p)
    for a in ("veryl_analyzer::value::SvLogicVecVal", "veryl_analyzer::value::ValueU64", "veryl_analyzer::value::ValueBigUint"):
        if a not in w.adts:
            ck.missing("anchors", a)
    if any(o["verdict"] == "violation" for o in ck.obs):
        return ck.finish(info)
    ck.assume("BigUint::to_u32_digits is little-endian (least significant word first); BigUint::from(u32), <<=, |= are the arithmetic they name")
    ck.assume("vcd::Value and the fst writer interpret V0/V1/X/Z and '0'/'1'/'x'/'z' as the VCD/FST formats define")

    def fields_of(adt):
        return [x["name"] for x in w.adts[adt]["variants"][0]["fields"]]

    # ---------------- R3 first: it fixes the meaning of (payload, mask_xz) ---------------------------------
    s = w.fns[VCD]
    f = Fn(w.mir(VCD))
    mf = MustFacts(f)
    sem = Sem(f, 14)
    # every path to the return is interpreted with path-local definitions: which vcd variant is produced under which truth of
    # "bit i of mask_xz" and "bit i of payload" - whatever way the bits are read (accessor + BigUint::bit, shift-and-mask on the u64
    # arm, a match on the pair)
    table, n_paths, unknown = _vcd_table(f)
    want = {"Z": (True, True), "X": (True, False), "V1": (False, True), "V0": (False, False)}
    for v, (m, p) in want.items():
        got = sorted(table.get(v, set()), key=repr)
        if unknown and not got:
            ck.ob("R3", "to_vcd_value/" + v, None, site(s), "cannot interpret %d path(s) of to_vcd_value (%s)" % (len(unknown), unknown[0]))
            continue
        ok = got == [(m, p)]
        ck.ob("R3", "to_vcd_value/" + v, ok, site(s),
              "vcd %s is produced exactly under mask_xz bit i = %s, payload bit i = %s (%d paths interpreted)" % (v, m, p, n_paths) if ok else
              "vcd %s is produced under (mask bit, payload bit) = %s, expected %s" % (v, got if got else "never", (m, p)))
    ck.ob("R3", "to_vcd_value/paths-interpreted", None if unknown else True, site(s),
          "every path tests bit i of mask_xz and of payload as far as needed" if not unknown else "paths not interpreted: %s" % unknown[:2])

    # ---------------- R1 / R2 encode ------------------------------------------------------------------------
    def leaf_pm(adt, field):
        if adt and re.search(r"value::Value(U64|BigUint)$", adt):
            return X if field == "payload" else (Y if field == "mask_xz" else None)
        return None

    def leaf_ab(adt, field):
        if adt and adt.endswith("value::SvLogicVecVal"):
            return X if field == "aval" else (Y if field == "bval" else None)
        return None

    s = w.fns[ENC]
    f = Fn(w.mir(ENC))
    aggs = _aggs(f, "value::SvLogicVecVal")
    ck.floor("R1", "SvLogicVecVal constructions in the encoder", len(aggs), 2)
    fl = fields_of("veryl_analyzer::value::SvLogicVecVal")
    mf = MustFacts(f)
    for bi, si, st in aggs:
        arm = _arm_of(f, mf, bi)
        ops = dict(zip(fl, st[2][2]))
        for fld, expect, en in (("aval", X ^ Y, "payload ^ mask_xz"), ("bval", Y, "mask_xz")):
            ev = BitEval(f, leaf_pm)
            v = ev.operand(ops[fld])
            ok = None if v is None or isinstance(v, tuple) else (v == expect)
            ck.ob("R1", "encode/%s/%s" % (arm, fld), ok, site(s, st[3]),
                  "%s = %s per bit (Annex H)" % (fld, en) if ok else
                  ("%s is %s, Annex H needs %s" % (fld, tt_name(v, "payload", "mask_xz"), en) if ok is False else
                   "%s is not a pure bitwise function of payload/mask_xz (%s)" % (fld, "; ".join(ev.why[:3]))))
        # the value is pushed onto the result in loop order
    # R2 encode: low word first
    _word_order_encode(ck, f, s, mf)

    # ---------------- R1 / R2 decode ------------------------------------------------------------------------
    s = w.fns[DEC]
    f = Fn(w.mir(DEC))
    mf = MustFacts(f)
    n = 0
    for adt, arm in (("veryl_analyzer::value::ValueU64", "U64"), ("veryl_analyzer::value::ValueBigUint", "BigUint")):
        fl = fields_of(adt)
        for bi, si, st in _aggs(f, adt.split("::", 1)[1]):
            n += 1
            ops = dict(zip(fl, st[2][2]))
            for fld, expect, en in (("payload", X ^ Y, "aval ^ bval"), ("mask_xz", Y, "bval")):
                ev = BitEval(f, leaf_ab)
                v = ev.operand(ops[fld])
                ok = None if v is None or isinstance(v, tuple) else (v == expect)
                ck.ob("R1", "decode/%s/%s" % (arm, fld), ok, site(s, st[3]),
                      "%s = %s per bit (Annex H)" % (fld, en) if ok else
                      ("%s is %s, Annex H needs %s" % (fld, tt_name(v, "aval", "bval"), en) if ok is False else
                       "%s is not a pure bitwise function of aval/bval (%s)" % (fld, "; ".join(ev.why[:3]))))
    ck.floor("R1", "Value constructions in the decoder", n, 2)
    _word_order_decode(ck, f, s)

    # ---------------- R4 ------------------------------------------------------------------------------------
    s = w.fns[FST]
    f = Fn(w.mir(FST))
    sws = flow.enum_switches(f, r"vcd::value::Value$")
    if not sws:
        ck.missing("R4", "switch over vcd::Value in to_fst_bits")
    chars = {"V0": 48, "V1": 49, "X": 120, "Z": 122}
    for bb, t in sws[:1]:
        arm, wc = flow.arms(f, t)
        ck.ob("R4", "to_fst_bits/no-wildcard", not wc, site(s, t["l"]), "every vcd::Value variant is mapped explicitly")
        r, pth = flow.access_path(f, ["c", t["of"]])
        src_ok = r[0] == "call" and r[1] == VCD
        ck.ob("R4", "to_fst_bits/source", src_ok, site(s, t["l"]), "the mapped value is self.to_vcd_value(i)")
        for v, ch in chars.items():
            tg = arm.get(v)
            got = None
            if tg is not None:
                for st in f.blocks[tg]["s"]:
                    if st[0] == "=" and st[2][0] == "use" and st[2][1][0] == "k" and "int" in st[2][1][1]:
                        got = int(st[2][1][1]["int"])
            ck.ob("R4", "to_fst_bits/" + v, got == ch, site(s, t["l"]), "vcd %s is written as %r (found %r)" % (v, chr(ch), chr(got) if got is not None else None))
    # every byte appended to the result: which loop it sits in, and where its value comes from
    lps = flow.loops_over(f)
    loops = {}
    for head, t, some, none, item in lps:
        ad = []
        r, pth = flow.access_path(f, t["args"][0], extra_transparent=re.compile(r"Iterator::(rev|skip|take|step_by|filter|map|enumerate)$"), adapters=ad)
        names = [a.split("::")[-1] for a in ad]
        ok = False
        detail = "loop not recognised"
        if r[0] == "agg" and str(r[1]).endswith("range::Range"):
            d = f.blocks[r[2]]["s"][r[3]]
            lo, hi = d[2][2]
            rlo = flow.access_path(f, lo)
            rhi = flow.access_path(f, hi)
            ok = names == ["rev"] and rlo[0] == ("const", "0") and rhi[0][0] == "call" and rhi[0][1].endswith("Value::width")
            detail = "iterates (%s..%s) with adapters %s" % (flow.fmt_path(rlo, f), flow.fmt_path(rhi, f), names)
        loops[head] = (set(f.reach_from(some, avoid=[head])), ok, detail)
    pushes = f.calls(VEC_PUSH)
    ck.floor("R4", "bytes appended in to_fst_bits", len(pushes), 1)
    want_char = {(0, 0): "0", (0, 1): "1", (1, 0): "x", (1, 1): "z"}   # (mask bit, payload bit), fixed by R3
    for n, (bi, t) in enumerate(sorted(pushes, key=lambda x: x[1]["l"])):
        inloop = [h for h, (body, ok, detail) in loops.items() if bi in body]
        okl = bool(inloop) and all(loops[h][1] for h in inloop)
        ck.ob("R4", "to_fst_bits/msb-first@%d" % (n + 1), okl, site(s, t["l"]),
              "bits are pushed from width-1 down to 0 (MSB first): " + (loops[inloop[0]][2] if inloop else "not inside a loop"))
        head = inloop[0] if inloop else None
        a = t["args"][1]
        d = f.def_of(a[1][0]) if a[0] != "k" else None
        rv = f.rvalue_at(d) if d and d[0] == "s" else None
        if a[0] != "k" and len(f.defs.get(a[1][0], [])) > 1:
            # the four constants selected by the vcd::Value switch
            vcalls = [(bb, tt) for bb, tt in f.calls("^" + re.escape(VCD) + "$") if head is not None and bb in loops[head][0]]
            okv = bool(vcalls)
            for bb, tt in vcalls:
                ri, pi = flow.access_path(f, tt["args"][1])
                okv = okv and ri[0] == "call" and ri[2] == head and pi == ("Some", "0")
            ck.ob("R4", "to_fst_bits/index-is-loop-var@%d" % (n + 1), okv, site(s, t["l"]), "the character is chosen from to_vcd_value(i) with i the loop index")
        elif rv is not None and rv[0] == "use" and rv[1][0] != "k" and any(isinstance(q, list) and q[0] == "i" for q in rv[1][1][1]):
            # a lookup table indexed by a code built from the mask and payload bits
            tab = rv[1][1]
            td = f.def_of(tab[0])
            trv = f.rvalue_at(td) if td and td[0] == "s" else None
            data = trv[1][1].get("bytes") if trv and trv[0] == "use" and trv[1][0] == "k" else None
            idx_local = [q[1] for q in tab[1] if isinstance(q, list) and q[0] == "i"][0]
            tree = f.describe(["c", [idx_local, []]], 16)
            if data is None:
                ck.ob("R4", "to_fst_bits/table@%d" % (n + 1), None, site(s, t["l"]), "the character comes from a table whose contents are not visible")
                continue
            bad = []
            undecidable = False
            for (m, p), ch in sorted(want_char.items()):
                v = _eval_bits(tree, m, p)
                if v is None or not (0 <= v < len(data)):
                    undecidable = True
                    break
                if data[v] != ch:
                    bad.append("(mask=%d,payload=%d) -> %r, expected %r" % (m, p, data[v], ch))
            if undecidable:
                ck.ob("R4", "to_fst_bits/table@%d" % (n + 1), None, site(s, t["l"]), "the table index is not a recognised function of the mask and payload bits")
            else:
                ck.ob("R4", "to_fst_bits/table@%d" % (n + 1), not bad, site(s, t["l"]),
                      "the lookup table %r agrees with to_vcd_value's encoding" % data if not bad else
                      "the lookup table %r maps %s: X and Z are confused for values that take this path" % (data, "; ".join(bad)))
        else:
            ck.ob("R4", "to_fst_bits/source@%d" % (n + 1), None, site(s, t["l"]), "the appended byte comes from an unrecognised computation")
    # VcdValueIter::next
    s = w.fns[ITER]
    f = Fn(w.mir(ITER))
    for bi, tt in f.calls("^" + re.escape(VCD) + "$"):
        e = f.describe(tt["args"][1], 14)
        txt = _arith(e)
        ck.ob("R4", "VcdValueIter/index", txt in ("((width-pos)-1)", "((width-1)-pos)"), site(s, tt["l"]), "VcdValueIter yields bit width - pos - 1 (found %s)" % txt)
    ck.floor("R4", "to_vcd_value calls in VcdValueIter::next", len(f.calls("^" + re.escape(VCD) + "$")), 1)
    incs = flow.field_writes(f, r"value::VcdValueIter$", "pos")
    okinc = False
    for bi, si, st in incs:
        e = f.describe(["c", [st[1][0], []]] if False else st[2][1], 10) if st[2][0] == "use" else None
        txt = _arith(e) if e else "?"
        okinc = okinc or txt == "(pos+1)"
    ck.ob("R4", "VcdValueIter/advance", okinc and len(incs) == 1, site(s), "pos advances by exactly one per yielded bit")

    # ---------------- R5 boundaries --------------------------------------------------------------------------
    if "veryl_cosim::cosim_get" in w.fns:
        s = w.fns["veryl_cosim::cosim_get"]
        f = Fn(w.mir("veryl_cosim::cosim_get"))
        nw = 0
        for fld in ("aval", "bval"):
            for bi, si, st in flow.field_writes(f, r"value::SvLogicVecVal$", fld):
                nw += 1
                rv = st[2]
                if rv[0] != "use":
                    ck.ob("R5", "cosim_get/%s@%d" % (fld, nw), None, site(s, st[3]), "not a plain copy")
                    continue
                r, pth = flow.access_path(f, rv[1])
                ok = (r[0] == "const" and str(r[1]) == "0") or (pth and pth[-1] == fld)
                ck.ob("R5", "cosim_get/%s@%d" % (fld, _nthw(f, fld, bi, si)), bool(ok), site(s, st[3]), "%s is copied from the converted %s (or zero-filled); found %s" % (fld, fld, flow.fmt_path((r, pth), f)))
        # the caller's buffer is overwritten completely: the loop runs over all of `value`, every iteration stores both words
        an = {f.name(i): i for i in range(1, f.nargs + 1)}
        vloops = []
        for head, lt, some, none, item in flow.loops_over(f):
            ad = []
            r, pth = flow.access_path(f, lt["args"][0], extra_transparent=re.compile(r"Iterator::(rev|skip|take|step_by|filter|map|enumerate|zip|chain|take_while|skip_while)$"), adapters=ad)
            if r == ("arg", an.get("value")):
                vloops.append((head, lt, some, [a.split("::")[-1] for a in ad]))
        ck.floor("R5", "loops over the caller's buffer in cosim_get", len(vloops), 1)
        for head, lt, some, names in vloops:
            short = [a for a in names if a in ("zip", "take", "skip", "step_by", "filter", "take_while", "skip_while")]
            ck.ob("R5", "cosim_get/whole-buffer-visited", not short, site(s, lt["l"]),
                  "every element of the caller's buffer is visited" if not short else
                  "the loop over the caller's buffer is shortened by %s: elements beyond the converted value keep whatever the caller's variable held "
                  "(stale upper words of an earlier, wider read)" % short)
            wa = {b for b, si, st in flow.field_writes(f, r"value::SvLogicVecVal$", "aval")}
            wb = {b for b, si, st in flow.field_writes(f, r"value::SvLogicVecVal$", "bval")}
            ww = set()
            for bi, b in enumerate(f.blocks):
                for st in b["s"]:
                    if st[0] == "=" and st[1][1] == ["*"] and "SvLogicVecVal" in f.ty(st[1][0]):
                        ww.add(bi)
            ea = flow.escapes(f, some, wa | ww, stops=[head])
            eb = flow.escapes(f, some, wb | ww, stops=[head])
            ck.ob("R5", "cosim_get/every-element-written", not ea and not eb and bool(wa | ww), site(s, lt["l"]), "every iteration stores aval and bval of its element")
        conv = [t for _, t in f.calls("^" + re.escape(ENC) + "$|Into<.*>>::into$")]
        ck.ob("R5", "cosim_get/uses-encoder", bool(conv), site(s), "cosim_get converts through From<&Value> for Vec<SvLogicVecVal>")
    else:
        ck.missing("R5", "veryl_cosim::cosim_get")
    if "veryl_cosim::cosim_set" in w.fns:
        s = w.fns["veryl_cosim::cosim_set"]
        calls = [c["c"] for c in s["calls"]]
        ck.ob("R5", "cosim_set/uses-decoder", any(c == DEC or re.search(r"Into<.*>>::into$", c or "") for c in calls), site(s), "cosim_set converts through From<&[SvLogicVecVal]> for Value")
    else:
        ck.missing("R5", "veryl_cosim::cosim_set")
    DAV = "veryl_simulator::wave_dumper::WaveDumper::dump_all_vars"
    if DAV in w.fns:
        s = w.fns[DAV]
        f = Fn(w.mir(DAV))
        lps = flow.loops_over(f)
        rnv = f.calls(r"read_native_value$")
        cvs = f.calls(r"WaveDumper::change_vector$")
        ck.floor("R5", "read_native_value calls in dump_all_vars", len(rnv), 1)
        ck.floor("R5", "change_vector calls in dump_all_vars", len(cvs), 1)
        heads = {h for h, *_ in lps}

        def entry_field(op):
            r, pth = flow.access_path(f, op)
            if r[0] == "call" and r[2] in heads and pth[:2] == ("Some", "0"):
                return pth[2:]
            return None
        for bi, t in rnv:
            for idx, fld in ((0, "ptr"), (1, "native_bytes"), (3, "width")):
                got = entry_field(t["args"][idx])
                ck.ob("R5", "dump_all_vars/read/" + fld, got == (fld,), site(s, t["l"]), "read_native_value's argument %d is this entry's %s (found %s)" % (idx, fld, got))
            r, pth = flow.access_path(f, t["args"][2])
            ck.ob("R5", "dump_all_vars/read/use_4state", r == ("arg", 3), site(s, t["l"]), "the 4-state flag is the caller's")
        # every variable is recorded on every dump, unless a skip compares the WHOLE storage (payload and, under 4-state, mask)
        for head, lt, some, none, item in lps:
            esc = flow.escapes(f, some, [b for b, _ in cvs], stops=[head])
            if not esc:
                ck.ob("R5", "dump_all_vars/every-variable-recorded", True, site(s, lt["l"]), "every iteration records its variable")
                continue
            covers = False
            for bi, t in f.calls(r"core::slice::(raw::)?from_raw_parts$"):
                pv = f.prov(t["args"][1], depth=20)
                if any(x[0] == "arg" and x[1] == 3 for x in pv):
                    covers = True
            ck.ob("R5", "dump_all_vars/every-variable-recorded", covers, site(s, lt["l"]),
                  "a variable is skipped only when its whole storage (payload and 4-state mask) is unchanged" if covers else
                  "an iteration can skip recording its variable, and the storage it compares does not depend on use_4state: with 4-state storage the "
                  "X/Z mask half (the second native_bytes) is not looked at, so a change of known/unknown status alone is never dumped")
        for bi, t in cvs:
            got = entry_field(t["args"][1])
            ck.ob("R5", "dump_all_vars/report/handle", got == ("handle",), site(s, t["l"]), "the value is reported under this entry's handle (found %s)" % (got,))
            r, pth = flow.access_path(f, t["args"][2])
            okv = r[0] == "call" and re.search(r"read_native_value$", r[1] or "")
            ck.ob("R5", "dump_all_vars/report/value", bool(okv), site(s, t["l"]), "the value reported is the one just read")
    else:
        ck.missing("R5", DAV)
    DV = "veryl_simulator::simulator::Simulator::dump_variables"
    if DV in w.fns:
        s = w.fns[DV]
        f = Fn(w.mir(DV))
        mf = MustFacts(f)
        sem = Sem(f, 12)
        for bi, t in f.calls(r"WaveDumper::dump_all_vars$"):
            # on every path here either comb_dirty was false or do_settle_comb was called
            F = mf.at_entry(bi)
            facts = sem.facts(F)
            settled = ("called", "veryl_simulator::simulator::Simulator::do_settle_comb") in (F or ())
            clean = any(x[0] == "flag" and x[2] is False and "comb_dirty" in repr(x[1]) for x in facts)
            # the two cases join: use a path query instead
            esc = _dirty_escape(f, bi)
            ck.ob("R5", "dump_variables/settle-before-dump", settled or clean or not esc, site(s, t["l"]),
                  "dirty combinational logic is settled before values are dumped" if (settled or clean or not esc) else
                  "dump_all_vars is reachable with comb_dirty set and no do_settle_comb call")
        ck.floor("R5", "dump_all_vars calls in dump_variables", len(f.calls(r"WaveDumper::dump_all_vars$")), 1)
    else:
        ck.missing("R5", DV)
    ck.analysed = {"functions": [ENC, DEC, VCD, FST, ITER, "veryl_cosim::cosim_get", "veryl_cosim::cosim_set", DAV, DV]}
    return ck.finish(info)


def _ordinal(f, rx, bi):
    order = sorted(f.calls(rx), key=lambda x: (x[1]["l"], x[0]))
    for i, (b, _) in enumerate(order):
        if b == bi:
            return i + 1
    return 0


def _nthw(f, fld, bi, si):
    ws = sorted((s[3], b, i) for b, i, s in flow.field_writes(f, r"value::SvLogicVecVal$", fld))
    for n, (l, b, i) in enumerate(ws):
        if (b, i) == (bi, si):
            return n + 1
    return 0


def _arm_of(f, mf, bi):
    F = mf.at_entry(bi) or ()
    for a in F:
        if a[0] == "variant" and a[2] in ("U64", "BigUint"):
            return a[2]
    return "?"


def _arith(e):
    """tiny pretty-printer of describe() trees for index arithmetic"""
    if e is None:
        return "?"
    k = e[0]
    if k == "const":
        return str(e[1])
    if k == "bin":
        op = {"Sub": "-", "SubWithOverflow": "-", "Add": "+", "AddWithOverflow": "+", "SubUnchecked": "-", "AddUnchecked": "+"}.get(e[1], e[1])
        return "(%s%s%s)" % (_arith(e[2]), op, _arith(e[3]))
    if k == "proj":
        names = [p[1] for p in e[2] if p[0] == "f"]
        # checked arithmetic yields a pair; `.0` is the value
        if names and names[-1] == "0" and e[1][0] == "bin":
            return _arith(e[1])
        if names:
            return names[-1] if names[-1] != "0" else _arith(e[1])
        return _arith(e[1])
    if k == "call":
        c = (e[1] or "").split("::")[-1]
        if c == "width":
            return "width"
        return c + "()"
    if k == "arg":
        return e[2] or "arg"
    return k


def _dirty_escape(f, target_bb):
    """is target reachable from entry along a path that takes the comb_dirty==true edge and avoids do_settle_comb?"""
    gates = [bi for bi, t in f.calls(r"Simulator::do_settle_comb$")]
    # find the switch on comb_dirty
    for bi, b in enumerate(f.blocks):
        t = b["t"]
        if t["t"] != "sw" or b.get("cu"):
            continue
        on = t["on"]
        if on[0] == "k":
            continue
        r, pth = flow.access_path(f, on)
        if pth and pth[-1] == "comb_dirty":
            dirty_tgt = t["else"]
            if f.reaches(dirty_tgt, target_bb, avoid=gates):
                return True
            return False
    # no test of comb_dirty at all: dirty state can reach the dump unless settle is unconditional
    return f.reaches(0, target_bb, avoid=gates)


def _word_order_encode(ck, f, s, mf):
    # U64 arm: BitAnd with 0xffffffff feeds the pushed value and the accumulators are shifted right
    shr = shl = 0
    for b in f.blocks:
        if b.get("cu"):
            continue
        for st in b["s"]:
            if st[0] == "=" and st[2][0] == "bin":
                if st[2][1] in ("Shr", "ShrUnchecked"):
                    shr += 1
                if st[2][1] in ("Shl", "ShlUnchecked"):
                    shl += 1
    masks = 0
    for b in f.blocks:
        if b.get("cu"):
            continue
        for st in b["s"]:
            if st[0] == "=" and st[2][0] == "bin" and st[2][1] == "BitAnd":
                for o in (st[2][2], st[2][3]):
                    if o[0] == "k" and str(o[1].get("int")) == "4294967295":
                        masks += 1
    ck.ob("R2", "encode/U64/low-word-first", masks >= 2 and shr >= 2 and shl == 0, site(s),
          "each emitted word is the low 32 bits (& 0xffffffff) and the remainder is shifted right (masks=%d shr=%d shl=%d)" % (masks, shr, shl))
    # BigUint arm: get(i) with i the ascending loop index of 0..len
    lps = flow.loops_over(f)
    gets = f.calls(r"core::slice::<impl \[T\]>::get$")
    ok = bool(gets)
    for bi, t in gets:
        r, pth = flow.access_path(f, t["args"][1])
        if not (r[0] == "call" and pth == ("Some", "0")):
            ok = False
            continue
        # the loop that binds it must iterate a plain Range without adapters
        head = r[2]
        ad = []
        nt = f.blocks[head]["t"]
        rr, pp = flow.access_path(f, nt["args"][0], extra_transparent=re.compile(r"Iterator::(rev|skip|take|step_by|filter|map|enumerate)$"), adapters=ad)
        if ad or not (rr[0] == "agg" and str(rr[1]).endswith("range::Range")):
            ok = False
    ck.ob("R2", "encode/BigUint/ascending-digits", ok, site(s), "word i of the result is little-endian digit i (plain 0..len loop, no reversing adapter)")
    for bi, t in f.calls(VEC_PUSH):
        pass
    ins = f.calls(r"alloc::vec::Vec::<T, A>::insert$")
    ck.ob("R2", "encode/append-only", not ins, site(s), "words are appended with push (no insert at the front)")


def _word_order_decode(ck, f, s):
    lps = flow.loops_over(f)
    n = 0
    for head, t, some, none, item in lps:
        ad = []
        r, pth = flow.access_path(f, t["args"][0], extra_transparent=re.compile(r"Iterator::(rev|skip|take|step_by|filter|map|enumerate)$"), adapters=ad)
        if r != ("arg", 1):
            continue
        n += 1
        names = [a.split("::")[-1] for a in ad]
        body = f.reach_from(some, avoid=[head])
        shl = shr = 0
        for b in body:
            blk = f.blocks[b]
            for st in blk["s"]:
                if st[0] == "=" and st[2][0] == "bin":
                    if st[2][1] in ("Shl", "ShlUnchecked"):
                        shl += 1
                    if st[2][1] in ("Shr", "ShrUnchecked"):
                        shr += 1
            tt = blk["t"]
            if tt["t"] == "call":
                c = tt.get("callee") or ""
                if re.search(r"ShlAssign.*::shl_assign$", c):
                    shl += 1
                if re.search(r"ShrAssign.*::shr_assign$", c):
                    shr += 1
        ok = names == ["rev"] and shl >= 2 and shr == 0
        ck.ob("R2", "decode/loop@%d/high-word-first" % n, ok, site(s, t["l"]),
              "the slice is consumed in reverse while the accumulators shift left, so element 0 ends in the low word (adapters=%s shl=%d shr=%d)" % (names, shl, shr))
    ck.floor("R2", "decoder loops over the input slice", n, 2)


def _eval_bits(tree, m, p):
    """value of a small integer expression with `mask_xz` = m, `payload` = p (single bits) and every loop index = 0"""
    if tree is None:
        return None
    k = tree[0]
    if k == "const":
        try:
            return int(tree[1])
        except (TypeError, ValueError):
            return None
    if k == "bin":
        a = _eval_bits(tree[2], m, p)
        b = _eval_bits(tree[3], m, p)
        if a is None or b is None:
            return None
        op = tree[1]
        if op in ("Shl", "ShlUnchecked"):
            return a << b
        if op in ("Shr", "ShrUnchecked"):
            return a >> b
        if op == "BitAnd":
            return a & b
        if op == "BitOr":
            return a | b
        if op == "BitXor":
            return a ^ b
        if op in ("Add", "AddUnchecked", "AddWithOverflow"):
            return a + b
        if op in ("Mul", "MulUnchecked", "MulWithOverflow"):
            return a * b
        return None
    if k == "proj":
        names = [q[1] for q in tree[2] if q[0] == "f"]
        if names and names[-1] == "payload":
            return p
        if names and names[-1] == "mask_xz":
            return m
        if names and names[-1] == "0" and tree[1][0] == "bin":
            return _eval_bits(tree[1], m, p)
        if tree[1][0] == "call" and "next" in (tree[1][1] or ""):
            return 0   # loop index
        return None
    if k == "call" and "next" in (tree[1] or ""):
        return 0
    return None
