"""C24 - build results do not depend on file order or the run.

Decided here (DESIGN.md section 3, C24): the run-to-run determinism *sources* on the build path. std HashMap/HashSet
with the default RandomState hasher iterate in an order that changes from process to process; an ordered output
(file processing order, filelist, lockfile text) must never take its order from such an iteration.
Not decided: that results are independent of the order of the input file list (a semantic property of the analyzer).
"""
import re
from core import Check, site
from mirlib import Fn

RULE = (
    "Sites = every call that iterates a std HashMap/HashSet with the default RandomState hasher (iter, iter_mut, keys, "
    "values, values_mut, into_keys, into_values, drain, IntoIterator::into_iter; receiver type taken from MIR, "
    "FxHash/BuildHasherDefault receivers excluded) in the build-path crates. Each site is classified from the MIR "
    "data flow of the iterator value: order-insensitive when every terminal consumer is count/sum/any/all/min/max, a "
    "collect()/extend() into a HashMap/HashSet/BTreeMap/BTreeSet, or a collect() into a Vec on which a slice sort is "
    "called before any other use; otherwise order-sensitive. R1 inside the frozen list of order-defining functions "
    "(they build the processing order, the filelist, the lock names and the lockfile text) an order-sensitive site is a violation "
    "unless the triage table names a sort call that separates it from the named sink on every CFG path (checked). "
    "R2 veryl_path::gather_files_with_extension: the WalkDir whose entries are pushed to the result is built with "
    "sort_by_file_name (a sort whose comparator goes through a lossy key - file_name, len, case folding - does not count: ties keep "
    "hash order). R4 the crates that produce emitted bytes (veryl_emitter, veryl_sourcemap, veryl_pretty, veryl_aligner) make no "
    "file-system-state, environment or clock query except the four frozen reader sites. R3 elsewhere on the build path an order-sensitive site must be in the triage table (one reason "
    "each, confirmed by reading); a site that is not is reported UNDECIDED, never as a violation."
)

SCOPE = ["veryl", "veryl.bin", "veryl_metadata", "veryl_path", "veryl_std", "veryl_cache", "veryl_emitter", "veryl_analyzer",
         "veryl_parser", "veryl_aligner", "veryl_sourcemap"]
CRATES = SCOPE

ORDER_DEFINING = {
    "veryl_metadata::lockfile::Lockfile::paths": "dependency sources appended to the processing order",
    "veryl_metadata::lockfile::Lockfile::projects": "sorted view of the lock table used by paths()",
    "veryl_metadata::lockfile::Lockfile::save": "lockfile text",
    "veryl_metadata::lockfile::Lockfile::gen_locks": "lock names (numeric suffixes of same-named projects) and per-lock dependency lists",
    "veryl_metadata::metadata::Metadata::paths": "file processing order of the root project",
    "veryl::cmd_build::CmdBuild::sort_filelist": "filelist order",
    "veryl::cmd_build::CmdBuild::gen_filelist": "filelist text",
    "veryl::cmd_build::CmdBuild::gen_filelist_line": "filelist text",
    "veryl_path::gather_files_with_extension": "directory walk order",
    "veryl::pipeline::analyze": "walks the processing order",
}

# (function, method, receiver) -> ("sorted-before", sort regex, sink regex, reason) | ("benign", reason) | ("undecided", reason)
TRIAGE = {
    ("veryl_metadata::lockfile::Lockfile::save", "values", "lock_table"):
        ("sorted-before", r"slice::<impl \[T\]>::sort_by$", r"^toml::ser::to_string_pretty",
         "locks are pushed to self.projects, which is sorted by source before it is serialised"),
    ("veryl_metadata::lockfile::Lockfile::sort_table", "values_mut", "lock_table"):
        ("benign", "sorts each bucket in place; buckets are independent of each other"),
    ("veryl_metadata::lockfile::Lockfile::update", "values", "old_table"):
        ("benign", "only logs 'Removing dependency' lines for locks that disappeared; no output depends on the order"),
    ("veryl_metadata::lockfile::Lockfile::clear_cache", "values", "lock_table"):
        ("benign", "removes each dependency's cache directories; the set removed does not depend on the order"),
    ("veryl_metadata::lockfile::Lockfile::collect_components", "values", "lock_table"):
        ("undecided", "dependency component lists are returned in table order and registered first-wins by name "
                      "(collect_component_manifests); names are project-qualified so collisions across projects cannot occur, "
                      "but this was not demonstrated"),
    ("veryl_metadata::lockfile::Lockfile::gen_locks", "into_iter", "properties"):
        ("benign", "each override is applied to its own key of a BTreeMap; the first unknown/incompatible property aborts with an "
                   "error either way (only which one is named could differ)"),
    ("veryl_analyzer::analyzer::Analyzer::new", "values", "lock_table"):
        ("benign", "inserts one namespace symbol per dependency, keyed by name; namespace symbols are not nodes of the type DAG. "
                   "After the Lockfile::paths fix 10 builds of the F5 project gave one filelist (findings/F5_lock_table_order.sh)"),
    ("veryl::cmd_publish::CmdPublish::exec", "values", "lock_table"):
        ("benign", "publish-time validation: bails on the first path dependency; not on the build path proper"),
    ("veryl::incremental::Incremental::open", "into_iter", "miss"):
        ("benign", "extends a HashSet with the dependents of every miss; set union is order-independent"),
    ("veryl::incremental::Incremental::save", "into_iter", "dependent_files"):
        ("benign", "each entry is written under its own key (Store::set_dependents into a BTreeMap)"),
    ("veryl::incremental::Incremental::save", "into_iter", "tests"):
        ("benign", "each entry is written under its own key (Store::set_tests into a BTreeMap)"),
    ("veryl::incremental::Incremental::save", "into_iter", "diagnosed"):
        ("benign", "each entry is written under its own key (Store::set_diagnostics); blobs are content-addressed"),
    ("veryl_aligner::Aligner::gather_additions", "into_iter", "additions"):
        ("benign", "merges widths per location key with + and PadKind::merge, both commutative"),
    ("veryl::cmd_test::build_component_libraries", "into_keys", "*"):
        ("benign", "veryl test: export names of one component package (unique map keys) are registered each under its own key in "
                   "`libraries`; the order inside one package only orders duplicate warnings"),
    ("veryl::cmd_synth::CmdSynth::exec", "into_iter", "*"):
        ("benign", "synth report histogram, not on the build path proper (C20 scope)"),
    ("veryl::doc::doc_builder::DocBuilder::build_module", "into_iter", "*"):
        ("benign", "veryl doc, not on the build path"),
    ("veryl::doc::doc_builder::DocBuilder::build_proto_module", "into_iter", "*"):
        ("benign", "veryl doc, not on the build path"),
    ("veryl_metadata::metadata_output::MetadataDependencyV2::from_lock", "into_iter", "*"):
        ("benign", "veryl metadata output: collected into a toml table keyed by name"),
    ("veryl_metadata::metadata_output::MetadataOutputV2::from_metadata", "into_iter", "*"):
        ("benign", "veryl metadata output: collected into a toml table keyed by name"),
    ("veryl_metadata::component::Component::collect_manifests", "into_iter", "*"):
        ("undecided", "component manifests of one package are returned in map order and deduplicated first-wins by the caller; "
                      "names inside one package are unique map keys, so order should not matter; not demonstrated"),
}

ITER = re.compile(
    r"^std::collections::hash::(map::HashMap|set::HashSet)::<[^>]*>::(iter|iter_mut|values|values_mut|keys|into_values|into_keys|drain|retain|extract_if)$"
    r"|^<&?(?:'a )?(?:mut )?std::collections::hash::(map::HashMap|set::HashSet)<[^>]*> as core::iter::traits::collect::IntoIterator>::into_iter$")
ADAPTER = re.compile(r"IntoIterator>::into_iter$|iterator::Iterator>?::(map|filter|filter_map|flat_map|flatten|cloned|copied|chain|by_ref|inspect|peekable|fuse|zip|map_while)$")
INSENS = re.compile(r"iterator::Iterator>?::(count|sum|product|any|all|max|min|max_by|max_by_key|min_by|min_by_key)$")
COLLECT = re.compile(r"iterator::Iterator>?::collect$|FromIterator<.*>>::from_iter$")
EXTEND = re.compile(r"Extend<.*>>::extend$")
SORT = re.compile(r"slice::<impl \[T\]>::(sort|sort_by|sort_by_key|sort_by_cached_key|sort_unstable|sort_unstable_by|sort_unstable_by_key)$")
UNORDERED_TY = re.compile(r"^(std::collections::hash::(map::HashMap|set::HashSet)|alloc::collections::btree::(map::BTreeMap|set::BTreeSet)|hashbrown::|indexmap::)")


def uses_of(fn, l):
    """Blocks whose call terminator takes local l (or a one-step reference to it) as an argument: [(bb, terminator, argidx)]."""
    alias = {l}
    changed = True
    while changed:
        changed = False
        for b in fn.blocks:
            if b.get("cu"):
                continue
            for s in b["s"]:
                if s[0] != "=" or s[1][1] or s[1][0] in alias:
                    continue
                rv = s[2]
                if rv[0] in ("ref", "ptr") and rv[2][0] in alias and all(p == "*" for p in rv[2][1]):
                    alias.add(s[1][0]); changed = True  # &x, &mut x, reborrow &mut *r
                elif rv[0] == "use" and rv[1][0] in ("c", "m") and rv[1][1][0] in alias and not rv[1][1][1]:
                    alias.add(s[1][0]); changed = True
    out = []
    for bi, b in enumerate(fn.blocks):
        if b.get("cu"):
            continue
        t = b["t"]
        if t["t"] == "call":
            for i, a in enumerate(t["args"]):
                if a[0] in ("c", "m") and a[1][0] in alias and not a[1][1]:
                    out.append((bi, t, i))
    return out, alias


def classify(fn, bi, t, depth=0):
    """('insensitive'|'sorted'|'sensitive', why) for the iterator produced by call terminator t in block bi."""
    cal = t.get("callee") or ""
    if cal.endswith("::retain") or cal.endswith("::extract_if"):
        return "insensitive", "retain applies its predicate to each element independently"
    if depth > 8:
        return "sensitive", "adapter chain too deep"
    if t["dst"][1]:
        return "sensitive", "iterator stored through a projection"
    l = t["dst"][0]
    uses, _ = uses_of(fn, l)
    uses = [(b, u, i) for b, u, i in uses if b != bi]
    if not uses:
        return "sensitive", "iterator escapes (no consumer found)"
    verdicts = []
    for ub, u, ai in uses:
        c = u.get("callee") or ""
        if ADAPTER.search(c) and ai == 0:
            verdicts.append(classify(fn, ub, u, depth + 1))
        elif INSENS.search(c) and ai == 0:
            verdicts.append(("insensitive", c.split("::")[-1]))
        elif COLLECT.search(c):
            if u["dst"][1]:
                verdicts.append(("sensitive", "collect into a projection"))
                continue
            ty = fn.ty(u["dst"][0])
            if UNORDERED_TY.search(ty):
                verdicts.append(("insensitive", "collect into " + ty.split("<")[0].split("::")[-1]))
            elif ty.startswith("alloc::vec::Vec<"):
                verdicts.append(sorted_before_use(fn, ub, u))
            else:
                verdicts.append(("sensitive", "collect into " + ty[:40]))
        elif EXTEND.search(c) and ai == 1:
            a0 = u["args"][0]
            ty = fn.ty(a0[1][0]) if a0[0] in ("c", "m") else ""
            ty = re.sub(r"^&(mut )?", "", ty)
            verdicts.append(("insensitive", "extend of an unordered/keyed collection") if UNORDERED_TY.search(ty)
                            else ("sensitive", "extend of " + ty[:40]))
        elif re.search(r"iterator::Iterator>?::next$", c):
            verdicts.append(("sensitive", "for loop over the table"))
        else:
            verdicts.append(("sensitive", "consumer " + c[-50:]))
    if all(v[0] in ("insensitive", "sorted") for v in verdicts):
        kind = "sorted" if any(v[0] == "sorted" for v in verdicts) else "insensitive"
        return kind, "; ".join(sorted({v[1] for v in verdicts}))
    return "sensitive", "; ".join(sorted({v[1] for v in verdicts if v[0] == "sensitive"}))


def sorted_before_use(fn, cb, ct):
    """The Vec produced by collect (block cb) is sorted before any other use."""
    v = ct["dst"][0]
    uses, alias = uses_of(fn, v)
    sort_blocks = set()
    prep = set()
    for bi, t in fn.calls(SORT.pattern):
        pv = fn.prov(t["args"][0], depth=8)
        if any(x[0] == "call" and x[2] == cb for x in pv):
            sort_blocks.add(bi)
    if not sort_blocks:
        return "sensitive", "collect into a Vec that is never sorted"
    for ub, u, ai in uses:
        c = u.get("callee") or ""
        if ub in sort_blocks:
            continue
        if re.search(r"DerefMut>::deref_mut$|Deref>::deref$", c):
            # only as preparation of the sort call's receiver
            if not u["dst"][1] and any(fn.reaches(ub, sb) for sb in sort_blocks):
                d_uses, _ = uses_of(fn, u["dst"][0])
                if all(b2 in sort_blocks for b2, _, _ in d_uses):
                    prep.add(ub)
                    continue
        if fn.reaches(ct["to"], ub, avoid=sort_blocks):
            return "sensitive", "Vec used at line %s before it is sorted" % u["l"]
    # returned / moved by statement before sort?
    for bi, b in enumerate(fn.blocks):
        if b.get("cu") or bi in sort_blocks:
            continue
        for s in b["s"]:
            if s[0] == "=" and s[2][0] == "use" and s[2][1][0] == "m" and s[2][1][1][0] == v and not s[2][1][1][1]:
                if fn.reaches(ct["to"], bi, avoid=sort_blocks):
                    return "sensitive", "Vec moved at line %s before it is sorted" % s[3]
    # the order is total only if the comparator looks at the whole element or at a key that identifies it: a comparator that goes
    # through a lossy projection (file_name, file_stem, len, to_lowercase, ...) leaves ties in hash order
    for sb in sort_blocks:
        lossy = _lossy_comparator(fn.blocks[sb]["t"])
        if lossy:
            return "sensitive", "the sort's comparator compares %s: equal keys keep the hash map's order" % lossy
    return "sorted", "collect into a Vec that is sorted before use"


WORLD = [None]
LOSSY_KEY = re.compile(r"std::path::Path::(file_name|file_stem|extension|parent)$|::len$|::to_(ascii_)?(lower|upper)case$|::is_empty$|::count$|core::str::<impl str>::(trim|trim_start|trim_end)$")


def _lossy_comparator(t):
    w = WORLD[0]
    if w is None:
        return None
    out = set()
    for cl in t.get("cl", []) or []:
        if cl not in w.fns:
            continue
        g = Fn(w.mir(cl))
        for bi, tt in g.calls(r"cmp::(Ord|PartialOrd)(<.*>)?(>)?::(cmp|partial_cmp)$|::cmp$"):
            for a in tt["args"]:
                pv = g.prov(a, depth=14)
                for x in pv:
                    if x[0] == "call" and LOSSY_KEY.search(x[1] or ""):
                        out.add(x[1].split("::")[-1] + "()")
    return sorted(out) or None


def receiver_name(fn, t):
    a = t["args"][0]
    if a[0] not in ("c", "m"):
        return "*"
    pv = fn.prov(a, depth=6, through_calls=False)
    names = set()
    for x in pv:
        if x[0] == "field":
            names.add(x[1])
        elif x[0] == "arg":
            fl = [q for q in x[2] if q[0] == "f"]
            names.add(fl[-1][1] if fl else fn.name(x[1]))
    l = a[1][0]
    seen = set()
    while l not in seen:
        seen.add(l)
        if fn.name(l):
            names.add(fn.name(l))
        d = fn.def_of(l)
        if d is None or d[0] != "s":
            break
        rv = fn.rvalue_at(d)
        if rv[0] in ("ref", "ptr"):
            fl = [p for p in rv[2][1] if isinstance(p, list) and p[0] == "f"]
            if fl:
                names.add(fl[-1][2])
            l = rv[2][0]
        elif rv[0] == "use" and rv[1][0] in ("c", "m"):
            fl = [p for p in rv[1][1][1] if isinstance(p, list) and p[0] == "f"]
            if fl:
                names.add(fl[-1][2])
            l = rv[1][1][0]
        else:
            break
    return names or {"*"}


def run(world, tier, info, only=None):
    ck = Check("C24", tier, "other", RULE, only)
    w = world
    for p in ORDER_DEFINING:
        if p not in w.fns:
            ck.missing("anchors", p)
    if any(p not in w.fns for p in ORDER_DEFINING):
        return ck.finish(info)
    ck.assume("FxHashMap / BuildHasherDefault tables hash deterministically: their iteration order is a function of the "
              "insertion history, which is the same from run to run when the processing order is")
    WORLD[0] = w
    ck.assume("BTreeMap / Vec / slice iteration and WalkDir::sort_by_file_name are deterministic")
    n_fns = 0
    sites = []
    for p, s in sorted(w.fns.items()):
        if s["crate"] not in SCOPE or s.get("derived") or s.get("alias_of"):
            continue
        n_fns += 1
        if not any(ITER.search(c["c"] or "") for c in s["calls"]):
            continue
        fn = Fn(w.mir(p))
        for bi, t in fn.calls():
            if not ITER.search(t.get("callee") or ""):
                continue
            a = t["args"][0]
            ty = fn.ty(a[1][0]) if a[0] in ("c", "m") else "?"
            if "Fx" in ty or "BuildHasherDefault" in ty or "ahash" in ty:
                continue
            sites.append((p, fn, bi, t, ty))
    ck.floor("sites", "RandomState hash-table iteration sites on the build path", len(sites), 20)
    counts = {"insensitive": 0, "sorted": 0, "triaged": 0, "undecided": 0, "violation": 0}
    seen_keys = {}
    for p, fn, bi, t, ty in sites:
        s = w.fns[p]
        owner = s.get("parent") if s["kind"] == "closure" and s.get("parent") else p
        while owner in w.fns and w.fns[owner]["kind"] == "closure" and w.fns[owner].get("parent"):
            owner = w.fns[owner]["parent"]
        method = (t["callee"] or "").split("::")[-1]
        kind, why = classify(fn, bi, t)
        names = receiver_name(fn, t)
        base = "%s/%s(%s)" % (p, method, ",".join(sorted(names)))
        n = seen_keys.get(base, 0)
        seen_keys[base] = n + 1
        key = base if n == 0 else "%s#%d" % (base, n + 1)
        st = site(s, t["l"])
        if kind in ("insensitive", "sorted"):
            counts[kind] += 1
            ck.ob("R1" if owner in ORDER_DEFINING else "R3", "site:" + key, True, st, "order-%s: %s" % (kind, why))
            continue
        tri = None
        for nm in list(names) + ["*"]:
            tri = TRIAGE.get((owner, method, nm)) or TRIAGE.get((p, method, nm))
            if tri:
                break
        if tri and tri[0] == "sorted-before":
            _, sort_rx, sink_rx, reason = tri
            sorts = {b for b, _ in fn.calls(sort_rx)}
            sinks = [b for b, _ in fn.calls(sink_rx)]
            ok = bool(sorts) and bool(sinks) and not any(fn.reaches(t["to"], sb, avoid=sorts) for sb in sinks)
            counts["triaged" if ok else "violation"] += 1
            ck.ob("R1", "site:" + key, ok, st,
                  ("order-sensitive (%s) but %s: every path to %s passes a sort" % (why, reason, sink_rx)) if ok else
                  "order-sensitive (%s) and a path reaches the sink %s without passing %s" % (why, sink_rx, sort_rx))
        elif tri and tri[0] == "benign":
            counts["triaged"] += 1
            ck.ob("R3", "site:" + key, True, st, "order-sensitive in form (%s); triaged benign: %s" % (why, tri[1]))
        elif owner in ORDER_DEFINING:
            counts["violation"] += 1
            ck.ob("R1", "site:" + key, False, st,
                  "%s defines an ordered output (%s) and takes the order of a RandomState %s here (%s): the result changes "
                  "from run to run; iterate a sorted view instead" % (owner, ORDER_DEFINING[owner], ty.split("<")[0].split("::")[-1], why))
        else:
            counts["undecided"] += 1
            ck.ob("R3", "site:" + key, None, st, "order-sensitive (%s); %s" % (
                why, tri[1] if tri else "not in the triage table: read the site and add it with a reason, or sort first"))
    # ---------------- R2: directory walk -----------------------------------------------------------
    gp = "veryl_path::gather_files_with_extension"
    g = Fn(w.mir(gp))
    pushes = g.calls(r"^alloc::vec::Vec::<T, A>::push$|^alloc::vec::Vec::<T>::push$")
    ret_pushes = []
    for bi, t in pushes:
        pv = g.prov(t["args"][0], depth=6, through_calls=False)
        l = t["args"][0][1][0] if t["args"][0][0] in ("c", "m") else None
        nm = {g.name(x[1]) for x in pv if x[0] == "local"} | ({g.name(l)} if l is not None else set())
        # receiver is `ret`
        d = g.describe(t["args"][0], 6)
        if "ret" in str(d) or any(g.name(i) == "ret" and ("local", i) in pv for i in range(len(g.locals))):
            ret_pushes.append((bi, t))
    if not ret_pushes:
        ret_pushes = pushes[-1:]
    ck.floor("R2", "pushes to the result in gather_files_with_extension", len(ret_pushes), 1)
    for bi, t in ret_pushes:
        pv = g.prov(t["args"][1], depth=30)
        ck.ob("R2", "walk-sorted", any(x[0] == "call" and re.search(r"WalkDir::sort_by_file_name$", x[1] or "") for x in pv),
              site(w.fns[gp], t["l"]), "every path pushed to the result comes from a WalkDir built with sort_by_file_name")
    # ---------------- R4: emission does not query the environment -------------------------------------------------
    ENVQ = re.compile(r"^std::fs::(canonicalize|metadata|symlink_metadata|read_link|read_dir|read|read_to_string)$|^std::path::Path::(exists|is_file|is_dir|is_symlink|canonicalize|metadata|read_link|try_exists)$"
                      r"|^std::env::(current_dir|var|var_os|vars|temp_dir|home_dir)$|^std::time::(SystemTime|Instant)::now$|^std::process::id$")
    EMIT_ALLOW = {
        ("<veryl_emitter::emitter::Emitter as veryl_parser::veryl_walker::VerylWalker>::include_declaration", "std::fs::read_to_string"):
            "the text of an `include` file is an input of the build",
        ("veryl_sourcemap::sourcemap::SourceMap::from_src", "std::fs::read_to_string"): "reader of an existing map (used by tooling, not by emission)",
        ("veryl_sourcemap::sourcemap::SourceMap::from_src", "std::fs::read"): "reader of an existing map",
        ("veryl_sourcemap::sourcemap::SourceMap::lookup", "std::fs::canonicalize"): "reader-side path resolution, produces no emitted bytes",
    }
    n4 = 0
    for p4, s4 in sorted(w.fns.items()):
        if s4.get("alias_of") or s4["crate"] not in ("veryl_emitter", "veryl_sourcemap", "veryl_pretty", "veryl_aligner") or "::tests::" in p4:
            continue
        for c in s4["calls"]:
            cc = c["c"] or ""
            if not ENVQ.search(cc):
                continue
            n4 += 1
            owner = re.sub(r"::\{closure#\d+\}.*$", "", p4)
            why = EMIT_ALLOW.get((owner, cc))
            ck.ob("R4", "emission-queries-environment:%s/%s" % (owner, cc.split("::")[-1]), why is not None, site(s4, c["l"]),
                  "allowed: " + why if why else
                  "%s calls %s while producing emitted bytes: the output then depends on file-system or process state that can differ between two "
                  "runs of the same build (symlinks, directories that exist only after the first run, cwd, time)" % (p4, cc))
    ck.floor("R4", "environment queries in the emitting crates", n4, 3)
    ck.analysed = {"crates": SCOPE, "functions": n_fns, "sites": len(sites), "classified": counts,
                   "order_defining_functions": sorted(ORDER_DEFINING)}
    return ck.finish(info)
