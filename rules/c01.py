"""C01 - emitted SystemVerilog behaves exactly like the Veryl design (clock/reset configuration clause only).

Decided (DESIGN.md section 3 C01, section 8): "every clock-edge and reset-polarity/synchronicity setting is given the same
meaning by the emitter and the simulator". Both sides decide by classifying the variants of veryl_metadata::ResetType /
ClockType and the reset/clock variants of the analyzer's TypeKind (and the grammar's CastingType). The rule reads the meaning
of every such classification from the code's own vocabulary (variant names against field / function / local / keyword names)
and demands agreement. Not decided: behavioural equivalence of emitted SystemVerilog and the simulator.
"""
import re
from collections import defaultdict
from core import Check, site
from mirlib import Fn, MustFacts, place_key
import flow

RULE = (
    "Scope: every function of veryl_emitter, veryl_simulator, veryl (cmd_test) and veryl_analyzer::handlers::create_symbol_table that "
    "switches on a ResetType, ClockType, reset/clock TypeKind or CastingType value. At every program point where such a value is "
    "constrained to a set of variants (must-facts of the discriminant switches), the polarity vocabulary of the constraint (the words "
    "high/low, async/sync, posedge/negedge common to the allowed variant names) must not be contradicted by what happens there: R1 a bool "
    "constant stored (through copies and |) into a destination whose name carries such a word (reset_active_low, abstract_reset_sync, "
    "src_is_high, fn reset_is_async, ...); R2 a string constant \"posedge\"/\"negedge\" handed to the emitter (async high = posedge, "
    "async low = negedge, sync = none; PosEdge = posedge, NegEdge = negedge); R3 an enum value constructed there (TypeKind::ResetAsyncHigh "
    "-> ResetType::AsyncHigh must keep both words); R4 a configuration field read there (reset_low_prefix, clock_negedge_suffix). "
    "R5 completeness: a named bool destination is set true under every variant of its class (both *Low variants for an active_low "
    "destination, ...). R6 bridging: a destination of one polarity fed from a source named with the opposite one (active_low from "
    "abstract_reset_active_high, is_async from sync) is negated exactly once. R7 the emitter's if_reset condition emits \"!\" exactly "
    "under self.reset_active_low, and the abstract reset/clock types fall back to build_opt.reset_type / clock_type."
)

CRATES = ["veryl_emitter", "veryl_simulator", "veryl", "veryl_analyzer", "veryl_metadata"]
ENUM_RX = re.compile(r"veryl_metadata::build::(ResetType|ClockType)$|veryl_analyzer::ir::comptime::TypeKind$|veryl_analyzer::symbol::TypeKind$|veryl_grammar_trait::CastingType$")
SCOPE_RX = re.compile(r"^(<)?veryl_emitter::|^veryl_simulator::|^veryl::cmd_test::|^veryl_analyzer::handlers::create_symbol_table::")
WORDS = ("high", "low", "async", "sync", "posedge", "negedge")
OPP = {"high": "low", "low": "high", "async": "sync", "sync": "async", "posedge": "negedge", "negedge": "posedge"}
# cross vocabulary for resets: the edge keyword of an asynchronous reset follows its polarity; synchronous resets have no edge
CROSS = {("high", "negedge"), ("low", "posedge"), ("sync", "posedge"), ("sync", "negedge")}


def words(name):
    """polarity words carried by an identifier (token-wise, so `lower`/`allow` carry none)"""
    if not name:
        return set()
    toks = [t.lower() for t in re.findall(r"[A-Z]+(?![a-z])|[A-Z]?[a-z]+|\d+", name.replace("_", " "))]
    out = set()
    for i, t in enumerate(toks):
        if t in WORDS:
            out.add(t)
        if t in ("pos", "neg") and i + 1 < len(toks) and toks[i + 1] == "edge":
            out.add(t + "edge")
        if t == "sensitivity":
            out.add("async")
    return out


def common_words(variants):
    ws = [words(v) for v in variants]
    if not ws:
        return set()
    return set.intersection(*ws)


def contradicts(event_words, constraint_words):
    out = []
    for e in event_words:
        for c in constraint_words:
            if OPP.get(e) == c or (c, e) in CROSS or (e, c) in CROSS:
                out.append((e, c))
    return out


def contradicts_any(event_words, cons):
    """the event contradicts the vocabulary of SOME variant the constrained value may hold here"""
    out = []
    for vs in cons.values():
        if all(words(v) for v in vs):
            for v in sorted(vs):
                for e, c in contradicts(event_words, words(v)):
                    out.append((e, "%s (%s)" % (c, v)))
        else:
            for e, c in contradicts(event_words, common_words(vs)):
                out.append((e, c))
    return out


class Site:
    """all enum switches of one function, with per-block variant constraints"""

    def __init__(self, w, p):
        self.p = p
        self.s = w.fns[p]
        self.f = Fn(w.mir(p))
        self.mf = MustFacts(self.f)
        self.enum_of = {}
        self.variants = {}
        for bb, t in flow.enum_switches(self.f, ENUM_RX.pattern):
            pk = place_key(t["of"])
            self.enum_of[pk] = t["enum"]
            self.variants[t["enum"]] = t.get("variants", [])

    def constraints(self, bb, si=None):
        """{place_key: allowed variant names} for the polarity enums at this point"""
        st = self.mf.at_entry(bb) if si is None else (self.mf.state_at(bb, si) or (None,))[0]
        out = {}
        if st is None:
            return None
        for a in st:
            if a[0] == "variant" and a[1] in self.enum_of:
                out[a[1]] = {a[2]}
            elif a[0] == "notvariant" and a[1] in self.enum_of:
                allv = self.variants[self.enum_of[a[1]]]
                out[a[1]] = set(allv) - set(a[2])
        # keep only constraints that carry polarity vocabulary: either every allowed variant is a polarity-named one (an arm that
        # lists reset/clock variants), or the allowed variants share a word; a wildcard remainder says nothing
        return {k: v for k, v in out.items() if v and (all(words(x) for x in v) or common_words(v))}


def dest_names(f, local, fn_name, adts, seen=None, parity=0, depth=0):
    """[(name, parity)] of the named destinations a bool local flows to through copies, | and ! (parity = number of negations)"""
    seen = seen if seen is not None else set()
    if (local, parity) in seen or depth > 8:
        return []
    seen.add((local, parity))
    out = []
    if f.name(local):
        out.append((f.name(local), parity))
    if local == 0:
        out.append((fn_name, parity))
    for bi, b in enumerate(f.blocks):
        if b.get("cu"):
            continue
        for s in b["s"]:
            if s[0] != "=":
                continue
            rv = s[2]
            uses = False
            neg = 0
            if rv[0] == "use" and rv[1][0] != "k" and rv[1][1][0] == local and not rv[1][1][1]:
                uses = True
            elif rv[0] == "bin" and rv[1] in ("BitOr", "BitAnd"):
                for o in (rv[2], rv[3]):
                    if o[0] != "k" and o[1][0] == local and not o[1][1]:
                        uses = True
            elif rv[0] == "un" and rv[1] == "Not" and rv[2][0] != "k" and rv[2][1][0] == local and not rv[2][1][1]:
                uses = True
                neg = 1
            elif rv[0] == "agg" and isinstance(rv[1], dict) and rv[1].get("adt"):
                for i, o in enumerate(rv[2]):
                    if o[0] != "k" and o[1][0] == local and not o[1][1]:
                        a = adts.get(rv[1]["adt"])
                        if a:
                            vi = 0
                            for k, v in enumerate(a["variants"]):
                                if v["name"] == rv[1].get("variant"):
                                    vi = k
                            fl = a["variants"][vi]["fields"]
                            if i < len(fl) and not fl[i]["name"].isdigit():
                                out.append((fl[i]["name"], parity))
            if not uses:
                continue
            fields = [p for p in s[1][1] if isinstance(p, list) and p[0] == "f"]
            if fields:
                out.append((fields[-1][2], parity + neg))
            elif not s[1][1]:
                out += dest_names(f, s[1][0], fn_name, adts, seen, parity + neg, depth + 1)
    return out


def run(world, tier, info, only=None):
    ck = Check("C01", tier, "other", RULE, only)
    w = world
    for a in ("veryl_metadata::build::ResetType", "veryl_metadata::build::ClockType"):
        if a not in w.adts:
            ck.missing("anchors", a)
    if any(o["verdict"] == "violation" for o in ck.obs):
        return ck.finish(info)
    ck.assume("identifiers carry their meaning: a field, function, local or variant named *low*/*high*/*async*/*sync*/*posedge*/*negedge* "
              "means what the word says (the oracle is the code's own vocabulary)")
    ck.assume("SystemVerilog: an asynchronous active-high reset is `posedge rst`, active-low is `negedge rst`; synchronous resets are not in the sensitivity list")
    cand = []
    for p, s in sorted(w.fns.items()):
        if s.get("derived") or s.get("alias_of") or s.get("gen") or not SCOPE_RX.search(p):
            continue
        if "serde" in p or "::_::" in p or "::tests::" in p:
            continue
        cand.append(p)
    sites = []
    for p in cand:
        s = w.fns[p]
        # cheap prefilter: the function mentions one of the enums (switches carry the enum path only in MIR)
        if s["nblocks"] < 3:
            continue
        raw = w.mir_raw(p)
        if not (b"build::ResetType" in raw or b"build::ClockType" in raw or b"TypeKind" in raw or b"CastingType" in raw):
            continue
        if b'"enum"' not in raw:
            continue
        try:
            st = Site(w, p)
        except KeyError:
            continue
        if st.enum_of:
            sites.append(st)
    ck.floor("scope", "functions classifying reset/clock variants", len(sites), 12)
    n_events = defaultdict(int)
    tuple_roles = tuple_position_roles(w)
    dest_cover = {}  # (fn, dest name) -> {"class": word, "true": set(variants by place), "site": ...}
    for st in sites:
        f, s, p = st.f, st.s, st.p
        short = _short(p)
        fn_name = _fn_name(p)
        for bi, b in enumerate(f.blocks):
            if b.get("cu"):
                continue
            c0 = st.constraints(bi)
            if c0 is None:
                continue
            for si, stmt in enumerate(b["s"]):
                if stmt[0] != "=":
                    continue
                cons = st.constraints(bi, si)
                if not cons:
                    continue
                cw = set()
                for v in cons.values():
                    cw |= common_words(v)
                dst, rv = stmt[1], stmt[2]
                # R1 bool constants
                if rv[0] == "use" and rv[1][0] == "k" and "int" in rv[1][1] and not dst[1] and f.ty(dst[0]) == "bool":
                    val = str(rv[1][1]["int"]) not in ("0", "false")
                    names = dest_names(f, dst[0], fn_name, w.adts)
                    for nm, par in names:
                        v = val != bool(par % 2)
                        for wd in words(nm):
                            ew = wd if v else OPP[wd]
                            if ew in ("posedge", "negedge"):
                                continue
                            n_events["R1"] += 1
                            bad = contradicts_any({ew}, cons)
                            key = "%s/%s" % (short, nm)
                            ck.ob("R1", "bool:%s=%s@%s" % (key, v, _cons_key(cons)), not bad, site(s, stmt[3]),
                                  "%s is %s where the value is one of %s" % (nm, v, _cons_txt(cons)) if not bad else
                                  "%s is set %s where the reset/clock value is one of %s: '%s' contradicts '%s'" % (nm, v, _cons_txt(cons), ew, bad[0][1]))
                            if v:
                                dc = dest_cover.setdefault((p, nm, wd), {"site": site(s, stmt[3]), "true": defaultdict(set)})
                                for pk, vs in cons.items():
                                    dc["true"][pk] |= vs
                # R1 (tuples of bool constants whose positions are named by the closures that destructure them)
                if rv[0] == "agg" and rv[1] == "tuple" and rv[2] and all(o[0] == "k" and "int" in o[1] for o in rv[2]) and f.ty(dst[0]) == "(bool, bool)":
                    for i, o in enumerate(rv[2]):
                        val = str(o[1]["int"]) not in ("0", "false")
                        for nm in sorted(tuple_roles.get(i, ())):
                            for wd in words(nm):
                                ew = wd if val else OPP[wd]
                                n_events["R1"] += 1
                                bad = contradicts_any({ew}, cons)
                                ck.ob("R1", "tuple:%s/.%d(%s)=%s@%s" % (short, i, nm, val, _cons_key(cons)), not bad, site(s, stmt[3]),
                                      "tuple position %d (%s) is %s where the value is one of %s" % (i, nm, val, _cons_txt(cons)) if not bad else
                                      "tuple position %d (%s) is %s where the value is one of %s: '%s' contradicts '%s'" % (i, nm, val, _cons_txt(cons), ew, bad[0][1]))
                # R3 constructed enum values
                if rv[0] == "agg" and isinstance(rv[1], dict) and ENUM_RX.search(rv[1].get("adt") or "") and not rv[2]:
                    ew = words(rv[1].get("variant"))
                    if ew:
                        n_events["R3"] += 1
                        bad = contradicts_any(ew, cons)
                        missing = [x for x in cw if x in ("high", "low", "async", "sync") and x not in ew and OPP[x] not in ew and
                                   rv[1]["adt"].endswith("ResetType")]
                        ck.ob("R3", "map:%s/%s@%s" % (short, rv[1].get("variant"), _cons_key(cons)), not bad, site(s, stmt[3]),
                              "%s::%s is produced where the source is one of %s" % (rv[1]["adt"].split("::")[-1], rv[1].get("variant"), _cons_txt(cons)) if not bad else
                              "%s::%s is produced where the source is one of %s ('%s' vs '%s')" % (rv[1]["adt"].split("::")[-1], rv[1].get("variant"), _cons_txt(cons), bad[0][0], bad[0][1]))
                # R4 configuration fields read
                for o in _ops(rv):
                    if o[0] == "k":
                        continue
                    for pr in o[1][1]:
                        if isinstance(pr, list) and pr[0] == "f" and (pr[3] or "").endswith("build::Build"):
                            ew = words(pr[2])
                            if ew:
                                n_events["R4"] += 1
                                bad = contradicts_any(ew, cons)
                                ck.ob("R4", "field:%s/%s@%s" % (short, pr[2], _cons_key(cons)), not bad, site(s, stmt[3]),
                                      "build.%s is used where the value is one of %s" % (pr[2], _cons_txt(cons)) if not bad else
                                      "build.%s is used where the value is one of %s ('%s' vs '%s')" % (pr[2], _cons_txt(cons), bad[0][0], bad[0][1]))
            # R2 keyword strings
            t = b["t"]
            if t["t"] == "call":
                cons = st.constraints(bi, len(b["s"]))
                if cons:
                    cw = set()
                    for v in cons.values():
                        cw |= common_words(v)
                    for a in t["args"]:
                        r, pth = flow.access_path(f, a)
                        if r[0] == "const" and isinstance(r[1], str) and r[1] in ("posedge", "negedge"):
                            n_events["R2"] += 1
                            bad = contradicts_any({r[1]}, cons)
                            ck.ob("R2", "keyword:%s/%s@%s" % (short, r[1], _cons_key(cons)), not bad, site(s, t["l"]),
                                  "\"%s\" is emitted where the value is one of %s" % (r[1], _cons_txt(cons)) if not bad else
                                  "\"%s\" is emitted where the value is one of %s ('%s' vs '%s')" % (r[1], _cons_txt(cons), bad[0][0], bad[0][1]))
    # R2 completeness: the edge keyword exists for both async polarities and both clock edges in each emitting function
    ck.floor("R1", "polarity-named bool assignments under a variant constraint", n_events["R1"], 20)
    ck.floor("R2", "edge keywords emitted under a variant constraint", n_events["R2"], 8)
    ck.floor("R3", "enum-to-enum maps under a variant constraint", n_events["R3"], 10)
    ck.floor("R4", "polarity-named build fields read under a variant constraint", n_events["R4"], 8)
    # ---------------- R5 completeness of named bool destinations -------------------------------------------
    n5 = 0
    for (p, nm, wd), dc in sorted(dest_cover.items(), key=lambda x: (x[0][0], x[0][1], x[0][2])):
        st = [x for x in sites if x.p == p][0]
        by_enum = defaultdict(set)
        for pk, got in dc["true"].items():
            by_enum[st.enum_of[pk]] |= got
        for en, got in sorted(by_enum.items()):
            allv = st.variants[en]
            cls = {v for v in allv if wd in words(v)}
            if not cls:
                continue
            n5 += 1
            miss = sorted(cls - got)
            ck.ob("R5", "covers:%s/%s/%s" % (_short(p), nm, en.split("::")[-1]), not miss, dc["site"],
                  "%s is true for every *%s* variant of %s" % (nm, wd, en.split("::")[-1]) if not miss else
                  "%s is never set true for %s: that variant falls through to the opposite meaning" % (nm, miss))
    ck.floor("R5", "named destinations checked for class coverage", n5, 10)
    # ---------------- R6 bridging --------------------------------------------------------------------------
    n6 = 0
    for st in sites:
        f, s, p = st.f, st.s, st.p
        fn_w = words(_fn_name(p))
        if not fn_w:
            continue
        # values flowing to the return place that come from polarity-named fields / closure parameters
        for bi, t in f.calls(r"core::option::Option::<T>::unwrap_or$"):
            e = f.describe(t["args"][1], 10)
            par, leaf = _parity_and_leaf(e)
            lw = words(leaf or "")
            if lw and not any(x == fw or OPP.get(x) == fw for x in lw for fw in fn_w):
                # the fallback is named on another axis (polarity vs synchronicity vs edge) than the function
                n6 += 1
                ck.ob("R6", "bridge:%s<-%s" % (_short(p), leaf), False, site(s, t["l"]),
                      "%s falls back to %s, which is about %s, not %s: the two settings are independent" % (_fn_name(p), leaf, "/".join(sorted(lw)), "/".join(sorted(fn_w))))
            for fw in fn_w:
                for x in lw:
                    if x == fw or OPP.get(x) == fw:
                        n6 += 1
                        want = 0 if x == fw else 1
                        ck.ob("R6", "bridge:%s<-%s" % (_short(p), leaf), par % 2 == want, site(s, t["l"]),
                              "%s falls back to %s%s" % (_fn_name(p), "!" if par % 2 else "", leaf) if par % 2 == want else
                              "%s falls back to %s%s: the polarity is %s" % (_fn_name(p), "!" if par % 2 else "", leaf, "not inverted" if want else "inverted"))
    for p, s in sorted(w.fns.items()):
        # closures `|(active_low, _)| active_low` / `|(_, sync)| !sync` inside role-named functions
        if s.get("kind") != "closure" or not SCOPE_RX.search(p) or s.get("alias_of"):
            continue
        parent_w = words(_fn_name(re.sub(r"::\{closure#\d+\}.*$", "", p)))
        if not parent_w or s["nblocks"] > 4:
            continue
        f = Fn(w.mir(p))
        for bi, b in enumerate(f.blocks):
            for stmt in b["s"]:
                if stmt[0] == "=" and stmt[1] == [0, []] and f.ty(0) == "bool":
                    e = f.describe(["c", [0, []]], 8)
                    par, leaf = _parity_and_leaf(e)
                    # the leaf is a debug-named local bound to a tuple field
                    nm = None
                    if stmt[2][0] in ("use",) and stmt[2][1][0] != "k":
                        nm = _named_source(f, stmt[2][1][1][0])
                    elif stmt[2][0] == "un" and stmt[2][2][0] != "k":
                        nm = _named_source(f, stmt[2][2][1][0])
                        par = 1
                    else:
                        continue
                    if stmt[2][0] == "use":
                        par = 0
                    for fw in parent_w:
                        for x in words(nm or ""):
                            if x == fw or OPP.get(x) == fw:
                                n6 += 1
                                want = 0 if x == fw else 1
                                ck.ob("R6", "bridge:%s<-%s" % (_short(p), nm), par == want, site(s, stmt[3]),
                                      "%s yields %s%s" % (_short(p), "!" if par else "", nm) if par == want else
                                      "%s yields %s%s: wrong polarity for %s" % (_short(p), "!" if par else "", nm, fw))
    ck.floor("R6", "opposite/same-polarity bridges", n6, 4)
    # ---------------- R7 --------------------------------------------------------------------------------------
    P = "<veryl_emitter::emitter::Emitter as veryl_parser::veryl_walker::VerylWalker>::if_reset_statement"
    if P in w.fns:
        s = w.fns[P]
        f = Fn(w.mir(P))
        mf = MustFacts(f)
        from mirlib import Sem
        sem = Sem(f, 12)
        bangs = []
        for bi, t in f.calls(r"emitter::Emitter::str$"):
            r, pth = flow.access_path(f, t["args"][1])
            if r == ("const", "!"):
                bangs.append((bi, t))
        ck.ob("R7", "if_reset/emits-negation", len(bangs) == 1, site(s), "if_reset emits one \"!\" site (found %d)" % len(bangs))
        for bi, t in bangs:
            facts = sem.facts(mf.at_entry(bi))
            ok = any(x[0] == "flag" and x[2] is True and "reset_active_low" in repr(x[1]) for x in facts)
            ck.ob("R7", "if_reset/negation-iff-active-low", ok, site(s, t["l"]), "\"!\" is emitted only under self.reset_active_low")
            # and always under it: the branch on reset_active_low leads to the bang on its true edge
            sw = [b for b in range(f.n) if f.blocks[b]["t"]["t"] == "sw" and not f.blocks[b].get("cu") and
                  "reset_active_low" in repr(flow.access_path(f, f.blocks[b]["t"]["on"]))]
            ok2 = bool(sw) and all(not flow.escapes(f, f.blocks[b]["t"]["else"], [bi], feasible=False) or
                                   f.reaches(f.blocks[b]["t"]["else"], bi) for b in sw)
            ck.ob("R7", "if_reset/active-low-implies-negation", bool(sw) and all(_must_reach(f, f.blocks[b]["t"]["else"], bi, b) for b in sw), site(s, t["l"]),
                  "under self.reset_active_low the \"!\" is always emitted before the reset signal")
    else:
        ck.missing("R7", P)
    # abstract types fall back to the build options
    nfb = 0
    for st in sites:
        f, s, p = st.f, st.s, st.p
        if not p.startswith("veryl_emitter::") and not p.startswith("<veryl_emitter::"):
            continue
        for bi, b in enumerate(f.blocks):
            if b.get("cu"):
                continue
            F = st.mf.at_entry(bi)
            if F is None:
                continue
            abstract = None
            for a in F:
                if a[0] == "variant" and a[2] in ("Reset", "Clock") and (st.enum_of.get(a[1]) or "").endswith("TypeKind"):
                    abstract = a[2]
            if not abstract:
                continue
            for stmt in b["s"]:
                if stmt[0] == "=" and stmt[2][0] == "agg" and isinstance(stmt[2][1], dict) and not stmt[2][2] and \
                        re.search(r"build::(ResetType|ClockType)$", stmt[2][1].get("adt") or ""):
                    nfb += 1
                    ck.ob("R7", "abstract-%s-uses-build-option:%s" % (abstract.lower(), _short(p)), False, site(s, stmt[3]),
                          "the abstract %s type is hard-wired to %s instead of following the [build] option" % (abstract.lower(), stmt[2][1].get("variant")))
                if stmt[0] == "=" and stmt[2][0] == "use" and stmt[2][1][0] != "k":
                    ty = f.ty(stmt[1][0]) if not stmt[1][1] else ""
                    if ty.endswith("ResetType") or ty.endswith("ClockType"):
                        r, pth = flow.access_path(f, stmt[2][1])
                        flds = [x for x in pth if isinstance(x, str)]
                        if not flds:
                            continue
                        nfb += 1
                        want = "reset_type" if abstract == "Reset" else "clock_type"
                        ck.ob("R7", "abstract-%s-uses-build-option:%s" % (abstract.lower(), _short(p)), flds[-1].endswith(want), site(s, stmt[3]),
                              "the abstract %s type falls back to build.%s (found %s)" % (abstract.lower(), want, ".".join(flds)))
        # the same through an or-pattern (`TypeKind::Clock | TypeKind::ClockPosedge => ClockType::PosEdge`): no single-variant fact holds
        # in the shared arm, so follow the abstract variant's own switch edge
        for bi, b in enumerate(f.blocks):
            t = b["t"]
            if b.get("cu") or t["t"] != "sw" or not (t.get("enum") or "").endswith("TypeKind"):
                continue
            for v, tgt, vn in t["vals"]:
                if vn not in ("Reset", "Clock"):
                    continue
                cur, seen = tgt, set()
                while cur is not None and cur not in seen and len(seen) < 8:
                    seen.add(cur)
                    for stmt in f.blocks[cur]["s"]:
                        if stmt[0] == "=" and stmt[2][0] == "agg" and isinstance(stmt[2][1], dict) and not stmt[2][2] and \
                                re.search(r"build::(ResetType|ClockType)$", stmt[2][1].get("adt") or ""):
                            nfb += 1
                            ck.ob("R7", "abstract-%s-uses-build-option:%s" % (vn.lower(), _short(p)), False, site(s, stmt[3]),
                                  "the abstract %s type is hard-wired to %s instead of following the [build] option" % (vn.lower(), stmt[2][1].get("variant")))
                    sc = [x for x in f.succ[cur] if not f.blocks[x].get("cu")]
                    cur = sc[0] if len(sc) == 1 else None
    ck.floor("R7", "abstract reset/clock fallbacks in the emitter", nfb, 4)
    ck.analysed = {"functions": [st.p for st in sites], "events": dict(n_events)}
    return ck.finish(info)


def _named_source(f, local):
    """debug name of the local a temporary is a copy of"""
    for _ in range(6):
        if f.name(local):
            return f.name(local)
        d = f.def_of(local)
        if not d or d[0] != "s":
            return None
        rv = f.rvalue_at(d)
        if rv[0] == "use" and rv[1][0] != "k" and not rv[1][1][1]:
            local = rv[1][1][0]
        else:
            return None
    return None


def tuple_position_roles(w):
    """{index: set(names)} for (bool, bool) tuples destructured by closures / functions in scope: |(active_low, _)| ..."""
    roles = defaultdict(set)
    for p, s in w.fns.items():
        if s.get("alias_of") or not SCOPE_RX.search(p) or s["nblocks"] > 6:
            continue
        raw = w.mir_raw(p)
        if b"(bool, bool)" not in raw:
            continue
        f = Fn(w.mir(p))
        for b in f.blocks:
            for st in b["s"]:
                if st[0] == "=" and st[2][0] == "use" and st[2][1][0] != "k" and not st[1][1] and f.name(st[1][0]):
                    pl = st[2][1][1]
                    if f.ty(pl[0]) == "(bool, bool)" and len(pl[1]) == 1 and isinstance(pl[1][0], list) and pl[1][0][0] == "f":
                        roles[int(pl[1][0][2])].add(f.name(st[1][0]))
    return roles


def _must_reach(f, start, target, sw_bb):
    # every path from `start` to a return passes `target`
    return not flow.escapes(f, start, [target])


def _ops(rv):
    k = rv[0]
    if k in ("use", "rep"):
        return [rv[1]]
    if k == "cast":
        return [rv[2]]
    if k in ("ref", "ptr"):
        return [["c", rv[2]]]
    if k == "bin":
        return [rv[2], rv[3]]
    if k == "un":
        return [rv[2]]
    if k == "agg":
        return list(rv[2])
    return []


def _parity_and_leaf(e, par=0):
    if e is None:
        return par, None
    k = e[0]
    if k == "un" and e[1] == "Not":
        return _parity_and_leaf(e[2], par + 1)
    if k == "call" and re.search(r"ops::bit::Not>::not$", e[1] or "") and e[2]:
        return _parity_and_leaf(e[2][0], par + 1)
    if k == "proj":
        names = [p[1] for p in e[2] if p[0] == "f"]
        return par, (names[-1] if names else None)
    if k == "arg":
        return par, e[2]
    return par, None


def _short(p):
    q = re.sub(r"<(\w+::)+(\w+) as (\w+::)+(\w+)>::", r"\2::", p)
    return "::".join(q.split("::")[-2:])


def _fn_name(p):
    q = re.sub(r"::\{closure#\d+\}.*$", "", p)
    return q.split("::")[-1]


def _cons_txt(cons):
    return " & ".join("{%s}" % ",".join(sorted(v)) for k, v in sorted(cons.items(), key=lambda x: str(x[0])))


def _cons_key(cons):
    return "+".join("|".join(sorted(v)) for k, v in sorted(cons.items(), key=lambda x: sorted(x[1])))
