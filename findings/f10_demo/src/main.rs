//! F10 demonstration: the language server re-analyses a buffer with drop_file -> parse -> pass1 -> post_pass1 -> pass2 ->
//! post_pass2 (Server::on_change). After an edit that deletes a `///` doc comment, the diagnostics must be those of the
//! current buffer. The doc comment of the first version carries a broken ```wavedrom block, which check_wavedrom reports;
//! the second version has no doc comment at all. Exit 1 if the second analysis still reports the wavedrom error.
use veryl_analyzer::{Analyzer, Context, ir::Ir};
use veryl_metadata::Metadata;
use veryl_parser::{Parser, resource_table};

fn analyse(metadata: &Metadata, text: &str, path: &std::path::Path) -> Vec<String> {
    // the sequence of veryl_ls::Server::on_change
    if let Some(path_id) = resource_table::get_path_id(path.to_path_buf()) {
        Analyzer::drop_file(path_id, Some("prj".into()));
    }
    let x = Parser::parse(text, &path).unwrap();
    let analyzer = Analyzer::new(metadata);
    let mut context = Context::default();
    let mut ir = Ir::default();
    let mut errors = analyzer.analyze_pass1("prj", &x.veryl);
    errors.append(&mut Analyzer::analyze_post_pass1());
    errors.append(&mut analyzer.analyze_pass2(&x.veryl, &mut context, Some(&mut ir)));
    errors.append(&mut Analyzer::analyze_post_pass2(&ir));
    errors.iter().map(|e| format!("{e}")).collect()
}

fn main() {
    let metadata = Metadata::create_default("prj").unwrap();
    let path = std::path::PathBuf::from("/f10/src/a.veryl");
    let v1 = "/// ```wavedrom\n/// { this is not json\n/// ```\nmodule A (\n    i: input logic,\n    o: output logic,\n) {\n    assign o = i;\n}\n";
    let v2 = "\n\n\nmodule A (\n    i: input logic,\n    o: output logic,\n) {\n    assign o = i;\n}\n";
    let d1 = analyse(&metadata, v1, &path);
    println!("version 1 (doc comment with a broken wavedrom block): {} diagnostic(s) {:?}", d1.len(), d1);
    let d2 = analyse(&metadata, v2, &path);
    println!("version 2 (doc comment deleted):                      {} diagnostic(s) {:?}", d2.len(), d2);
    if d1.is_empty() {
        println!("setup problem: version 1 was expected to report the wavedrom block");
        std::process::exit(2);
    }
    std::process::exit(if d2.is_empty() { 0 } else { 1 });
}
