#!/bin/sh
# F16 (C04, C05): output staleness is decided by comparing the source's mtime with the time the output was generated.
# `veryl check` stores the new source hash without emitting. If the changed source carries an mtime older than the last
# build (cp -p, rsync -t, tar x, git stash pop with preserved times), the following `veryl build` sees hash == cached
# and mtime < generated, restores the file and keeps the output of the OLD source.
# exit 1 = defect present (build after check differs from a clean build), exit 0 = identical.
VERYL=${VERYL:-/repo/target/debug/veryl}
D=$(mktemp -d /var/tmp/f16.XXXXXX); trap 'rm -rf $D' EXIT
export XDG_CACHE_HOME=$D/xdg HOME=$D/home; mkdir -p $D/home $D/p/src
cat > $D/p/Veryl.toml <<T
[project]
name = "prj"
version = "0.1.0"
[build]
sources = ["src"]
target = {type = "directory", path = "target"}
sourcemap_target = {type = "none"}
exclude_std = true
incremental = true
T
printf 'module Top (o: output logic<8>) {\n    assign o = 1;\n}\n' > $D/p/src/top.veryl
printf 'module Top (o: output logic<8>) {\n    assign o = 2;\n}\n' > $D/new.veryl
touch -d '2001-01-01 00:00:00' $D/new.veryl
cd $D/p
$VERYL build > $D/log.1 2>&1 || { echo "setup: first build failed"; cat $D/log.1; exit 2; }
cp -p $D/new.veryl src/top.veryl            # new content, old mtime
$VERYL check > $D/log.2 2>&1 || { echo "setup: check failed"; cat $D/log.2; exit 2; }
$VERYL build > $D/log.3 2>&1 || { echo "build failed"; cat $D/log.3; exit 1; }
cp target/top.sv $D/got.sv
rm -rf .build target prj.f
$VERYL build > $D/log.4 2>&1 || { echo "clean build failed"; exit 2; }
if cmp -s $D/got.sv target/top.sv; then echo "build after check: identical to a clean build"; exit 0; fi
echo "build after check kept the old output:"; diff $D/got.sv target/top.sv | head -5
exit 1
