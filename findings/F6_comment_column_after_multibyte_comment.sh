#!/bin/sh
# F6 (C12, C13): split_comment_token advanced a comment's column by the BYTE length of the preceding comment text and
# set pos to a relative end offset. Visible from the command line through the source map: for
#   /* ééé */ /* b */ module A {
# the entry named "/* b */" must point at source column 11 (characters); the defective build says 14.
# (findings/f6_demo is a program that checks line/column/pos/length of every comment token through the parser API.)
# exit 1 = defect present, exit 0 = the entry points at the comment.
VERYL=${VERYL:-/repo/target/debug/veryl}
D=$(mktemp -d /var/tmp/f6.XXXXXX); trap 'rm -rf $D' EXIT
export XDG_CACHE_HOME=$D/xdg HOME=$D/home; mkdir -p $D/home $D/p/src
cat > $D/p/Veryl.toml <<T
[project]
name = "prj"
version = "0.1.0"
[build]
sources = ["src"]
target = {type = "directory", path = "target"}
sourcemap_target = {type = "directory", path = "maps"}
exclude_std = true
T
printf '/* \303\251\303\251\303\251 */ /* b */ module A {\n}\n' > $D/p/src/a.veryl
cd $D/p && $VERYL build > $D/log 2>&1 || { echo "setup: build failed"; cat $D/log; exit 2; }
python3 - <<'PY'
import json, glob, sys
B = 'ABCDEFGHIJKLMNOPQRSTUVWXYZabcdefghijklmnopqrstuvwxyz0123456789+/'
def vlq(seg):
    out = []; shift = 0; val = 0
    for ch in seg:
        d = B.index(ch); cont = d & 32; d &= 31; val += d << shift; shift += 5
        if not cont:
            out.append(-(val >> 1) if val & 1 else val >> 1); shift = 0; val = 0
    return out
m = json.load(open(glob.glob('maps/*.map')[0]))
names = m.get('names', [])
sl = sc = ni = 0
found = None
for gl, line in enumerate(m['mappings'].split(';')):
    gc = 0
    for seg in line.split(','):
        if not seg:
            continue
        v = vlq(seg); gc += v[0]
        if len(v) >= 4:
            sl += v[2]; sc += v[3]
            if len(v) >= 5:
                ni += v[4]
                if names[ni] == '/* b */':
                    found = (sl + 1, sc + 1)
print("source-map entry for '/* b */' points at source line %s column %s (the comment starts at 1:11)" % (found or ('?', '?')))
sys.exit(0 if found == (1, 11) else 1)
PY
