#!/bin/sh
# F3 (C25): Metadata::paths assigns the same output path to two different source files.
#  case A (directory target, two source dirs): srcA/m.veryl and srcB/m.veryl both map to target/m.sv; the second
#          overwrites the first and the filelist names target/m.sv twice.
#  case B (bundle target): x/m.veryl and y/m.veryl both map to target/m.sv via file_name(); one module is lost from
#          the bundle and the other appears twice.
# exit 1 = defect present (a collision went unreported), exit 0 = no collision (distinct outputs or an error).
VERYL=${VERYL:-/repo/target/debug/veryl}
D=$(mktemp -d /var/tmp/f3.XXXXXX); trap 'rm -rf $D' EXIT
export XDG_CACHE_HOME=$D/xdg HOME=$D/home; mkdir -p $D/home
bad=0
# ---- case A
mkdir -p $D/a/srcA $D/a/srcB
cat > $D/a/Veryl.toml <<T
[project]
name = "prj"
version = "0.1.0"
[build]
sources = ["srcA", "srcB"]
target = {type = "directory", path = "target"}
exclude_std = true
T
printf 'module ModA (i: input logic, o: output logic) {\n    assign o = i;\n}\n' > $D/a/srcA/m.veryl
printf 'module ModB (i: input logic, o: output logic) {\n    assign o = ~i;\n}\n' > $D/a/srcB/m.veryl
( cd $D/a && $VERYL build > $D/a.log 2>&1 ); rc=$?
if [ $rc -eq 0 ]; then
  n=$(ls $D/a/target/*.sv 2>/dev/null | wc -l)
  dup=$(sort $D/a/prj.f | uniq -d | wc -l)
  has_a=$(grep -l "module prj_ModA" $D/a/target/*.sv 2>/dev/null | wc -l)
  has_b=$(grep -l "module prj_ModB" $D/a/target/*.sv 2>/dev/null | wc -l)
  echo "case A: build ok, $n output file(s), ModA emitted: $has_a, ModB emitted: $has_b, duplicate filelist lines: $dup"
  if [ "$has_a" -eq 0 ] || [ "$has_b" -eq 0 ] || [ "$dup" -gt 0 ]; then bad=1; fi
else
  echo "case A: build refused (rc=$rc)"; head -5 $D/a.log
fi
# ---- case B
mkdir -p $D/b/src/x $D/b/src/y
cat > $D/b/Veryl.toml <<T
[project]
name = "prj"
version = "0.1.0"
[build]
sources = ["src"]
target = {type = "bundle", path = "all.sv"}
exclude_std = true
T
printf 'module ModX (i: input logic, o: output logic) {\n    assign o = i;\n}\n' > $D/b/src/x/m.veryl
printf 'module ModY (i: input logic, o: output logic) {\n    assign o = ~i;\n}\n' > $D/b/src/y/m.veryl
( cd $D/b && $VERYL build > $D/b.log 2>&1 ); rc=$?
if [ $rc -eq 0 ]; then
  cx=$(grep -c "^module prj_ModX" $D/b/all.sv); cy=$(grep -c "^module prj_ModY" $D/b/all.sv)
  echo "case B: build ok, bundle has ModX x$cx, ModY x$cy"
  if [ "$cx" -ne 1 ] || [ "$cy" -ne 1 ]; then bad=1; fi
else
  echo "case B: build refused (rc=$rc)"; head -5 $D/b.log
fi
# ---- case C (source target redirected with --out-dir, two source dirs)
mkdir -p $D/c/srcA $D/c/srcB
cat > $D/c/Veryl.toml <<T
[project]
name = "prj"
version = "0.1.0"
[build]
sources = ["srcA", "srcB"]
exclude_std = true
T
printf 'module ModA (i: input logic, o: output logic) {\n    assign o = i;\n}\n' > $D/c/srcA/m.veryl
printf 'module ModB (i: input logic, o: output logic) {\n    assign o = ~i;\n}\n' > $D/c/srcB/m.veryl
( cd $D/c && $VERYL build --out-dir $D/c/out > $D/c.log 2>&1 ); rc=$?
if [ $rc -eq 0 ]; then
  has_a=$(grep -rl "module prj_ModA" $D/c/out 2>/dev/null | wc -l)
  has_b=$(grep -rl "module prj_ModB" $D/c/out 2>/dev/null | wc -l)
  echo "case C: build ok, ModA emitted: $has_a, ModB emitted: $has_b"
  if [ "$has_a" -eq 0 ] || [ "$has_b" -eq 0 ]; then bad=1; fi
else
  echo "case C: build refused (rc=$rc)"; head -5 $D/c.log
fi
# ---- case D (source maps in a directory, directory target, two source dirs): one .sv.map for two sources
mkdir -p $D/d/srcA $D/d/srcB
cat > $D/d/Veryl.toml <<T
[project]
name = "prj"
version = "0.1.0"
[build]
sources = ["srcA", "srcB"]
target = {type = "directory", path = "target"}
sourcemap_target = {type = "directory", path = "maps"}
exclude_std = true
T
printf 'module ModA (i: input logic, o: output logic) {\n    assign o = i;\n}\n' > $D/d/srcA/m.veryl
printf 'module ModB (i: input logic, o: output logic) {\n    assign o = ~i;\n}\n' > $D/d/srcB/m.veryl
( cd $D/d && $VERYL build > $D/d.log 2>&1 ); rc=$?
if [ $rc -eq 0 ]; then
  nm=$(find $D/d/maps -name '*.sv.map' 2>/dev/null | wc -l)
  echo "case D: build ok, $nm source map file(s) for 2 source files"
  if [ "$nm" -lt 2 ]; then bad=1; fi
else
  echo "case D: build refused (rc=$rc)"; head -5 $D/d.log
fi
exit $bad
