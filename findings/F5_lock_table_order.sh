#!/bin/sh
# F5 (C24): Lockfile::paths returned dependency sources in HashMap (RandomState) iteration order; that order is
# the file processing order and breaks ties in the filelist. Same project built N times must give one filelist.
# exit 1 = defect present (several distinct filelists), exit 0 = one filelist.
VERYL=${VERYL:-/repo/target/debug/veryl}
N=${N:-8}
D=$(mktemp -d /var/tmp/f5.XXXXXX); trap 'rm -rf $D' EXIT
export XDG_CACHE_HOME=$D/xdg HOME=$D/home; mkdir -p $D/home
for d in depa depb depc depd; do
  mkdir -p $D/$d/src
  cat > $D/$d/Veryl.toml <<T
[project]
name = "$d"
version = "0.1.0"
[build]
sources = ["src"]
T
  cat > $D/$d/src/m.veryl <<T
pub module Mod_$d (
    i_d: input  logic,
    o_d: output logic,
) {
    assign o_d = i_d;
}
T
done
mkdir -p $D/root/src
cat > $D/root/Veryl.toml <<T
[project]
name = "root"
version = "0.1.0"
[build]
sources = ["src"]
[dependencies]
depa = {path = "../depa"}
depb = {path = "../depb"}
depc = {path = "../depc"}
depd = {path = "../depd"}
T
cat > $D/root/src/top.veryl <<T
module Top (
    i_d: input  logic,
    o_d: output logic,
) {
    var a: logic; var b: logic; var c: logic;
    inst ua: depa::Mod_depa (i_d     , o_d: a  );
    inst ub: depb::Mod_depb (i_d: a  , o_d: b  );
    inst uc: depc::Mod_depc (i_d: b  , o_d: c  );
    inst ud: depd::Mod_depd (i_d: c  , o_d     );
}
T
cd $D/root
i=0
while [ $i -lt $N ]; do
  $VERYL build > $D/log.$i 2>&1 || { echo "build failed"; cat $D/log.$i | tail -5; exit 2; }
  sed "s|$D||g" root.f > $D/filelist.$i
  i=$((i+1))
done
K=$(cat $D/filelist.* | awk 'BEGIN{RS="\0"}{print}' >/dev/null; for f in $D/filelist.*; do md5sum < $f; done | sort -u | wc -l)
if [ "$K" -eq 1 ]; then echo "F5 not present: $N builds of an unchanged project gave one filelist"; exit 0; fi
echo "F5 PRESENT: $N builds of an unchanged project gave $K different filelists, e.g.:"; diff $D/filelist.0 $D/filelist.1 | head -6
for f in $D/filelist.*; do if ! cmp -s $f $D/filelist.0; then diff $D/filelist.0 $f | head -6; break; fi; done
exit 1
