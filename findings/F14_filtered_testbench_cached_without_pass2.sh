#!/bin/sh
# F14 (C04): `veryl test --test <filter>` skips pass2 for testbench files whose tests do not match, but their pass1
# fragment was still stored, without diagnostics; a later `veryl check` restores them and never runs their pass2.
# exit 1 = defect present (check after the filtered test run disagrees with a fresh-cache check), exit 0 = they agree.
VERYL=${VERYL:-/repo/target/debug/veryl}
D=$(mktemp -d /var/tmp/f14.XXXXXX); trap 'rm -rf $D' EXIT
export XDG_CACHE_HOME=$D/xdg HOME=$D/home; mkdir -p $D/home $D/p/src
cat > $D/p/Veryl.toml <<T
[project]
name = "prj"
version = "0.1.0"
[build]
sources = ["src"]
target = {type = "directory", path = "target"}
sourcemap_target = {type = "none"}
exclude_std = true
incremental = true
T
cat > $D/p/src/test_a.veryl <<T
#[test(test_a)]
module test_a {
    initial {
        \$finish();
    }
}
T
cat > $D/p/src/test_b.veryl <<T
#[test(test_b)]
module test_b {
    let _a: logic[2] = 1;
    initial {
        \$finish();
    }
}
T
cd $D/p
$VERYL test --test test_a > $D/log.0 2>&1
$VERYL check > $D/log.1 2>&1; inc=$?
rm -rf .build/cache
$VERYL check > $D/log.2 2>&1; fresh=$?
echo "check after 'veryl test --test test_a': exit=$inc; fresh-cache check: exit=$fresh"
[ "$inc" = "$fresh" ] && exit 0
exit 1
