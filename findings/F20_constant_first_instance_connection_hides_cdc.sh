#!/bin/sh
# F20 (C16): in an instance's port connections the first expression connected to a callee clock domain became that domain's
# representative even when it was a constant (clock domain None). ClockDomain::None is compatible with everything, so every later
# connection was accepted: with `i_en: 1'b1` listed first, `i_dat: <signal of 'b>` and `o_dat: <signal of 'a>` on the same callee
# domain passed `veryl check`; listing the clock first reported the crossing.
# (observed by a seeding sub-agent on the unmodified tree, then confirmed here)
# exit 1 = defect present (no mismatch_clock_domain for ModuleTop2), exit 0 = reported.
VERYL=${VERYL:-/repo/target/debug/veryl}
D=$(mktemp -d /var/tmp/f20.XXXXXX); trap 'rm -rf $D' EXIT
export XDG_CACHE_HOME=$D/xdg HOME=$D/home; mkdir -p $D/home $D/p/src
cat > $D/p/Veryl.toml <<T
[project]
name = "prj"
version = "0.1.0"
[build]
exclude_std = true
T
cat > $D/p/src/a.veryl <<T
module ModuleD (
    i_clk: input  clock,
    i_en : input  logic,
    i_dat: input  logic,
    o_dat: output logic,
) {
    assign o_dat = i_dat & i_en;
}
module ModuleTop2 (
    i_clk_a: input  'a clock,
    i_clk_b: input  'b clock,
    i_dat1 : input  'b logic,
    o_dat  : output 'a logic,
) {
    inst u: ModuleD (
        i_en : 1'b1   ,
        i_dat: i_dat1 ,
        o_dat: o_dat  ,
        i_clk: i_clk_a,
    );
}
T
cd $D/p && $VERYL check > $D/log 2>&1
if grep -q mismatch_clock_domain $D/log; then echo "crossing 'b -> 'a through instance u is reported"; exit 0; fi
echo "veryl check accepted ModuleTop2: i_dat1 ('b) and o_dat ('a) are connected to one callee domain and no mismatch_clock_domain is reported"; exit 1
