#!/bin/bash
# Genuine order dependences observed on the UNMODIFIED tree (clean HEAD) while
# looking for places to seed C24 changes.  Not part of the seeded changes.
# usage: VERYL=/tmp/wt-C24/out/veryl.base ./repro.sh
VERYL=${VERYL:-/tmp/wt-C24/out/veryl.base}
W=${WORK:-/tmp/wt-C24/out/baseline-findings/work}
export NO_COLOR=1
toml() { printf '[project]\nname = "%s"\nversion = "0.1.0"\n\n[build]\nsources = ["src"]\ntarget = {type = "directory", path = "target"}\nexclude_std = true\n' "$1"; }
fresh() { rm -rf "$W/$1"; mkdir -p "$W/$1/src"; toml "$1" > "$W/$1/Veryl.toml"; }
clean() { rm -rf target .build dependencies ./*.f; }

echo "### B1: cross-file enum member reference: builds or fails depending on file order"
fresh b1; cd "$W/b1"
cat > src/pa.veryl <<'V'
pub package PA {
    enum Kind: logic<3> {
        idle,
        busy,
        done,
    }
}
V
cat > src/pb.veryl <<'V'
pub package PB {
    enum Code: logic<4> {
        first = PA::Kind::busy as 4,
        second,
        third = 4'd9,
    }
}
V
for order in "src/pa.veryl src/pb.veryl" "src/pb.veryl src/pa.veryl"; do
    clean; echo "-- veryl check $order"; $VERYL check $order 2>&1 | grep -E "×|⚠" ; echo "   exit=${PIPESTATUS[0]}"
done

echo "### B2: inferred 'let' type is baked from the last elaboration (parameter override of another file)"
fresh b2; cd "$W/b2"
cat > src/child.veryl <<'V'
pub module Child #(
    param W: u32 = 4,
) (
    i: input  logic<W>,
    o: output logic<W>,
) {
    let t1 = i[W - 1:1];
    assign o = t1;
}
V
cat > src/top.veryl <<'V'
module Top (
    i: input  logic<8>,
    o: output logic<8>,
) {
    inst u: Child #( W: 8 ) (i, o);
}
V
for order in "src/top.veryl src/child.veryl" "src/child.veryl src/top.veryl"; do
    clean; $VERYL build $order >/dev/null 2>&1; echo "-- $order:"; grep -n " t1;" target/child.sv
done

echo "### B3: emission order of generic instances (and filelist tie order) follows the file order"
fresh b3; cd "$W/b3"
cat > src/gen.veryl <<'V'
pub module Gen::<W: u32> (
    o: output logic<W>,
) {
    assign o = 0;
}
V
for n in 3 5; do cat > src/m$n.veryl <<V
module M$n (
    o: output logic<$n>,
) {
    inst u: Gen::<$n> (o);
}
V
done
for order in "src/gen.veryl src/m3.veryl src/m5.veryl" "src/m5.veryl src/m3.veryl src/gen.veryl"; do
    clean; $VERYL build $order >/dev/null 2>&1; echo "-- $order:"; grep -n "^module" target/gen.sv; tr '\n' ' ' < b3.f; echo
done

echo "### B4: two files that each hold a top-level embed collide on 'embed@0'"
fresh b4; cd "$W/b4"
for n in a b; do printf 'embed (inline) sv{{{\n`define M_%s 1\n}}}\n' $n > src/e_$n.veryl; done
clean; $VERYL check 2>&1 | grep -E "×|⚠"

echo "### B5: inferred type through a modport member uses the interface's parameter name in the consumer module"
fresh b5; cd "$W/b5"
cat > src/bus_if.veryl <<'V'
pub interface BusIf #(
    param W: u32 = 8,
) {
    var data: logic<W>;
    modport sink {
        data: input,
    }
}
V
cat > src/sink.veryl <<'V'
pub module Sink (
    bus: modport BusIf::sink,
    o  : output  logic<8>   ,
) {
    let t = bus.data;
    assign o = t[7:0];
}
V
clean; $VERYL build >/dev/null 2>&1; grep -n " t;" target/sink.sv
