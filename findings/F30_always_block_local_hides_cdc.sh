#!/bin/sh
# F30 (C16): a `let` / `var` declared inside an always block is created with ClockDomain::None (create_symbol_table: only Module
# affiliation gets Implicit). None is compatible with every domain and check_assign_clock_domain inferred a domain for Implicit
# destinations only, so `always_ff (i_clk_b) { let tmp: logic = i_a; o_b = tmp; }` moved a value of 'a into 'b unreported, while the
# direct `o_c = i_a` and the same thing through a module-level `let` were reported.
# (observed by a seeding sub-agent on the unmodified tree, then confirmed here)
# exit 1 = defect present (fewer than 2 mismatch_clock_domain for module ML), exit 0 = both locals reported.
VERYL=${VERYL:-/repo/target/debug/veryl}
D=$(mktemp -d /var/tmp/f30.XXXXXX); trap 'rm -rf $D' EXIT
export XDG_CACHE_HOME=$D/xdg HOME=$D/home; mkdir -p $D/home $D/p/src
cat > $D/p/Veryl.toml <<T
[project]
name = "prj"
version = "0.1.0"
[build]
exclude_std = true
T
cat > $D/p/src/a.veryl <<T
module ML (
    i_clk_a: input  'a clock,
    i_clk_b: input  'b clock,
    i_a    : input  'a logic,
    o_b    : output 'b logic,
    o_c    : output 'b logic,
) {
    always_ff (i_clk_b) {
        let tmp: logic = i_a;
        o_b = tmp;
    }
    always_comb {
        let tmp: logic = i_a;
        o_c = tmp;
    }
}
T
cat > $D/p/src/ok.veryl <<T
module MOK (
    i_clk_a: input  'a clock,
    i_clk_b: input  'b clock,
    i_a    : input  'a logic,
    o_a    : output 'a logic,
    o_k    : output 'b logic,
    o_ff   : output 'a logic,
) {
    always_comb {
        let t2: logic = i_a;
        var t3: logic;
        t3 = t2 & 1'b1;
        o_a = t3;
    }
    always_comb {
        let k: logic = 1'b1;
        o_k = k;
    }
    always_ff (i_clk_a) {
        let f: logic = i_a;
        var c: logic;
        c = 1'b0;
        o_ff = f | c;
    }
}
T
cd $D/p
OUT=$($VERYL check 2>&1)
N=$(echo "$OUT" | grep -c "^Error: mismatch_clock_domain")
NOK=$(echo "$OUT" | grep -c "─\[.*ok.veryl")
echo "mismatch_clock_domain errors: $N (expected 2, one per block in a.veryl); diagnostics naming ok.veryl: $NOK (expected 0)"
[ "$N" = 2 ] && [ "$NOK" = 0 ]
