#!/usr/bin/env python3
"""Check property C13 on one emitted file.

usage: check_map.py <file.sv> <file.sv.map> [--src <file.veryl>]

Without --src the Veryl source is located the way a source-map consumer
does it: `sources[i]` resolved relative to the directory of the map file.

Checks, for every decoded entry:
  D  the .sv text at (dst_line, dst_col) starts with the entry's name
  S  (src_line, src_col) is inside the Veryl source and is the start of a
     token or comment (non-blank character; if it is an identifier character
     the character before it is not one)
  O  entries are ordered by output position
  L  every output line that contains a mapped identifier has an entry
Columns count characters.  Exit status 1 on any violation.
"""
import json
import os
import re
import sys

B64 = {c: i for i, c in enumerate(
    "ABCDEFGHIJKLMNOPQRSTUVWXYZabcdefghijklmnopqrstuvwxyz0123456789+/")}


def vlq(seg):
    out, shift, val = [], 0, 0
    for ch in seg:
        d = B64[ch]
        val |= (d & 31) << shift
        if d & 32:
            shift += 5
        else:
            out.append(-(val >> 1) if val & 1 else val >> 1)
            shift, val = 0, 0
    return out


def decode(mappings):
    ents = []
    src = sl = sc = nm = 0
    for dl, line in enumerate(mappings.split(";")):
        dc = 0
        for seg in filter(None, line.split(",")):
            f = vlq(seg)
            dc += f[0]
            name = None
            if len(f) >= 4:
                src += f[1]
                sl += f[2]
                sc += f[3]
            if len(f) >= 5:
                nm += f[4]
                name = nm
            ents.append((dl, dc, src if len(f) >= 4 else None, sl, sc, name))
    return ents


def lines_of(text):
    return [l[:-1] if l.endswith("\r") else l for l in text.split("\n")]


def offset_of(text, line, col):
    off = 0
    for _ in range(line):
        i = text.find("\n", off)
        if i < 0:
            return None
        off = i + 1
    return off + col


IDENT = re.compile(r"[A-Za-z_][A-Za-z0-9_$]*")
IDCH = re.compile(r"[A-Za-z0-9_$]")
KEYWORDS = set("""module endmodule interface endinterface package endpackage begin end
initial always_ff always_comb assign logic input output inout if else case endcase default
function endfunction return for generate endgenerate localparam parameter typedef enum struct
union packed import export modport var bit int posedge negedge inside signed unsigned""".split())


def main():
    args = sys.argv[1:]
    src_override = None
    if "--src" in args:
        i = args.index("--src")
        src_override = args[i + 1]
        del args[i:i + 2]
    sv_path, map_path = args
    sv = open(sv_path, newline="").read()
    m = json.load(open(map_path))
    names = m.get("names", [])
    sources = m.get("sources", [])
    ents = decode(m["mappings"])
    errs = []

    src_texts = {}
    for i, s in enumerate(sources):
        p = src_override or os.path.normpath(os.path.join(os.path.dirname(map_path), s))
        try:
            src_texts[i] = lines_of(open(p, newline="").read())
        except OSError as e:
            errs.append(f"S: source #{i} {s!r} of the map does not resolve to a readable file ({p}): {e}")

    sv_lines = lines_of(sv)
    covered = set()
    multiline_body = set()
    prev = None
    for (dl, dc, si, sl, sc, ni) in ents:
        name = names[ni] if ni is not None else None
        where = f"entry dst {dl + 1}:{dc + 1} -> src {sl + 1}:{sc + 1} name {name!r}"
        if prev is not None and (dl, dc) < prev:
            errs.append(f"O: out of order: {where}")
        prev = (dl, dc)
        covered.add(dl)
        if name is not None:
            off = offset_of(sv, dl, dc)
            # compare character-wise: the offset above is in characters of the line
            if off is None or dl >= len(sv_lines) or dc > len(sv_lines[dl]):
                errs.append(f"D: output position outside the file: {where}")
            else:
                want = name.replace("\r\n", "\n")
                got = sv[off:off + len(name) + name.count("\n")].replace("\r\n", "\n")
                if not got.startswith(want):
                    errs.append(f"D: output text {sv_lines[dl][dc:dc + 20]!r} does not start with the name: {where}")
            for k in range(1, name.count("\n") + 1):
                multiline_body.add(dl + k)
        if si is not None and si in src_texts and name != "":
            lines = src_texts[si]
            if sl >= len(lines) or sc >= len(lines[sl]):
                errs.append(f"S: source position outside the file: {where}")
            else:
                ch = lines[sl][sc]
                before = lines[sl][sc - 1] if sc > 0 else " "
                if ch.isspace():
                    errs.append(f"S: source position is blank, not a token/comment start: {where}")
                elif IDCH.match(ch) and IDCH.match(before):
                    errs.append(f"S: source position is in the middle of a word "
                                f"({lines[sl][max(0, sc - 8):sc + 8]!r}): {where}")

    mapped_idents = {n for n in names if IDENT.fullmatch(n)} - KEYWORDS
    for i, l in enumerate(sv_lines):
        if i in covered or i in multiline_body or l.lstrip().startswith("//"):
            continue
        hit = set(IDENT.findall(l)) & mapped_idents
        if hit:
            errs.append(f"L: output line {i + 1} contains mapped identifier(s) {sorted(hit)} but has no entry: {l!r}")

    for e in errs:
        print("VIOLATION " + e)
    print(f"{os.path.basename(sv_path)}: {len(ents)} entries, {len(errs)} violation(s)")
    sys.exit(1 if errs else 0)


if __name__ == "__main__":
    main()
