#!/bin/sh
# F28 (C23): `veryl migrate` removes the `: Type` annotation of a for-loop index by not walking those two children - and with the
# tokens it dropped the comments attached to them: `for i: /* c1 */ u32 /* idx */ in 0..2` came out as `for i in 0..2`, although the
# property keeps every comment.
# (observed by the C23 seeding sub-agent on the unmodified tree, confirmed here)
# exit 1 = comments lost, exit 0 = kept.
VERYL=${VERYL:-/repo/target/debug/veryl}
D=$(mktemp -d /var/tmp/f28.XXXXXX); trap 'rm -rf $D' EXIT
export XDG_CACHE_HOME=$D/xdg HOME=$D/home; mkdir -p $D/home $D/p/src
printf '[project]\nname = "prj"\nversion = "0.1.0"\n[build]\nexclude_std = true\n' > $D/p/Veryl.toml
printf 'module A {\n    always_comb {\n        for i: /* c1 */ u32 /* idx */ in 0..2 {\n        }\n    }\n}\n' > $D/p/src/a.veryl
cd $D/p && $VERYL migrate > $D/log 2>&1 || { echo "veryl migrate failed"; grep -v INFO $D/log | head; exit 2; }
sed -n 3p src/a.veryl
if grep -q "c1" src/a.veryl && grep -q "idx" src/a.veryl && ! grep -q "u32" src/a.veryl; then echo "type annotation removed, both comments kept"; exit 0; fi
echo "comments attached to the removed annotation were lost"; exit 1
