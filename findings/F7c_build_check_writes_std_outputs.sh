#!/bin/sh
# F7c (C27): in `veryl build --check`, outputs of the bundled standard library ($std) take the write branch: they are
# written into the project tree (dependencies/std/...) and never compared. With one std output deleted,
# `build --check` exits 0 (and recreates the file as a side effect) although `build` would have created that file.
# exit 1 = defect present, exit 0 = check mode reports the missing output (or leaves the tree untouched and fails).
VERYL=${VERYL:-/repo/target/debug/veryl}
D=$(mktemp -d /var/tmp/f7c.XXXXXX); trap 'rm -rf $D' EXIT
export XDG_CACHE_HOME=$D/xdg HOME=$D/home; mkdir -p $D/home $D/p/src
cat > $D/p/Veryl.toml <<T
[project]
name = "prj"
version = "0.1.0"
[build]
sources = ["src"]
target = {type = "directory", path = "target"}
sourcemap_target = {type = "none"}
T
printf 'module Top (i: input logic, o: output logic) {\n    assign o = i;\n}\n' > $D/p/src/top.veryl
cd $D/p
$VERYL build > $D/log.1 2>&1 || { echo "setup: build failed"; tail -5 $D/log.1; exit 2; }
f=$(find . -path '*std*' -name '*.sv' | sort | head -1)
[ -n "$f" ] || { echo "setup: no std output found"; find . -name '*.sv' | head; exit 2; }
rm "$f"
$VERYL build --check > $D/log.2 2>&1; rc=$?
if [ -e "$f" ]; then side="recreated by --check"; else side="still missing"; fi
echo "deleted $f; build --check exit=$rc; file $side"
if [ $rc -eq 0 ]; then exit 1; fi
exit 0
