#!/bin/sh
# F1 (C04): [format] options are read by the emitter but are not part of the incremental cache key.
# Demonstration against the built binary: exit 1 = defect present (stale output), exit 0 = not present.
VERYL=${VERYL:-/repo/target/debug/veryl}
D=$(mktemp -d /var/tmp/f1.XXXXXX); trap 'rm -rf $D' EXIT
export XDG_CACHE_HOME=$D/xdg HOME=$D/home; mkdir -p $D/prj/src $D/home
cat > $D/prj/Veryl.toml <<T
[project]
name = "f1"
version = "0.1.0"
[build]
incremental = true
sources = ["src"]
[format]
indent_width = 4
T
cat > $D/prj/src/a.veryl <<T
module ModuleA (
    i_clk: input clock,
    i_d  : input logic,
    o_d  : output logic,
) {
    always_ff (i_clk) {
        o_d = i_d;
    }
}
T
cd $D/prj && git init -q . 2>/dev/null
$VERYL build >/dev/null 2>&1 || { echo "build failed"; exit 2; }
cp src/a.sv $D/first.sv
sed -i 's/indent_width = 4/indent_width = 2/' Veryl.toml
sleep 1
$VERYL build > $D/log2 2>&1
cp src/a.sv $D/incremental.sv
rm -rf .build target src/a.sv src/a.sv.map dependencies
$VERYL build >/dev/null 2>&1
cp src/a.sv $D/clean.sv
if cmp -s $D/incremental.sv $D/clean.sv; then echo "F1 not present: incremental output equals clean output after changing [format] indent_width"; exit 0
else echo "F1 PRESENT: after changing [format] indent_width the incremental build kept the stale output:"; diff $D/incremental.sv $D/clean.sv | head -8; exit 1; fi
