#!/bin/sh
# F32 (C16): function_call merged the domains of the arguments into the function's result type, whose own clock domain was always
# None. A function body that reads a signal of the enclosing module (directly or through a local) laundered that signal's domain:
# `function h() -> logic { return i_a; }` with i_a in 'a and `assign o_b = h();` with o_b in 'b passed `veryl check`.
# (found while triaging the always-block local of F30)
# exit 1 = defect present (fewer than 3 mismatch_clock_domain in a.veryl or any diagnostic for ok.veryl), exit 0 = all reported.
VERYL=${VERYL:-/repo/target/debug/veryl}
D=$(mktemp -d /var/tmp/f32.XXXXXX); trap 'rm -rf $D' EXIT
export XDG_CACHE_HOME=$D/xdg HOME=$D/home; mkdir -p $D/home $D/p/src
printf '[project]\nname = "prj"\nversion = "0.1.0"\n[build]\nexclude_std = true\n' > $D/p/Veryl.toml
cat > $D/p/src/a.veryl <<T
module MF (
    i_clk_a: input  'a clock,
    i_clk_b: input  'b clock,
    i_a    : input  'a logic,
    i_b    : input  'b logic,
    o_c    : output 'b logic,
    o_d    : output 'b logic,
    o_e    : output 'b logic,
) {
    function h () -> logic {
        return i_a;
    }
    function h2 () -> logic {
        let t: logic = i_a;
        return t;
    }
    function k (
        x: input logic,
    ) -> logic {
        return x & i_a;
    }
    assign o_c = h();
    assign o_d = h2();
    assign o_e = k(i_b);
}
T
cat > $D/p/src/ok.veryl <<T
module MOK (
    i_clk_a: input  'a clock,
    i_clk_b: input  'b clock,
    i_a    : input  'a logic,
    i_b    : input  'b logic,
    o_a    : output 'a logic,
    o_a2   : output 'a logic,
    o_b    : output 'b logic,
    o_b2   : output 'b logic,
) {
    function f (
        a: input logic,
    ) -> logic {
        let t: logic = a;
        return t;
    }
    function h () -> logic {
        return i_a;
    }
    function k (
        x: input logic,
    ) -> logic {
        var t: logic;
        t = x & i_a;
        return t;
    }
    function c () -> logic {
        return 1'b1;
    }
    assign o_a  = f(i_a) | h();
    assign o_a2 = k(i_a);
    assign o_b  = f(i_b);
    assign o_b2 = c() & i_b;
}
T
cd $D/p
OUT=$($VERYL check 2>&1)
N=$(echo "$OUT" | grep -A3 "^Error: mismatch_clock_domain" | grep -c "─\[.*a.veryl:2[234]:")
NOK=$(echo "$OUT" | grep -c "─\[.*ok.veryl")
echo "crossings reported for the three assignments of a.veryl: $N (expected >= 3); diagnostics naming ok.veryl: $NOK (expected 0)"
[ "$N" -ge 3 ] && [ "$NOK" = 0 ]
