//! F6 demonstration: every comment token must report a (line, character column, byte offset, byte length) at which its
//! text actually appears in the source. Prints each comment and checks the four values against the text; exit 1 on a mismatch.
use veryl_parser::Parser;
use veryl_parser::token_collector::TokenCollector;
use veryl_parser::veryl_walker::VerylWalker;

fn main() {
    let src = "/* \u{e9}\u{e9}\u{e9} */ /* b */ module A {\n    /* x */ // y\n}\n";
    let parser = Parser::parse(src, &"f6.veryl").unwrap();
    let mut c = TokenCollector::new(true);
    c.veryl(&parser.veryl);
    let lines: Vec<&str> = src.split('\n').collect();
    let mut bad = 0;
    for t in &c.tokens {
        let text = t.to_string();
        if !(text.starts_with("//") || text.starts_with("/*")) {
            continue;
        }
        let by_pos = src.get(t.pos as usize..(t.pos + t.length) as usize);
        let line = lines.get(t.line as usize - 1).copied().unwrap_or("");
        let by_col: String = line.chars().skip(t.column as usize - 1).take(text.trim_end().chars().count()).collect();
        let ok_pos = by_pos == Some(text.as_str());
        let ok_col = by_col == text.trim_end();
        println!("{:?}: line {} column {} pos {} length {} -> at pos: {:?} ({}), at line/column: {:?} ({})",
            text, t.line, t.column, t.pos, t.length, by_pos, if ok_pos { "ok" } else { "WRONG" }, by_col, if ok_col { "ok" } else { "WRONG" });
        if !ok_pos || !ok_col {
            bad += 1;
        }
    }
    std::process::exit(if bad > 0 { 1 } else { 0 });
}
