#!/bin/sh
# F31 (C05, was note F9b): .build/cache/manifest.toml vouches for the fragments. An entry is written field by field
# (hash, fragment, dependents, tests, diagnostics); `tests` and `diagnostics` were optional on reading and were written last, so a
# manifest cut at a line boundary inside the last entry still parsed: the file was restored without its `diagnostics` blob and the
# pass2-only warning it carried was never reported again (every later build agrees with the damaged cache, not with a clean build).
# exit 1 = defect present (fewer warnings after the damage than from a fresh cache), exit 0 = same count.
VERYL=${VERYL:-/repo/target/debug/veryl}
D=$(mktemp -d /var/tmp/f31.XXXXXX); trap 'rm -rf $D' EXIT
export XDG_CACHE_HOME=$D/xdg HOME=$D/home; mkdir -p $D/home $D/p/src
cat > $D/p/Veryl.toml <<T
[project]
name = "prj"
version = "0.1.0"
[build]
sources = ["src"]
target = {type = "directory", path = "target"}
sourcemap_target = {type = "none"}
exclude_std = true
incremental = true
T
cat > $D/p/src/w.veryl <<T
module Warn {
    let unused_var: logic = 1;
    let _a: logic[2] = 1;
}
T
cd $D/p
$VERYL check > $D/log.0 2>&1; n0=$(grep -c '⚠' $D/log.0)
$VERYL check > $D/log.1 2>&1; n1=$(grep -c '⚠' $D/log.1)
M=.build/cache/manifest.toml
L=$(wc -l < $M)
bad=0
# cut the manifest after every line boundary inside the (single, last) entry
k=$((L - 1))
while [ $k -ge $((L - 4)) ]; do
  cp $M $D/manifest.full
  head -n $k $D/manifest.full > $M
  $VERYL check > $D/log.c 2>&1; nc=$(grep -c '⚠' $D/log.c)
  $VERYL check > $D/log.d 2>&1; nd=$(grep -c '⚠' $D/log.d)
  echo "manifest cut to $k of $L lines: $nc then $nd warning(s) (fresh cache: $n0, warm: $n1)"
  [ "$nc" = "$n0" ] && [ "$nd" = "$n0" ] || bad=1
  $VERYL check > /dev/null 2>&1
  k=$((k - 1))
done
exit $bad
