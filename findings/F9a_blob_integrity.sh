#!/bin/sh
# F9a (C05): Store::read_blob returns a blob whose bytes no longer match its content address.
# One byte of a cached fragment's string dictionary is changed (still a valid postcard stream);
# the next incremental build must behave like a clean build. exit 1 = defect present.
VERYL=${VERYL:-/repo/target/debug/veryl}
D=$(mktemp -d /var/tmp/f9.XXXXXX); trap 'rm -rf $D' EXIT
export XDG_CACHE_HOME=$D/xdg HOME=$D/home; mkdir -p $D/prj/src $D/home
cat > $D/prj/Veryl.toml <<T
[project]
name = "f9"
version = "0.1.0"
[build]
incremental = true
sources = ["src"]
T
cat > $D/prj/src/a.veryl <<T
module ModuleAlpha (
    i_d: input  logic,
    o_d: output logic,
) {
    assign o_d = i_d;
}
T
cat > $D/prj/src/b.veryl <<T
module ModuleBeta (
    i_d: input  logic,
    o_d: output logic,
) {
    inst u: ModuleAlpha (i_d, o_d);
}
T
cd $D/prj
$VERYL build >/dev/null 2>&1 || { echo "first build failed"; exit 2; }
python3 - <<P
import glob,sys
hit=0
for f in glob.glob('.build/cache/fragments/*/*.frag'):
    b=bytearray(open(f,'rb').read())
    idx=[i for i in range(len(b)) if b[i:i+11]==b'ModuleAlpha']
    if len(idx)>=1 and b'ModuleBeta' not in b:
        i=idx[-1]+10
        b[i]=ord('b')   # ModuleAlpha -> ModuleAlphb in the last occurrence (string dictionary)
        open(f,'wb').write(bytes(b)); hit+=1
print("damaged",hit,"fragment(s)")
sys.exit(0 if hit else 3)
P
[ $? -eq 0 ] || { echo "could not find the fragment to damage"; exit 2; }
sleep 1
echo "// touched" >> src/b.veryl
$VERYL build > $D/inc.log 2>&1; ri=$?
rm -rf .build; find . -name '*.sv' -delete; find . -name '*.map' -delete
$VERYL build > $D/clean.log 2>&1; rc=$?
if [ $rc -ne 0 ]; then echo "clean build failed?"; cat $D/clean.log | head; exit 2; fi
if [ $ri -ne 0 ]; then echo "F9a PRESENT: a damaged fragment blob was trusted; incremental build failed where a clean build succeeds:"; grep -m3 -i "error\|undefined" $D/inc.log; exit 1; fi
echo "F9a not present: damaged blob treated as a miss"; exit 0
