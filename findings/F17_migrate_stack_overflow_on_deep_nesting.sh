#!/bin/sh
# F17 (C10, C23): the migrator's generated parser (previous grammar) had no cap on the LL(k) production stack, unlike
# veryl-parser. `veryl migrate` falls back to it whenever the current parser rejects a file - for instance because of
# the current parser's own depth cap - and a deeply nested expression then overflows the native stack (SIGABRT).
# exit 1 = defect present (migrate dies on a signal), exit 0 = migrate ends with a diagnostic or success.
VERYL=${VERYL:-/repo/target/debug/veryl}
D=$(mktemp -d /var/tmp/f17.XXXXXX); trap 'rm -rf $D' EXIT
export XDG_CACHE_HOME=$D/xdg HOME=$D/home; mkdir -p $D/home $D/p/src
cat > $D/p/Veryl.toml <<T
[project]
name = "prj"
version = "0.1.0"
[build]
sources = ["src"]
T
python3 -c "
n=200000
open('$D/p/src/a.veryl','w').write('module A {\n    let a: logic = ' + '('*n + '1' + ')'*n + ';\n}\n')"
cd $D/p
$VERYL migrate > $D/log 2>&1; rc=$?
echo "veryl migrate on 200000 nested parentheses: exit $rc"; tail -2 $D/log
if [ $rc -ge 128 ]; then exit 1; fi
exit 0
