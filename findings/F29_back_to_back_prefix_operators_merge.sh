#!/bin/sh
# F29 (C09, also C01): Formatter::expression02 and Emitter::expression02 wrote the prefix operators of an operand back to back.
# `assign x = & &a;` was formatted to `&&a` - which the parser rejects, so `veryl fmt` left an unparsable file - and emitted as
# `always_comb x = &&a;`, which is not SystemVerilog; `~ ^a` became the single token `~^`.
# (observed by the C09 seeding sub-agent on the unmodified tree, confirmed here)
# exit 1 = operators merged, exit 0 = kept apart.
VERYL=${VERYL:-/repo/target/debug/veryl}
D=$(mktemp -d /var/tmp/f29.XXXXXX); trap 'rm -rf $D' EXIT
export XDG_CACHE_HOME=$D/xdg HOME=$D/home; mkdir -p $D/home $D/p/src
printf '[project]\nname = "prj"\nversion = "0.1.0"\n[build]\nexclude_std = true\n' > $D/p/Veryl.toml
printf 'module A (\n    a: input logic<4>,\n    x: output logic,\n    y: output logic,\n) {\n    assign x = & &a;\n    assign y = ~ ^a;\n}\n' > $D/p/src/a.veryl
cd $D/p && $VERYL build > $D/logb 2>&1; grep "always_comb" src/a.sv
$VERYL fmt > $D/log 2>&1; sed -n 6,7p src/a.veryl
rc=0
grep -q "&&a" src/a.sv && { echo "emitted SystemVerilog contains &&a"; rc=1; }
grep -q "&&a" src/a.veryl && { echo "veryl fmt wrote &&a"; rc=1; }
$VERYL fmt --check > $D/log2 2>&1 || { echo "the formatted file no longer parses / is not stable"; rc=1; }
exit $rc
