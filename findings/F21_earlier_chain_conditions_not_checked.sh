#!/bin/sh
# F21 (C16): a branch of an if / else-if / else chain, of the else-if part of if_reset, or of a switch runs only if every earlier
# condition of the chain was false, so those conditions gate its writes exactly like its own condition (which the analyzer reports:
# module Direct). The lowering pushed only the branch's own condition on the condition stack (the first `if` condition for the final
# else, nothing at all for if_reset's else-if and for switch's default), so a foreign-domain condition earlier in the chain was
# never compared with the written signal.
# (observed by a seeding sub-agent on the unmodified tree, then confirmed here)
# exit 1 = defect present (some of the five chain shapes accepted), exit 0 = all five reported.
VERYL=${VERYL:-/repo/target/debug/veryl}
D=$(mktemp -d /var/tmp/f21.XXXXXX); trap 'rm -rf $D' EXIT
export XDG_CACHE_HOME=$D/xdg HOME=$D/home; mkdir -p $D/home
rc=0
try() {  # name, body of always_ff
  mkdir -p $D/$1/src
  printf '[project]\nname = "prj"\nversion = "0.1.0"\n[build]\nexclude_std = true\n' > $D/$1/Veryl.toml
  cat > $D/$1/src/a.veryl <<T
module M (
    i_clk_b: input  'b clock,
    i_rst_b: input  'b reset,
    c_a    : input  'a logic,
    c_b    : input  'b logic,
    d_b    : input  'b logic,
    o_b    : output 'b logic,
) {
    always_ff {
$2
    }
}
T
  (cd $D/$1 && $VERYL check > log 2>&1)
  if grep -q mismatch_clock_domain $D/$1/log; then echo "$1: reported"; else echo "$1: ACCEPTED although c_a ('a) gates the write to o_b ('b)"; rc=1; fi
}
try direct        "if c_a { o_b = d_b; }"
try else_if       "if c_a { } else if c_b { o_b = d_b; }"
try final_else    "if c_b { } else if c_a { } else { o_b = d_b; }"
try if_reset      "if_reset { o_b = 0; } else if c_a { o_b = d_b; }"
try switch_later  "switch { c_a: {} c_b: o_b = d_b; default: {} }"
try switch_default "switch { c_a: {} default: o_b = d_b; }"
exit $rc
