#!/bin/sh
# F11 (C04): [properties] values are read by Analyzer::new ($prop::NAME symbols) but were not part of the
# incremental cache key. Demonstration against the built binary: exit 1 = defect present (stale output).
VERYL=${VERYL:-/repo/target/debug/veryl}
D=$(mktemp -d /var/tmp/f11.XXXXXX); trap 'rm -rf $D' EXIT
export XDG_CACHE_HOME=$D/xdg HOME=$D/home; mkdir -p $D/prj/src $D/home
cat > $D/prj/Veryl.toml <<T
[project]
name = "f11"
version = "0.1.0"
[build]
incremental = true
sources = ["src"]
[properties]
WIDTH = 8
T
cat > $D/prj/src/a.veryl <<T
module ModuleA (
    i_d: input  logic<8>,
    o_d: output logic<8>,
) {
    const W: i64 = \$prop::WIDTH;
    if W == 8 :g {
        assign o_d = i_d;
    } else {
        assign o_d = ~i_d;
    }
}
T
cd $D/prj && git init -q . 2>/dev/null
$VERYL build > $D/log1 2>&1 || { echo "build failed"; cat $D/log1; exit 2; }
cp src/a.sv $D/first.sv
sed -i 's/WIDTH = 8/WIDTH = 4/' Veryl.toml
sleep 1
$VERYL build > $D/log2 2>&1
cp src/a.sv $D/incremental.sv
rm -rf .build target src/a.sv src/a.sv.map dependencies
$VERYL build >/dev/null 2>&1
cp src/a.sv $D/clean.sv
[ -n "$F11_SHOW" ] && { cat $D/log2; cat $D/clean.sv; }
if cmp -s $D/incremental.sv $D/clean.sv; then echo "F11 not present: incremental output equals clean output after changing [properties] WIDTH"; exit 0
else echo "F11 PRESENT: after changing [properties] WIDTH the incremental build kept the stale output:"; diff $D/incremental.sv $D/clean.sv | head -8; exit 1; fi
