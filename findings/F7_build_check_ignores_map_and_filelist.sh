#!/bin/sh
# F7 (C27): `veryl build --check` compares only the emitted .sv files (and bundles). Source maps and the filelist are
# written by `veryl build` but never compared in check mode, so --check passes although build would change files.
# exit 1 = defect present, exit 0 = not present. WHAT=map|filelist|both (default both) selects the output damaged.
VERYL=${VERYL:-/repo/target/debug/veryl}
WHAT=${WHAT:-both}
D=$(mktemp -d /var/tmp/f7.XXXXXX); trap 'rm -rf $D' EXIT
export XDG_CACHE_HOME=$D/xdg HOME=$D/home; mkdir -p $D/prj/src $D/home
cat > $D/prj/Veryl.toml <<T
[project]
name = "f7"
version = "0.1.0"
[build]
sources = ["src"]
T
cat > $D/prj/src/a.veryl <<T
module ModuleA (
    i_d: input  logic,
    o_d: output logic,
) {
    assign o_d = i_d;
}
T
cd $D/prj
$VERYL build > $D/b1.log 2>&1 || { echo "build failed"; tail -5 $D/b1.log; exit 2; }
$VERYL build --check > $D/c0.log 2>&1 || { echo "build --check fails right after build?"; tail -5 $D/c0.log; exit 2; }
[ -f src/a.sv.map ] && [ -f f7.f ] || { echo "expected outputs missing"; ls -R; exit 2; }
case $WHAT in map|both) rm -f src/a.sv.map;; esac
case $WHAT in filelist|both) echo "garbage" > f7.f;; esac
find . -type f \( -name '*.sv' -o -name '*.map' -o -name '*.f' \) | sort | xargs md5sum > $D/before.txt 2>/dev/null
$VERYL build --check > $D/c1.log 2>&1; rc=$?
$VERYL build > $D/b2.log 2>&1
find . -type f \( -name '*.sv' -o -name '*.map' -o -name '*.f' \) | sort | xargs md5sum > $D/after.txt 2>/dev/null
if cmp -s $D/before.txt $D/after.txt; then echo "build changed nothing (setup problem)"; exit 2; fi
if [ $rc -eq 0 ]; then
  echo "F7 PRESENT ($WHAT): build --check exited 0, yet build then changed:"; diff $D/before.txt $D/after.txt | sed "s|$D||" | head -6; exit 1
fi
echo "F7 not present ($WHAT): build --check failed (exit $rc) and build would change files"; exit 0
