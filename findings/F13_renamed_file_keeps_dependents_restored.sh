#!/bin/sh
# F13 (C04): a file of the previous build that is renamed (or deleted) while its content changes: its saved dependents
# are never consulted because only paths of the current build seed the miss set, so a user of the moved definition is
# restored from the cache and its pass2 error goes unreported.
# exit 1 = defect present (incremental check and fresh-cache check disagree), exit 0 = they agree.
VERYL=${VERYL:-/repo/target/debug/veryl}
D=$(mktemp -d /var/tmp/f13.XXXXXX); trap 'rm -rf $D' EXIT
export XDG_CACHE_HOME=$D/xdg HOME=$D/home; mkdir -p $D/home $D/p/src
cat > $D/p/Veryl.toml <<T
[project]
name = "prj"
version = "0.1.0"
[build]
sources = ["src"]
target = {type = "directory", path = "target"}
sourcemap_target = {type = "none"}
exclude_std = true
incremental = true
T
cat > $D/p/src/a.veryl <<T
package PkgA {
    const WIDTH: u32 = 8;
}
T
cat > $D/p/src/c.veryl <<T
module ModC (
    i_dat: input  logic<8>,
    o_dat: output logic<8>,
) {
    assign o_dat = i_dat[PkgA::WIDTH - 1:0];
}
T
cd $D/p
$VERYL check > $D/log.0 2>&1 || { echo "setup: first check failed"; cat $D/log.0; exit 2; }
mv src/a.veryl src/a2.veryl; sed -i 's/= 8;/= 16;/' src/a2.veryl
$VERYL check > $D/log.1 2>&1; inc=$?
rm -rf .build/cache
$VERYL check > $D/log.2 2>&1; fresh=$?
echo "after rename+edit: incremental check exit=$inc, fresh-cache check exit=$fresh"
[ "$inc" = "$fresh" ] && exit 0
exit 1
