#!/bin/sh
# F12 (C04): a restored file that has both a warning a global post-pass re-derives fresh (unused_variable) and a
# pass2-only warning (mismatch_assignment): the first warm run stores only the re-derived subset as the file's
# diagnostics (collect_diagnosed skipped replayed ones), so the pass2 warning is gone from the second warm run on.
# exit 1 = defect present (a warm run reports fewer warnings than a fresh-cache run), exit 0 = every run agrees.
VERYL=${VERYL:-/repo/target/debug/veryl}
D=$(mktemp -d /var/tmp/f12.XXXXXX); trap 'rm -rf $D' EXIT
export XDG_CACHE_HOME=$D/xdg HOME=$D/home; mkdir -p $D/home $D/p/src
cat > $D/p/Veryl.toml <<T
[project]
name = "prj"
version = "0.1.0"
[build]
sources = ["src"]
target = {type = "directory", path = "target"}
sourcemap_target = {type = "none"}
exclude_std = true
incremental = true
T
cat > $D/p/src/w.veryl <<T
module Warn {
    let unused_var: logic = 1;
    let _a: logic[2] = 1;
}
T
cd $D/p
bad=0
for i in 1 2 3 4; do
  $VERYL check > $D/log.$i 2>&1
  n=$(grep -c '⚠' $D/log.$i)
  echo "run $i: $n warning(s)"
  eval n$i=$n
done
rm -rf .build/cache; $VERYL check > $D/log.f 2>&1; nf=$(grep -c '⚠' $D/log.f)
echo "fresh cache: $nf warning(s)"
for i in 1 2 3 4; do eval v=\$n$i; [ "$v" = "$nf" ] || bad=1; done
exit $bad
