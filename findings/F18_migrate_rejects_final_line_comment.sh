#!/bin/sh
# F18 (C23, C10): veryl_migrator::Parser::parse registered the newline-terminated copy of the input in the text table
# but handed the ORIGINAL input to the generated parser; the lexer's line-comment rule needs a trailing newline, so a
# previous-grammar file that ends in `// ...` without a final newline could not be migrated (syntax error at the comment).
# exit 1 = defect present (migrate fails only without the final newline), exit 0 = both variants migrate.
VERYL=${VERYL:-/repo/target/debug/veryl}
D=$(mktemp -d /var/tmp/f18.XXXXXX); trap 'rm -rf $D' EXIT
export XDG_CACHE_HOME=$D/xdg HOME=$D/home; mkdir -p $D/home
mk() { mkdir -p $1/src; cat > $1/Veryl.toml <<T
[project]
name = "prj"
version = "0.1.0"
[build]
sources = ["src"]
exclude_std = true
T
printf 'module A {\n    var a: logic<10>;\n    always_comb {\n        for i: u32 in 0..10 {\n            a[i] = 0;\n        }\n    }\n}\n// trailing comment' > $1/src/a.veryl; }
mk $D/no_nl; mk $D/nl; printf '\n' >> $D/nl/src/a.veryl
( cd $D/no_nl && $VERYL migrate > $D/log.a 2>&1 ); a=$?
( cd $D/nl && $VERYL migrate > $D/log.b 2>&1 ); b=$?
echo "migrate without final newline: exit $a; with final newline: exit $b"
[ $b -eq 0 ] || { echo "setup: the newline-terminated variant does not migrate either"; tail -5 $D/log.b; exit 2; }
[ $a -eq 0 ] && exit 0
tail -6 $D/log.a
exit 1
