#!/bin/sh
# F19 (C13, C28): veryl_pretty::render::render_comments reset state.col to 0 after a block comment that contains a line break,
# although the comment's last line (and whatever follows it) stays on the current output line. Every source-map entry recorded
# later on that line carried an output column that was too small by the length of the comment's last line. For
#   assign b = /* first
#      second */ a & a;
# the emitted line is "       second */ a & a;" and the entry named "a" must sit where that "a" starts in the .sv.
# (found by the static rule C28.R8 / C13.R2 "col-reset-after-newline")
# exit 1 = defect present, exit 0 = every entry of the line points at its own text.
VERYL=${VERYL:-/repo/target/debug/veryl}
D=$(mktemp -d /var/tmp/f19.XXXXXX); trap 'rm -rf $D' EXIT
export XDG_CACHE_HOME=$D/xdg HOME=$D/home; mkdir -p $D/home $D/p/src
cat > $D/p/Veryl.toml <<T
[project]
name = "prj"
version = "0.1.0"
[build]
sources = ["src"]
target = {type = "directory", path = "target"}
sourcemap_target = {type = "directory", path = "maps"}
exclude_std = true
T
printf 'module A (\n    a: input logic,\n    b: output logic,\n) {\n    assign b = /* first\n       second */ a & a;\n}\n' > $D/p/src/a.veryl
cd $D/p && $VERYL build > $D/log 2>&1 || { echo "setup: build failed"; cat $D/log; exit 2; }
python3 - <<'PY'
import json, glob, sys
B = 'ABCDEFGHIJKLMNOPQRSTUVWXYZabcdefghijklmnopqrstuvwxyz0123456789+/'
def vlq(seg):
    out = []; shift = 0; val = 0
    for ch in seg:
        d = B.index(ch); cont = d & 32; d &= 31; val += d << shift; shift += 5
        if not cont:
            out.append(-(val >> 1) if val & 1 else val >> 1); shift = 0; val = 0
    return out
m = json.load(open(glob.glob('maps/*.map')[0]))
sv = open(glob.glob('target/*.sv')[0]).read().split('\n')
names = m.get('names', [])
ni = 0
bad = 0
n = 0
for gl, line in enumerate(m['mappings'].split(';')):
    gc = 0
    for seg in line.split(','):
        if not seg:
            continue
        v = vlq(seg); gc += v[0]
        if len(v) >= 5:
            ni += v[4]
            n += 1
            if not sv[gl][gc:].startswith(names[ni].split('\n')[0]):
                bad += 1
                print("entry %r at output %d:%d, but the output there reads %r" % (names[ni], gl + 1, gc + 1, sv[gl][gc:gc + 12]))
print("%d named entries, %d do not point at their own text" % (n, bad))
sys.exit(1 if bad else 0)
PY
