#!/bin/sh
# F22 (C13): a token emitted as empty text (the trailing comma that the emitter drops from the last parameter / port of a list:
# `token.replace("")`) still becomes a source-map entry. Its name is "" and its output column is where the cursor stood after the
# alignment padding, which strip_trailing_whitespace then removes: the entry's output position lies beyond the end of the emitted
# line (std/slicer.sv: entry at 8:63, the line has 47 characters).
# Not repaired: the obvious repair (no anchor for empty text in Emitter::push_token) changes 60+ committed .sv.map files that the
# existing tests compare byte for byte, so it cannot pass the unedited suite.
# exit 1 = defect present, exit 0 = every entry's output position is inside its line.
VERYL=${VERYL:-/repo/target/debug/veryl}
HERE=$(cd "$(dirname "$0")" && pwd)
D=$(mktemp -d /var/tmp/f22.XXXXXX); trap 'rm -rf $D' EXIT
export XDG_CACHE_HOME=$D/xdg HOME=$D/home; mkdir -p $D/home $D/p/src
printf '[project]\nname = "prj"\nversion = "0.1.0"\n[build]\nexclude_std = true\n' > $D/p/Veryl.toml
printf 'module A #(\n    param P: u32 = 100000,\n    param LONG_NAME: u32 = 2,\n) (\n    a: input logic,\n    b: output logic,\n) {\n    assign b = a;\n}\n' > $D/p/src/a.veryl
cd $D/p && $VERYL build > $D/log 2>&1 || { echo "setup: build failed"; cat $D/log; exit 2; }
python3 $HERE/check_map.py src/a.sv src/a.sv.map
