#!/bin/sh
# F2 (C26/C11): with strip_comments = true the emitter never updates last_token in build mode;
# an instance with an unconnected port that has a default value then unwraps a None (vertical_align=false)
# or uses a stale token. exit 1 = defect present.
VERYL=${VERYL:-/repo/target/debug/veryl}
D=$(mktemp -d /var/tmp/f2.XXXXXX); trap 'rm -rf $D' EXIT
export XDG_CACHE_HOME=$D/xdg HOME=$D/home; mkdir -p $D/home
mk() { # $1 dir, $2 strip_comments
mkdir -p $1/src; cat > $1/Veryl.toml <<T
[project]
name = "f2"
version = "0.1.0"
[build]
sources = ["src"]
strip_comments = $2
[format]
vertical_align = false
T
cat > $1/src/a.veryl <<T
module ModuleB (
    i_a: input  logic = 0,
    i_b: input  logic    ,
    o_c: output logic    ,
) {
    assign o_c = i_a & i_b;
}
module ModuleA (
    i_b: input  logic,
    o_c: output logic,
) {
    // a comment
    inst u: ModuleB (
        i_b,
        o_c,
    );
}
T
}
mk $D/keep false; mk $D/strip true
(cd $D/keep && $VERYL build > $D/keep.log 2>&1); rk=$?
(cd $D/strip && $VERYL build > $D/strip.log 2>&1); rs=$?
if [ $rk -ne 0 ]; then echo "baseline build failed"; cat $D/keep.log | head; exit 2; fi
if [ $rs -ne 0 ]; then echo "F2 PRESENT: strip_comments=true makes the build fail where strip_comments=false succeeds:"; grep -m3 -i "panicked\|emitter.rs" $D/strip.log; exit 1; fi
# both succeeded: outputs must be equal modulo comments
grep -v '^\s*//' $D/keep/src/a.sv | grep -v '^\s*$' > $D/k.txt; grep -v '^\s*//' $D/strip/src/a.sv | grep -v '^\s*$' > $D/s.txt
if cmp -s $D/k.txt $D/s.txt; then echo "F2 not present: strip_comments only removed comments"; exit 0; fi
echo "F2 PRESENT: outputs differ beyond comments"; diff $D/k.txt $D/s.txt | head; exit 1
