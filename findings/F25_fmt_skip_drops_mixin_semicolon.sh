#!/bin/sh
# F25 (C09): the parser's provided VerylWalker::mixin_declaration visited `mixin` and the scoped identifier but not the node's third
# child, the semicolon. Every walker that does not override it loses that token; TokenCollector is one, and the formatter uses it to copy
# a `#[fmt(skip)]` item verbatim: `veryl fmt` rewrote `mixin IfB;` inside a skipped interface as `mixin IfB` and left a file that no
# longer parses.
# (found by the static walker must-visit rule: C09.R1/walker/mixin_declaration "child `semicolon` is never visited")
# exit 1 = defect present, exit 0 = the formatted file still parses and keeps the semicolon.
VERYL=${VERYL:-/repo/target/debug/veryl}
D=$(mktemp -d /var/tmp/f25.XXXXXX); trap 'rm -rf $D' EXIT
export XDG_CACHE_HOME=$D/xdg HOME=$D/home; mkdir -p $D/home $D/p/src
printf '[project]\nname = "prj"\nversion = "0.1.0"\n[build]\nexclude_std = true\n' > $D/p/Veryl.toml
printf 'interface IfB {\n    var b: logic;\n}\n#[fmt(skip)]\ninterface IfA {\n    mixin IfB;\n    var a   :   logic;\n}\n' > $D/p/src/a.veryl
cd $D/p && $VERYL fmt > $D/log 2>&1
if ! grep -q "mixin IfB;" src/a.veryl; then echo "veryl fmt dropped the semicolon:"; sed -n 5,7p src/a.veryl; exit 1; fi
$VERYL fmt --check > $D/log2 2>&1 || { echo "formatted file does not pass fmt --check"; grep -v INFO $D/log2 | head -5; exit 1; }
echo "semicolon kept, file still parses"; exit 0
