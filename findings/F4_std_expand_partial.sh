#!/bin/sh
# F4 (C30): veryl_std::expand decides "already expanded" by std_dir.exists() *before* taking the directory lock, and
# creates the directory before filling it under the lock with plain writes. A second process that starts while the
# first is still expanding (or after the first died there) sees the directory, skips expansion without ever taking
# the lock, and analyses a partial standard library. The state "directory exists, not yet filled" is reproduced
# here exactly as process A leaves it right after its create_dir_all (line 21) and before its first fs::write.
# exit 1 = defect present (second process fails / differs from a clean run), exit 0 = not present.
VERYL=${VERYL:-/repo/target/debug/veryl}
D=$(mktemp -d /var/tmp/f4.XXXXXX); trap 'rm -rf $D' EXIT
export XDG_CACHE_HOME=$D/xdg HOME=$D/home; mkdir -p $D/prj/src $D/home
cat > $D/prj/Veryl.toml <<T
[project]
name = "f4"
version = "0.1.0"
[build]
sources = ["src"]
T
cat > $D/prj/src/a.veryl <<T
module ModuleA (
    i_clk: input  clock,
    i_rst: input  reset,
    i_d  : input  logic,
    o_d  : output logic,
) {
    inst u: \$std::synchronizer (
        i_clk   ,
        i_rst   ,
        i_d     ,
        o_d     ,
    );
}
T
cd $D/prj
$VERYL build > $D/clean.log 2>&1 || { echo "reference build failed"; tail -5 $D/clean.log; exit 2; }
STD=$(ls -d $XDG_CACHE_HOME/veryl/std/*/ | head -1)
[ -d "$STD" ] || { echo "std dir not found"; exit 2; }
cp src/a.sv $D/clean.sv
# process A: create_dir_all(std_dir) done, nothing written yet
rm -rf "$STD"; mkdir -p "$STD"
rm -rf src/a.sv src/a.sv.map f4.f target .build
$VERYL build > $D/second.log 2>&1; rc=$?
if [ $rc -ne 0 ] || ! cmp -s src/a.sv $D/clean.sv; then
  echo "F4 PRESENT: a process that finds the std directory existing but not yet filled skips expansion without taking the lock:"
  grep -m3 -i "error\|undefined\|not found" $D/second.log
  exit 1
fi
echo "F4 not present: the second process waited for / completed the expansion"; exit 0
