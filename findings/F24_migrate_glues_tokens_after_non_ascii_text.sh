#!/bin/sh
# F24 (C23): Migrator::push_token re-creates the spacing between tokens from Token.line/column, which count characters, but advanced
# its own cursor by the BYTE length of each token's text. After a comment or string literal with multi-byte characters the cursor ran
# ahead of the following tokens' columns, `column.saturating_sub(cursor)` became 0, and the tokens were written without any blank
# between them: `/* éééééé */ module A {` became `/* éééééé */moduleA{`, which the current parser rejects (veryl migrate fails
# with "Unexpected token") - or, where the glued text still lexes, silently changes the token sequence.
# (found by reading the anchored code while building the C23 rules; the static rule is C23.R3/column-in-chars)
# exit 1 = defect present, exit 0 = migrated.
VERYL=${VERYL:-/repo/target/debug/veryl}
D=$(mktemp -d /var/tmp/f24.XXXXXX); trap 'rm -rf $D' EXIT
export XDG_CACHE_HOME=$D/xdg HOME=$D/home; mkdir -p $D/home $D/p/src
printf '[project]\nname = "prj"\nversion = "0.1.0"\n[build]\nexclude_std = true\n' > $D/p/Veryl.toml
printf '/* \303\251\303\251\303\251\303\251\303\251\303\251 */ module A {\n    always_comb {\n        for i: u32 in 0..2 {\n        }\n    }\n}\n' > $D/p/src/a.veryl
cd $D/p && $VERYL migrate > $D/log 2>&1; rc=$?
if [ $rc -ne 0 ]; then grep -v INFO $D/log | head -8; echo "veryl migrate failed on a valid previous-grammar program"; exit 1; fi
if grep -q "for i in 0..2" src/a.veryl && grep -q "module A" src/a.veryl; then echo "migrated: for-loop type annotation removed, tokens intact"; exit 0; fi
echo "unexpected result:"; cat src/a.veryl; exit 1
