#!/bin/sh
# F5b (C31/C24): Lockfile::gen_locks walks metadata.dependencies (a HashMap with RandomState) breadth first; when two
# dependencies pull in different projects that have the same name, the walk order decides which one keeps the name
# and which one gets the numeric suffix. The lockfile of an unchanged project must be the same on every resolution.
# exit 1 = defect present (several distinct lockfiles), exit 0 = one lockfile.
VERYL=${VERYL:-/repo/target/debug/veryl}
N=${N:-10}
D=$(mktemp -d /var/tmp/f5b.XXXXXX); trap 'rm -rf $D' EXIT
export XDG_CACHE_HOME=$D/xdg HOME=$D/home; mkdir -p $D/home
mkprj() { # dir name deps...
  d=$1; n=$2; shift 2
  mkdir -p $D/$d/src
  { echo "[project]"; echo "name = \"$n\""; echo "version = \"0.1.0\""; echo "[build]"; echo "sources = [\"src\"]"; echo "[dependencies]"; for x in "$@"; do echo "$x"; done; } > $D/$d/Veryl.toml
  cat > $D/$d/src/m.veryl <<T
pub module Mod_$d (
    i_d: input  logic,
    o_d: output logic,
) {
    assign o_d = i_d;
}
T
}
mkprj c1 common
mkprj c2 common
mkprj c3 common
mkprj c4 common
mkprj da depa 'common = {path = "../c1"}'
mkprj db depb 'common = {path = "../c2"}'
mkprj dc depc 'common = {path = "../c3"}'
mkprj dd depd 'common = {path = "../c4"}'
mkprj root root 'depa = {path = "../da"}' 'depb = {path = "../db"}' 'depc = {path = "../dc"}' 'depd = {path = "../dd"}'
cd $D/root
i=0
while [ $i -lt $N ]; do
  rm -f Veryl.lock
  $VERYL build > $D/log.$i 2>&1 || { echo "build failed"; tail -5 $D/log.$i; exit 2; }
  sed "s|$D||g" Veryl.lock > $D/lock.$i
  i=$((i+1))
done
K=$(for f in $D/lock.*; do md5sum < $f; done | sort -u | wc -l)
[ -n "$SHOW" ] && cat $D/lock.0
if [ "$K" -eq 1 ]; then echo "F5b not present: $N resolutions of an unchanged project gave one lockfile"; exit 0; fi
echo "F5b PRESENT: $N resolutions of an unchanged project gave $K different lockfiles, e.g.:"
for f in $D/lock.*; do if ! cmp -s $f $D/lock.0; then diff $D/lock.0 $f | head -12; break; fi; done
exit 1
