#!/bin/sh
# F15 (C05, C30): outputs were written in place (open O_TRUNC, then write). A build that re-emits an output whose
# source is unchanged (the output had been deleted) and dies between the truncate and the write leaves an empty
# file; the manifest and info.toml of the previous good build still vouch for it, so the next build restores the
# file from the cache and keeps the truncated output.
# The crash is injected with strace: SIGKILL on entry of the first write()/rename() that touches the output path.
# exit 1 = defect present (output after the recovery build differs from a clean build), exit 0 = identical.
VERYL=${VERYL:-/repo/target/debug/veryl}
command -v strace >/dev/null || { echo "strace not available"; exit 2; }
D=$(mktemp -d /var/tmp/f15.XXXXXX); trap 'rm -rf $D' EXIT
export XDG_CACHE_HOME=$D/xdg HOME=$D/home; mkdir -p $D/home $D/p/src
cat > $D/p/Veryl.toml <<T
[project]
name = "prj"
version = "0.1.0"
[build]
sources = ["src"]
target = {type = "directory", path = "target"}
sourcemap_target = {type = "none"}
exclude_std = true
incremental = true
T
cat > $D/p/src/top.veryl <<T
module Top (
    i: input  logic,
    o: output logic,
) {
    assign o = ~i;
}
T
cd $D/p
$VERYL build > $D/log.1 2>&1 || { echo "setup: first build failed"; cat $D/log.1; exit 2; }
cp target/top.sv $D/good.sv
rm target/top.sv
strace -f -o $D/strace.out -P $D/p/target/top.sv -e trace=write,rename,renameat,renameat2 \
       -e inject=write,rename,renameat,renameat2:signal=SIGKILL $VERYL build > $D/log.2 2>&1
echo "crashed build: exit $? ; output now: $( [ -e target/top.sv ] && echo "$(wc -c < target/top.sv) bytes" || echo absent )"
$VERYL build > $D/log.3 2>&1 || { echo "recovery build failed"; cat $D/log.3; exit 1; }
if cmp -s target/top.sv $D/good.sv; then echo "recovery build: output identical to the clean build"; exit 0; fi
echo "recovery build: output differs from the clean build ($( [ -e target/top.sv ] && wc -c < target/top.sv || echo absent) bytes vs $(wc -c < $D/good.sv))"
exit 1
