#!/bin/sh
# F26 (C09): the formatter writes the `#(` `)` of an instance's parameter list and the `(` `)` of its port list only when the list is
# not empty. `inst u0: ModA #() ();` is rewritten `inst u0: ModA ;`: five tokens (and any comment attached to them) disappear, although
# C09 lets the formatted token sequence differ from the original only in optional trailing separators. Deliberate normalisation -
# recorded, not repaired.
# exit 1 = tokens dropped, exit 0 = kept.
VERYL=${VERYL:-/repo/target/debug/veryl}
D=$(mktemp -d /var/tmp/f26.XXXXXX); trap 'rm -rf $D' EXIT
export XDG_CACHE_HOME=$D/xdg HOME=$D/home; mkdir -p $D/home $D/p/src
printf '[project]\nname = "prj"\nversion = "0.1.0"\n[build]\nexclude_std = true\n' > $D/p/Veryl.toml
printf 'module ModA {}\nmodule ModB {\n    inst u0: ModA #( /* no parameters */ ) ();\n    inst u1: ModA ();\n}\n' > $D/p/src/a.veryl
cd $D/p && $VERYL fmt > $D/log 2>&1
sed -n 3,4p src/a.veryl
if grep -q "#(" src/a.veryl && grep -q "no parameters" src/a.veryl && [ "$(grep -c '()' src/a.veryl)" -ge 2 ]; then exit 0; fi
echo "veryl fmt removed the empty lists (and the comment inside)"; exit 1
