//! F27 demonstration: an import statement deleted from a buffer must stop resolving names. The module's inner scope is interned by
//! (parent, name), so the re-analysis of the file gets the same scope back; its `imports` / `wildcards` / `mixins` lists were not
//! cleared by Analyzer::drop_file and the deleted import kept working. Exit 1 if `W` still resolves after the import is gone.
use veryl_analyzer::{Analyzer, Context, ir::Ir};
use veryl_metadata::Metadata;
use veryl_parser::{Parser, resource_table};

fn analyse(metadata: &Metadata, text: &str, path: &std::path::Path) -> Vec<String> {
    // the sequence of veryl_ls::Server::on_change
    if let Some(path_id) = resource_table::get_path_id(path.to_path_buf()) {
        Analyzer::drop_file(path_id, Some("prj".into()));
    }
    let x = Parser::parse(text, &path).unwrap();
    let analyzer = Analyzer::new(metadata);
    let mut context = Context::default();
    let mut ir = Ir::default();
    let mut errors = analyzer.analyze_pass1("prj", &x.veryl);
    errors.append(&mut Analyzer::analyze_post_pass1());
    errors.append(&mut analyzer.analyze_pass2(&x.veryl, &mut context, Some(&mut ir)));
    errors.append(&mut Analyzer::analyze_post_pass2(&ir));
    errors.iter().map(|e| format!("{e}")).collect()
}

fn main() {
    let metadata = Metadata::create_default("prj").unwrap();
    let a = std::path::PathBuf::from("/f27/src/a.veryl");
    let b = std::path::PathBuf::from("/f27/src/b.veryl");
    let pkg = "package PkgA {\n    const W: u32 = 8;\n}\n";
    let without = "module ModB (\n    o: output logic<8>,\n) {\n    assign o = W;\n}\n";
    let mut bad = 0;
    analyse(&metadata, pkg, &a);
    for import in ["import PkgA::*;", "import PkgA::W;"] {
        let with = format!("module ModB (\n    o: output logic<8>,\n) {{\n    {import}\n    assign o = W;\n}}\n");
        let d1 = analyse(&metadata, &with, &b);
        let d2 = analyse(&metadata, without, &b);
        println!("with `{import}`: {} diagnostic(s); after deleting it: {} diagnostic(s) {:?}", d1.len(), d2.len(), d2);
        if !d1.is_empty() {
            println!("setup problem: the version with the import was expected to be clean: {d1:?}");
            std::process::exit(2);
        }
        if !d2.iter().any(|x| x.contains("undefined")) {
            println!("  -> `W` still resolves although the import is gone");
            bad += 1;
        }
    }
    std::process::exit(if bad > 0 { 1 } else { 0 });
}
