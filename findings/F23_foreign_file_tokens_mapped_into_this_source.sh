#!/bin/sh
# F23 (C13): the body of a generic function (or package item) defined in another file is emitted into the module that instantiates
# it, token by token, through Emitter::push_token. Those tokens carry the line/column of the file they were read from, but every map
# entry names the emitted file as its source (SourceMap::add always passes self.src_path_from_map). b.sv.map therefore sends
# `return a + b;` of __foo_func__8 to line 9 of b.veryl - a file with 7 lines; with a longer b.veryl the entries land in the middle
# of unrelated words (committed example: testcases/map/25_dependency_2.sv.map, 34 such entries; 68_std_1: 888).
# Not repaired: any repair (do not anchor foreign tokens, or name their own file per entry) changes the committed maps of testcases
# 25_dependency_2 and 68_std_1, which are only compared by test_25_dependency_1 / test_68_std_1 - tests that need the network and
# always fail in this sandbox - so the expectations the repair must carry cannot be regenerated or validated here.
# exit 1 = defect present, exit 0 = every entry of b.sv.map points at a token start of b.veryl.
VERYL=${VERYL:-/repo/target/debug/veryl}
HERE=$(cd "$(dirname "$0")" && pwd)
D=$(mktemp -d /var/tmp/f23.XXXXXX); trap 'rm -rf $D' EXIT
export XDG_CACHE_HOME=$D/xdg HOME=$D/home; mkdir -p $D/home $D/p/src
printf '[project]\nname = "prj"\nversion = "0.1.0"\n[build]\nexclude_std = true\n' > $D/p/Veryl.toml
printf '\n\n\n// padding so that positions differ between the files\npub function foo_func::<W: u32> (\n    a: input logic<W>,\n    b: input logic<W>,\n) -> logic<W> {\n    return a + b;\n}\n' > $D/p/src/a.veryl
printf 'module ModuleB (\n    i_a: input  logic<8>,\n    i_b: input  logic<8>,\n    o_c: output logic<8>,\n) {\n    assign o_c = foo_func::<8>(i_a, i_b);\n}\n' > $D/p/src/b.veryl
cd $D/p && $VERYL build > $D/log 2>&1 || { echo "setup: build failed"; cat $D/log; exit 2; }
python3 $HERE/check_map.py src/b.sv src/b.sv.map | grep -v "^VIOLATION L" | tail -6
python3 $HERE/check_map.py src/b.sv src/b.sv.map | grep -q "^VIOLATION [DS]" && exit 1
exit 0
