#!/bin/sh
# F33 (C16, companion of F32): a function body that assigns a signal of the enclosing module to an output argument laundered the
# signal's domain: `function g(r: output logic) { r = i_a; }` with i_a in 'a and `always_comb { g(o_b); }` with o_b in 'b passed
# `veryl check`; function_call checked output destinations against the merged input domains only.
# exit 1 = defect present, exit 0 = the crossing is reported and the single-domain uses stay quiet.
VERYL=${VERYL:-/repo/target/debug/veryl}
D=$(mktemp -d /var/tmp/f33.XXXXXX); trap 'rm -rf $D' EXIT
export XDG_CACHE_HOME=$D/xdg HOME=$D/home; mkdir -p $D/home $D/p/src
printf '[project]\nname = "prj"\nversion = "0.1.0"\n[build]\nexclude_std = true\n' > $D/p/Veryl.toml
cat > $D/p/src/a.veryl <<T
module MG (
    i_clk_a: input  'a clock,
    i_clk_b: input  'b clock,
    i_a    : input  'a logic,
    o_c    : output 'b logic,
) {
    function g (
        r: output logic,
    ) {
        r = i_a;
    }
    always_comb {
        g(o_c);
    }
}
T
cat > $D/p/src/ok.veryl <<T
module MGOK (
    i_clk_a: input  'a clock,
    i_clk_b: input  'b clock,
    i_a    : input  'a logic,
    i_b    : input  'b logic,
    o_a    : output 'a logic,
    o_b    : output 'b logic,
    o_b2   : output 'b logic,
) {
    function g (
        r: output logic,
    ) {
        r = i_a;
    }
    function cp (
        x: input  logic,
        r: output logic,
    ) {
        r = x;
    }
    function one (
        r: output logic,
    ) {
        r = 1'b1;
    }
    always_comb {
        g(o_a);
        cp(i_b, o_b);
        one(o_b2);
    }
}
T
cd $D/p
OUT=$($VERYL check 2>&1)
N=$(echo "$OUT" | grep -A3 "^Error: mismatch_clock_domain" | grep -c "─\[.*a.veryl")
NOK=$(echo "$OUT" | grep -c "─\[.*ok.veryl")
echo "crossings reported in a.veryl: $N (expected >= 1); diagnostics naming ok.veryl: $NOK (expected 0)"
[ "$N" -ge 1 ] && [ "$NOK" = 0 ]
