#!/bin/sh
# Build the framework from files on disk only (offline): the vfacts rustc_private driver,
# then a first extraction of facts for the whole workspace, which also warms the
# cargo target directory the checks reuse (.cache/target). Nothing from /repo is run.
set -e
cd "$(dirname "$0")"
export CARGO_NET_OFFLINE=true
mkdir -p .cache evidence out/replay
( cd vfacts && cargo build --release --offline )
test -x vfacts/target/release/vfacts
python3 rules/facts.py
